"""C19 — exported data files load back to the same table or image.

For every case: build a real Data (+ optional subset), call the registered exporter, then
  correspondence : what the exporter wrote (astropy Table handed to the writer / raw h5py / raw astropy.io.fits read)
                   against the extracted model's exported table (names, order, kinds, values, BLANK keyword), for the hand model
                   (run_case tag 1) and for the exporters TRANSLATED from the source (coq/gen/Gen_exporters.v, run_case tag 2);
  oracle         : load the file back with glue's data factories (load_data auto-detection and the specific factory) and
                   compare names, order and values with the selection computed directly with numpy on the original arrays;
  session        : some loaded files are put in a session saved by reference (include_data=False) and restored.
"""
import itertools
import os
import time
import zlib

import numpy as np

from harness.common import enc, Z, kids, to_zs

PROP = 'C19'
GENERATORS = ['gen_exporters']
TRUSTED = [
    'PARTIAL BY NATURE: the theorems cover only glue\'s own logic in the exporters - which components are written and in which order '
    '(main + derived, numerical only for gridded FITS), row selection values[mask] for tables and 1-d HDF5, replacement of the masked-out '
    'pixels by the dtype-kind fill for n-d HDF5 and gridded FITS - and the round trip only modulo an abstract codec (dec (enc t) = normalise t)',
    'the file codecs astropy.table / astropy.io.fits / astropy.io.votable / h5py / pandas.read_csv and numpy are external: '
    'that loading returns what was written is established only by the oracle runs on real files',
    'translator tools/gen/gen_exporters.py (fail-closed ast -> Gallina, regenerated from the current source on every run) and the primitive operations of coq/C19/ExportSem.v '
    'that the translated data_to_astropy_table / hdf5_writer / fits_writer are written in (fetch = data[cid] / data[cid, view], arr_pick, arr_fill, arr_encode, the link functions): '
    'these say what numpy indexing and glue\'s Data.__getitem__ / get_kind / main_components / derived_components do, and are tied to the code by the generated_exporters correspondence stream; '
    'the hand model Model.export is PROVED equal to the translated functions (gen_export_is_model) under wf_data (dtype kinds f, i, S, and U for categorical components; numerical = f or i)',
    'not modelled in the translated gridded-FITS exporter: the contents of the WCS / BUNIT header and the aliasing of data_header by make_component_header (only which HDU gets BLANK, and its value)',
    'glue data factories (fits_reader, hdf5_reader, astropy_tabular_data*, pandas_read_table / tabular_data, load_data / find_factory) and '
    'session save by reference (LoadLog) are exercised by the oracle only',
]
ASSUMPTIONS = [
    'accepted normalisations (fixed): HDF5 returns text as ASCII bytes; FITS upper-cases HDU names and returns BLANK-masked integer images as float with NaN; '
    'CSV re-infers dtypes (and an empty column has no dtype); FITS stores integers/floats big-endian',
    'domain: float (float32/float64, dyadic values, NaN), integer (int16/32/64) and clearly non-numeric text columns without leading/trailing blanks, ASCII and non-ASCII '
    '(Latin-1, Greek, CJK, emoji, combining marks); text is preserved up to the format\'s encoding: HDF5 = ASCII with one ? per other code point (as the exporter writes today, the column must '
    'still come back), CSV / VO table = unchanged, FITS table = ASCII only (see known findings); '
    'the empty string is not generated: it is not clearly non-numeric text - CSV and astropy\'s FITS-table reader treat it as a missing value (the FITS-table factory then shows it as the text nan); column names are lower-case identifiers every format accepts',
    'table formats (CSV, FITS table, VO table) are exercised with 1-d datasets and with SUBSETS of 2-d / 3-d datasets (one row per selected pixel, C order); a whole n-d dataset is not a table '
    '(astropy makes vector columns of it) and is outside the domain; HDF5 and gridded FITS with 1-d, 2-d and 3-d data; arrays in native and non-native byte order; chains of two formats '
    '(the dataset loaded from the first file is the dataset of the second export)',
    'for gridded FITS, which writes one HDU per component and is read back as one dataset per HDU, "order" is the order of the returned datasets',
    'derived components: ComponentLink(using=...) with element-wise (2x, a+b) and whole-column link functions (running total, n x deviation from the mean, rank, reversed, shifted, a + reversed b) '
    'of numeric sources (a derived component computed from text has no kind in glue - Data.get_kind raises - and is outside the domain); text columns with display options of the '
    'CategoricalComponent switched on (jitter) and explicit category order with unused categories (1-d); the exporters\' components= filter with a non-empty list',
    'exporting a subset leaves the dataset as it was: the whole dataset exported afterwards (every second pixel-mode subset case) must load back to the original values',
    'masked-out pixels must come back as a blank value of the dtype kind (NaN for floats; 0 or NaN for integers; empty text), selected pixels unchanged',
    'the "matching data factory" is taken to be both load_data\'s auto-detected factory and the format-specific factory; see known findings for the two classes where they differ',
]

FMT_LABEL = {0: 'Comma-separated table', 1: 'FITS Table', 2: 'VO Table', 3: 'HDF5', 4: 'FITS (1 component/HDU)'}
FMT_EXT = {0: 'csv', 1: 'fits', 2: 'vot', 3: 'hdf5', 4: 'fits'}
FMT_NAME = {0: 'csv', 1: 'fits_table', 2: 'votable', 3: 'hdf5', 4: 'gridded_fits'}
NAN_TOKEN = 2 ** 80
NAMES = ['zeta', 'alpha', 'm1', 'b_2', 'x', 'flux', 'name', 'count', 'kq', 'y9']
LETTERS = 'bcdfghjkmpqrstvwxz'

_EXPORTERS = None


def exporters():
    global _EXPORTERS
    if _EXPORTERS is None:
        import glue.core.data_exporters as de
        de.setup()
        from glue.config import data_exporter
        _EXPORTERS = {e.label: e.function for e in data_exporter.members}
    return _EXPORTERS


# ---------------------------------------------------------------------- cases
# case = {'fmt', 'shape', 'cols': [(name, kind, dtype, values(list, flat))], 'derived': None | (name, source_index), 'mask': None | [bool],
#         'links': [(name, fn, [source indices])]   derived components made with ComponentLink(..., using=fn): element-wise AND whole-column functions,
#         'cat': {text column name: [jitter or None, explicit category list or None]}   display options of the CategoricalComponent,
#         'components': None | [names]   the exporters' components= filter}
def _flat(fn):
    """link functions see the component array (n-d for n-d data; 1-d when glue hands them a masked view): work on the flattened array"""
    def g(*arrs):
        shape = arrs[0].shape
        return np.asarray(fn(*[np.asarray(a).ravel() for a in arrs])).reshape(shape)
    return g


# name -> (number of inputs, function on flat arrays).  'double' and 'add2' are element-wise; the others look at the whole column.
LINK_FNS = {
    'double': (1, lambda f: f * 2),
    'cumsum': (1, lambda f: np.nancumsum(f)),                                   # running total (NaN counts as 0)
    'demean': (1, lambda f: f * f.size - np.nansum(f)),                         # n x (deviation from the column mean): exact in dyadic floats / ints
    'rank': (1, lambda f: np.argsort(np.argsort(f, kind='stable'), kind='stable')),   # row number in sorted order (NaN last, ties by position)
    'reversed': (1, lambda f: f[::-1]),
    'shifted': (1, lambda f: np.roll(f, 1)),
    'add2': (2, lambda a, b: a + b),
    'addrev': (2, lambda a, b: a + b[::-1]),
}
LINK_CODE = {'double': 1, 'cumsum': 2, 'demean': 3, 'rank': 4, 'reversed': 5, 'shifted': 6, 'add2': 7, 'addrev': 8}


def make_data(case):
    from glue.core import Data, DataCollection
    from glue.core.component import CategoricalComponent
    from glue.core.component_id import ComponentID
    from glue.core.component_link import ComponentLink
    from glue.core.subset import MaskSubsetState
    shape = tuple(case['shape'])
    d = Data(label='t')
    cat = case.get('cat') or {}
    for ci, (name, kind, dtype, vals) in enumerate(case['cols']):
        if kind == 2:
            arr = np.array(vals, dtype=dtype).reshape(shape) if vals else np.array([], dtype=dtype).reshape(shape)
            if name in cat:
                jit, cats = cat[name]
                comp = CategoricalComponent(arr, categories=None if cats is None else np.array(cats))
                if jit:
                    # display option only: perturbs the numerical codes used to place the categories on an axis, never the labels
                    np.random.seed(zlib.crc32(name.encode()) % 100000)
                    comp.jitter(jit)
                arr = comp
        else:
            arr = np.array([np.nan if v is None else v for v in vals], dtype=dtype).reshape(shape)
        d.add_component(arr, name)
    if case.get('derived'):
        dname, src = case['derived']
        d[dname] = d.id[case['cols'][src][0]] * 2
    for lname, fn, srcs in case.get('links') or []:
        nin, f = LINK_FNS[fn]
        d.add_component_link(ComponentLink([d.id[case['cols'][i][0]] for i in srcs], ComponentID(lname), using=_flat(f)))
    dc = DataCollection([d])
    obj = d
    if case.get('mask') is not None:
        mask = np.array(case['mask'], dtype=bool).reshape(shape)
        dc.new_subset_group(label='s', subset_state=MaskSubsetState(mask, d.pixel_component_ids))
        obj = d.subsets[0]
    return d, dc, obj


def components_arg(case, d):
    """the exporters' components= argument: None, or the listed ComponentIDs (in the list's own order)"""
    if case.get('components') is None:
        return None
    return [d.id[n] for n in case['components']]


def export_kwargs(case, d):
    c = components_arg(case, d)
    return {} if c is None else {'components': c}


class Tokens(object):
    """values -> integer tokens of the model: ints as themselves, floats as eighths (NaN special), text as table index ('' = 0)"""

    def __init__(self, fmt=None):
        self.strings = {'': 0}
        self.fmt = fmt

    def tok(self, v):
        if isinstance(v, (bytes, np.bytes_)):
            v = v.decode('ascii')
        if isinstance(v, (str, np.str_)):
            v = text_as_format(self.fmt, str(v))
            if v not in self.strings:
                self.strings[v] = len(self.strings)
            return self.strings[v]
        if isinstance(v, (float, np.floating)):
            if v != v:
                return NAN_TOKEN
            t = float(v) * 8
            if t != int(t):
                raise ValueError('float %r is not a multiple of 1/8' % v)
            return int(t)
        return int(v)

    def toks(self, arr):
        return [self.tok(v) for v in np.asarray(arr).ravel().tolist()]


def ascii_replace(v):
    """what hdf5_writer does to text today: np.char.encode(values, encoding='ascii', errors='replace') - one '?' per non-ASCII code point"""
    return v.encode('ascii', 'replace').decode('ascii')


def text_as_format(fmt, v):
    """accepted per-format normalisation of a text cell: HDF5 stores ASCII with '?' replacement; CSV, VO table (and FITS table for ASCII text) keep the text as it is"""
    return ascii_replace(v) if fmt == 3 else v


def is_ascii(v):
    if isinstance(v, (bytes, np.bytes_)):
        return True
    return all(ord(ch) < 128 for ch in v)


def kind_of(arr):
    k = np.asarray(arr).dtype.kind
    return {'f': 0, 'i': 1, 'U': 2, 'S': 2}.get(k, 9)


def model_line(case, d, tk):
    cols = []
    nid = {}
    comps = list(d.main_components) + list(d.derived_components)
    # the model wants the columns in the dataset's own component order with a derived flag
    listed = None if case.get('components') is None else set(case['components'])
    for cid in d.components:
        if cid in d.coordinate_components:
            continue
        arr = d[cid]
        nid[cid.label] = len(nid)
        if listed is not None and cid.label not in listed:
            continue
        cols.append((0, [nid[cid.label], kind_of(arr), 1 if cid in d.derived_components else 0, Z(tk.toks(arr))]))
    blank = 0
    ints = [np.asarray(d[c]).dtype for c in comps if np.asarray(d[c]).dtype.kind == 'i' and (listed is None or c.label in listed)]
    if ints:
        if len(set(ints)) > 1:
            return None, nid      # the model has one BLANK parameter per case
        blank = int(np.iinfo(ints[0]).min)
    m = (0, []) if case.get('mask') is None else (1, [1 if b else 0 for b in case['mask']])
    return enc((1, [case['fmt'], len(case['shape']), m, blank, (0, cols)])), nid


def selected_text_non_ascii(case):
    """is there a non-ASCII character in a text cell that the export has to write (selected rows of text columns)?"""
    m = case.get('mask')
    listed = case.get('components')
    for name, kind, dtype, vals in case['cols']:
        if kind == 2 and (listed is None or name in listed):
            for i, v in enumerate(vals):
                if (m is None or m[i]) and not is_ascii(v):
                    return True
    return False


def blank_ok(case):
    """the model has one BLANK parameter per case: integer columns of a case share one dtype"""
    dts = set(dt for _, k, dt, _ in case['cols'] if k == 1)
    return len(dts) <= 1


# ---------------------------------------------------------------------- what the exporter wrote
def written(case, path, obj, tk, nid, kw=None, tk2=None, res2=None):
    """-> list of (name id, kind, tokens) in file order (dict order for HDF5 has no meaning: sorted by model order later), blanks.
    With tk2 / res2: also the same arrays for the comparison with the TRANSLATED exporters: (name id, dtype kind code, ndim, raw tokens,
    BLANK value of an integer HDU or None) appended to res2"""
    fmt = case['fmt']

    def second(name, arr, blank=None):
        if tk2 is not None:
            a = np.asarray(arr)
            res2.append((nid.get(name, -1), DKIND.get(a.dtype.kind, 99), a.ndim, tk2.toks(a), blank))

    if fmt in (0, 1, 2):
        from glue.core.data_exporters.astropy_table import data_to_astropy_table
        t = data_to_astropy_table(obj, **(kw or {}))
        for n in t.colnames:
            second(n, t[n])
        return [(nid.get(n, -1), kind_of(t[n]), tk.toks(t[n])) for n in t.colnames], None, True
    if fmt == 3:
        import h5py
        out = {}
        with h5py.File(path, 'r') as f:
            for n in f.keys():
                arr = f[n][()]
                out[n] = (nid.get(n, -1), kind_of(arr), tk.toks(arr))
                second(n, arr)
        return out, None, False
    from astropy.io import fits
    res, blanks = [], []
    with fits.open(path, do_not_scale_image_data=True) as hl:
        for h in hl:
            if h.data is None:
                continue
            arr = np.asarray(h.data)
            arr = arr.astype(arr.dtype.newbyteorder('='))
            res.append((nid.get(h.name.lower(), -1), kind_of(arr), tk.toks(arr)))
            blanks.append(1 if (arr.dtype.kind == 'i' and 'BLANK' in h.header) else 0)
            second(h.name.lower(), arr, int(h.header['BLANK']) if (arr.dtype.kind == 'i' and 'BLANK' in h.header) else None)
    return res, blanks, True


DKIND = {'f': 0, 'i': 1, 'U': 2, 'S': 3, 'u': 4, 'b': 5, 'O': 6, 'M': 7, 'm': 8, 'c': 9, 'V': 10}     # as tools/gen/gen_exporters.py
GKIND = {'numerical': 0, 'categorical': 1, 'datetime': 2, 'extended': 3}


def model_line2(case, d, tk2, nid):
    """the case for the TRANSLATED exporters (run_case tag 2): the dataset as component records - glue kind, dtype kind, iinfo.min,
    derived flag, link function code and SOURCE columns (raw tokens; the model applies the link function itself) - the subset mask,
    the components= filter, and the table of np.char.encode(.., 'ascii', 'replace') on the text cells"""
    src_of = {}
    if case.get('derived'):
        src_of[case['derived'][0]] = (1, [case['derived'][1]])
    for lname, fn, srcs in case.get('links') or []:
        src_of[lname] = (LINK_CODE[fn], list(srcs))
    names = [c[0] for c in case['cols']]
    cols = []
    for cid in d.components:
        if cid in d.coordinate_components:
            continue
        arr = np.asarray(d[cid])
        k = arr.dtype.kind
        imin = int(np.iinfo(arr.dtype).min) if k == 'i' else 0
        if cid.label in src_of:
            code, srcs = src_of[cid.label]
            src_toks = [tk2.toks(np.asarray(d[d.id[names[i]]])) for i in srcs]
            derived = 1
        else:
            code, src_toks, derived = 0, [tk2.toks(arr)], 0
        if (1 if cid in d.derived_components else 0) != derived:
            raise ValueError('harness: component %s derived flag' % cid.label)
        cols.append((0, [nid[cid.label], GKIND[d.get_kind(cid)], DKIND.get(k, 99), imin, derived, code, (0, [Z(t) for t in src_toks])]))
    table = []
    for sv in list(tk2.strings):
        table.append((0, [tk2.tok(sv), tk2.tok(ascii_replace(sv))]))
    m = (0, []) if case.get('mask') is None else (1, [1 if b else 0 for b in case['mask']])
    comps = (0, []) if case.get('components') is None else (1, [nid[n] for n in case['components']])
    return enc((2, [case['fmt'], len(case['shape']), m, comps, (0, cols), (0, table), 1]))


def compare_gen(case, res, out):
    """output of the translated exporter (generated Gallina, tag 2) vs what the live exporter wrote"""
    if res.get('written2') is None or res.get('line2') is None:
        return None
    if out[0] == -1:
        return {'generated_model': 'error %r' % (out,), 'impl': res['written2']}
    fmt = case['fmt']
    mt = []
    for c in kids(out):
        k = kids(c)
        blank = None if k[4][0] == 0 else kids(k[4])[0][0]
        mt.append((k[0][0], k[1][0], k[2][0], to_zs(k[3]), blank if (fmt == 4 and k[1][0] == 1) else None))
    got = [(a, b, c, list(dd), e) for a, b, c, dd, e in res['written2']]
    if fmt == 3:
        mt, got = sorted(mt), sorted(got)
    if got != mt:
        return {'generated_model': mt, 'impl': got}
    return None


# ---------------------------------------------------------------------- expectation, straight from the original arrays
def expected(case, d):
    """list of (name, kind, array) the loaded file must show; mode 'rows' or 'pixels'"""
    fmt = case['fmt']
    ndim = len(case['shape'])
    mask = None if case.get('mask') is None else np.array(case['mask'], dtype=bool).reshape(tuple(case['shape']))
    rows = fmt < 3 or (fmt == 3 and ndim == 1)
    out = []
    listed = None if case.get('components') is None else set(case['components'])
    for cid in list(d.main_components) + list(d.derived_components):
        if listed is not None and cid.label not in listed:
            continue
        arr = np.array(d[cid])            # the ORIGINAL full column, as the dataset itself reports it (a copy, taken BEFORE the export)
        if fmt == 4 and arr.dtype.kind not in 'fi':
            continue
        out.append((cid.label, arr))
    return out, mask, rows


def same_values(kind, got, want, mask, rows, fmt):
    """dtype-appropriate comparison; returns None or a description"""
    got = np.asarray(got)
    if got.dtype.kind == 'S':
        got = np.char.decode(got, 'ascii')
    if want.dtype.kind == 'S':          # second stage of a chain: the dataset loaded from HDF5 holds ASCII bytes
        want = np.char.decode(want, 'ascii')
    if want.dtype.kind == 'U' and fmt == 3:
        # text preserved up to the format's encoding: the HDF5 exporter writes ASCII, '?' for every other character;
        # the column itself must come back, in place, with every row
        want = np.array([ascii_replace(str(v)) for v in want.ravel().tolist()], dtype=want.dtype).reshape(want.shape)
    if rows:
        w = want if mask is None else want[mask]
        if got.shape != w.shape:
            return 'shape %r, expected %r' % (got.shape, w.shape)
        return cmp_arrays(got, w)
    if got.shape != want.shape:
        return 'shape %r, expected %r' % (got.shape, want.shape)
    if mask is None:
        return cmp_arrays(got, want)
    r = cmp_arrays(got[mask], want[mask])
    if r:
        return 'selected pixels: ' + r
    rest = got[~mask]
    if rest.size:
        if rest.dtype.kind == 'f':
            ok = bool(np.all(np.isnan(rest))) or (want.dtype.kind == 'i' and bool(np.all((rest == 0) | np.isnan(rest))))
        elif rest.dtype.kind in 'iu':
            ok = bool(np.all(rest == 0))
        else:
            ok = all(str(x) == '' for x in rest.ravel().tolist())
        if not ok:
            return 'masked-out pixels are not blank: %r' % rest.ravel().tolist()[:6]
    return None


def cmp_arrays(got, want):
    if got.size == 0 and want.size == 0:
        return None
    if want.dtype.kind == 'f' or got.dtype.kind == 'f':
        if got.dtype.kind not in 'fiu' or want.dtype.kind not in 'fiu':
            return 'kinds differ: %s vs %s' % (got.dtype, want.dtype)
        g = got.astype(float)
        w = want.astype(float)
        ok = bool(np.all((g == w) | (np.isnan(g) & np.isnan(w))))
        return None if ok else 'values %r, expected %r' % (g.ravel().tolist()[:8], w.ravel().tolist()[:8])
    if want.dtype.kind in 'iu':
        if got.dtype.kind not in 'iu':
            return 'kinds differ: %s vs %s' % (got.dtype, want.dtype)
        return None if bool(np.all(got.astype(np.int64) == want.astype(np.int64))) else 'values %r, expected %r' % (got.ravel().tolist()[:8], want.ravel().tolist()[:8])
    g = [str(x) for x in got.ravel().tolist()]
    w = [str(x) for x in want.ravel().tolist()]
    return None if g == w else 'text %r, expected %r' % (g[:8], w[:8])


def loaded_columns(back):
    """flatten what a factory returned into [(name, array)] in order"""
    from glue.core import BaseData
    if back is None:
        return []
    if isinstance(back, BaseData):
        back = [back]
    out = []
    for b in back:
        for cid in b.main_components:
            out.append((cid.label, np.asarray(b[cid])))
    return out


def specific_factory(fmt):
    if fmt == 0:
        from glue.core.data_factories.pandas import pandas_read_table
        return pandas_read_table
    if fmt == 1:
        from glue.core.data_factories.astropy_table import astropy_tabular_data_fits
        return astropy_tabular_data_fits
    if fmt == 2:
        from glue.core.data_factories.astropy_table import astropy_tabular_data_votable
        return astropy_tabular_data_votable
    if fmt == 3:
        from glue.core.data_factories.hdf5 import hdf5_reader
        return hdf5_reader
    from glue.core.data_factories.fits import fits_reader
    return fits_reader


def pandas_na_class(got, want, mask, rows, fmt):
    """known finding csv-pandas-reader-takes-text-for-missing: the ONLY difference is that text cells spelled like one of pandas'
    default missing-value markers came back as missing ('nan' in a text column; an all-NaN float column when every selected cell is
    such a marker)"""
    if fmt != 0 or want.dtype.kind not in 'US' or not rows:
        return False
    w = want if mask is None else want[mask]
    cells = [v.decode('ascii') if isinstance(v, bytes) else str(v) for v in w.ravel().tolist()]
    if not any(c in PANDAS_NA for c in cells):
        return False
    got = np.asarray(got)
    if got.shape != w.shape:
        return False
    if got.dtype.kind == 'f':
        return all(c in PANDAS_NA for c in cells) and bool(np.all(np.isnan(got)))
    w2 = np.array(['nan' if c in PANDAS_NA else c for c in cells], dtype=object).reshape(w.shape)
    g2 = np.array([v.decode('ascii') if isinstance(v, bytes) else str(v) for v in got.ravel().tolist()], dtype=object).reshape(got.shape)
    return bool(np.all(g2 == w2))


def judge(case, cols, exp, mask, rows, which=None):
    """compare loaded columns with the expectation -> (problem or None, finding key or None)"""
    fmt = case['fmt']
    ci = fmt == 4
    names_got = [n.lower() if ci else n for n, _ in cols]
    names_want = [n.lower() if ci else n for n, _ in exp]
    if names_got != names_want:
        if sorted(names_got) == sorted(names_want) and fmt == 3 and names_got == sorted(names_want):
            # HDF5 files come back in name order: known finding, but the values must still be right
            bymap = dict((n.lower() if ci else n, a) for n, a in cols)
            for n, want in [(a.lower() if ci else a, b) for a, b in exp]:
                r = same_values(None, bymap[n], want, mask, rows, fmt)
                if r:
                    return 'component %s: %s' % (n, r), None
            return 'components come back in name order %r, exported in order %r' % (names_got, names_want), 'hdf5-components-return-in-name-order'
        return 'component names %r, expected %r' % (names_got, names_want), None
    for (n, got), (_, want) in zip(cols, exp):
        r = same_values(None, got, want, mask, rows, fmt)
        if r:
            if (fmt == 0 and len(exp) == 1 and want.dtype.kind in 'US' and r.startswith('text')
                    and any(' ' in (v.decode('ascii') if isinstance(v, bytes) else str(v)) for v in (want if mask is None else want[mask]).ravel().tolist())):
                return 'component %s: %s' % (n, r), 'csv-single-text-column-with-blank-is-split'
            if which == 'specific' and pandas_na_class(got, want, mask, rows, fmt):
                # every other column must still be right
                for (n2, got2), (_, want2) in zip(cols, exp):
                    r2 = same_values(None, got2, want2, mask, rows, fmt)
                    if r2 and not pandas_na_class(got2, want2, mask, rows, fmt):
                        return 'component %s: %s' % (n2, r2), None
                return 'component %s: %s' % (n, r), 'csv-pandas-reader-takes-text-for-missing'
            return 'component %s: %s' % (n, r), None
    return None, None


# ---------------------------------------------------------------------- one case
def run_case_impl(R, case, idx, session=False, again=True):
    """returns dict(model_line, written, oracle problems [(text, key)], nid) ; raises nothing"""
    res = {'problems': [], 'line': None, 'written': None, 'line2': None, 'written2': None}
    tk = Tokens(case['fmt'])
    tk2 = Tokens(None)
    try:
        d, dc, obj = make_data(case)
    except Exception as e:
        res['problems'].append(('harness could not build the dataset: %s: %s' % (type(e).__name__, e), None))
        return res
    fmt = case['fmt']
    path = os.path.join(R.scratch, 'c%d_%s.%s' % (idx, FMT_NAME[fmt], FMT_EXT[fmt]))
    line, nid = model_line(case, d, tk)
    res['line'] = line
    try:
        res['line2'] = model_line2(case, d, tk2, nid)
    except ValueError as e:
        if 'multiple of 1/8' not in str(e):
            raise
    res['nid'] = nid
    exp, mask, rows = expected(case, d)
    try:
        kw = export_kwargs(case, d)
        exporters()[FMT_LABEL[fmt]](path, obj, **kw)
    except Exception as e:
        key = None
        if fmt == 1 and isinstance(e, UnicodeEncodeError) and selected_text_non_ascii(case):
            key = 'fits-table-non-ascii-text-export-raises'
        res['problems'].append(('exporter raised %s: %s' % (type(e).__name__, e), key))
        return res
    try:
        w2 = []
        res['written'] = written(case, path, obj, tk, nid, kw, tk2, w2)
        res['written2'] = w2
    except Exception as e:
        res['problems'].append(('could not inspect the written file: %s: %s' % (type(e).__name__, e), None))
    nsel = None if mask is None else int(mask.sum())
    from glue.core.data_factories import load_data
    auto_cols = None
    for which in ('specific', 'auto'):
        try:
            back = specific_factory(fmt)(path) if which == 'specific' else load_data(path)
            cols = loaded_columns(back)
        except Exception as e:
            msg = '%s loader raised %s: %s' % (which, type(e).__name__, str(e)[:200])
            if fmt == 0 and nsel == 0 and rows and which == 'specific':
                # pandas_read_table refuses a header-only CSV; load_data falls back to the astropy reader (checked next)
                continue
            res['problems'].append((msg, None))
            continue
        if which == 'auto':
            auto_cols = cols
            from glue.core import BaseData as _BD
            first = back if isinstance(back, _BD) else (back[0] if back else None)
            if first is not None:
                res['first_dataset'] = [(cid.label, np.asarray(first[cid])) for cid in first.main_components]
        if which == 'auto' and fmt == 1 and rows and nsel == 0 and cols == [] and exp:
            res['problems'].append(('load_data returns no dataset for a FITS table with zero selected rows (the FITS-table factory returns the empty table)',
                                    'fits-table-zero-rows-autoload-returns-nothing'))
            continue
        pr, key = judge(case, cols, exp, mask, rows, which=which)
        if pr:
            res['problems'].append(('%s loader: %s' % (which, pr), key))
    if mask is not None and not rows and again:
        # exporting a subset must leave the dataset as it was: the WHOLE dataset exported afterwards still loads back to the original values
        path2 = os.path.join(R.scratch, 'c%d_whole_%s.%s' % (idx, FMT_NAME[fmt], FMT_EXT[fmt]))
        try:
            exporters()[FMT_LABEL[fmt]](path2, d, **kw)
            pr, key = judge(case, loaded_columns(specific_factory(fmt)(path2)), exp, None, rows)
        except Exception as e:
            pr, key = 'raised %s: %s' % (type(e).__name__, str(e)[:200]), None
        if pr:
            res['problems'].append(('the whole dataset exported after the subset export: ' + pr, key))
        try:
            os.remove(path2)
        except OSError:
            pass
    if session and auto_cols:
        try:
            pr = session_by_reference(R, path, idx)
        except Exception as e:
            pr = 'session by reference raised %s: %s' % (type(e).__name__, str(e)[:300])
        if pr:
            res['problems'].append((pr, None))
    res['session'] = bool(session and auto_cols)
    try:
        os.remove(path)
    except OSError:
        pass
    return res


def session_by_reference(R, path, idx):
    """load the exported file, save the session without the data (by reference to the file), restore, compare"""
    from glue.core import DataCollection, BaseData
    from glue.core.application_base import Application
    from glue.core.data_factories import load_data
    back = load_data(path)
    if isinstance(back, BaseData):
        back = [back]
    app = Application(DataCollection(list(back)))
    spath = os.path.join(R.scratch, 's%d.glu' % idx)
    app.save_session(spath, include_data=False)
    txt = open(spath).read()
    app2 = Application.restore_session(spath)
    os.remove(spath)
    dc2 = app2.data_collection
    if len(dc2) != len(back):
        return 'session by reference: %d datasets restored, %d saved' % (len(dc2), len(back))
    for a, b in zip(back, dc2):
        na = [c.label for c in a.main_components]
        nb = [c.label for c in b.main_components]
        if na != nb:
            return 'session by reference: components %r restored as %r' % (na, nb)
        for ca, cb in zip(a.main_components, b.main_components):
            r = cmp_arrays(np.asarray(b[cb]) if np.asarray(b[cb]).dtype.kind != 'S' else np.char.decode(np.asarray(b[cb]), 'ascii'),
                           np.asarray(a[ca]) if np.asarray(a[ca]).dtype.kind != 'S' else np.char.decode(np.asarray(a[ca]), 'ascii'))
            if r:
                return 'session by reference: component %s: %s' % (ca.label, r)
    if os.path.basename(path) not in txt:
        return 'session saved with include_data=False does not refer to the data file'
    return None


def compare_model(case, res, out):
    """model's exported table vs what the exporter wrote"""
    if res.get('written') is None or res.get('line') is None:
        return None
    w, blanks, ordered = res['written']
    mt = [(kids(c)[0][0], kids(c)[1][0], to_zs(kids(c)[2])) for c in kids(kids(out)[0])]
    mb = to_zs(kids(out)[1])
    if ordered:
        got = [(a, b, list(c)) for a, b, c in w]
        if got != [(a, b, list(c)) for a, b, c in mt]:
            return {'model': mt, 'impl': got}
        if blanks is not None and blanks != mb:
            return {'model_blank': mb, 'impl_blank': blanks}
    else:
        got = sorted((a, b, list(c)) for a, b, c in w.values())
        if got != sorted((a, b, list(c)) for a, b, c in mt):
            return {'model': sorted(mt), 'impl': got}
    return None


# ---------------------------------------------------------------------- generators
NON_ASCII = ['\u00e9', '\u00fc', '\u00f1', '\u00df', '\u00d8',              # Latin-1 letters
             '\u03b1\u03b2', '\u03a9', '\u03bb',                                # Greek
             '\u6f22\u5b57', '\u65e5',                                           # CJK
             '\U0001f600', '\U0001f680',                                          # emoji (outside the BMP)
             'e\u0301', 'n\u0303']                                                # combining marks


MARKER_TEXT = ['NA', 'N/A', 'null', '--', 'NULL', 'n/a', 'None', 'none', 'missing', '-', '...', 'x--', 'NAM', '<NA>']   # (no cell starting with '#': ASCII readers take such a line for a comment - not explored)
# what pandas.read_csv takes for a missing value by default (pandas 2/3 `STR_NA_VALUES`); glue's pandas_read_table does not switch it off
PANDAS_NA = {'', '#N/A', '#N/A N/A', '#NA', '-1.#IND', '-1.#QNAN', '-NaN', '-nan', '1.#IND', '1.#QNAN', '<NA>', 'N/A', 'NA', 'NULL',
             'NaN', 'None', 'n/a', 'nan', 'null'}


def rand_text(rng, allow_empty=False, unicode=False):
    n = rng.randrange(2, 5)
    s = ''.join(rng.choice(LETTERS) for _ in range(n))
    if rng.random() < 0.25:
        s = s[:1] + ' ' + s[1:]
    if rng.random() < 0.3:
        s = s.capitalize()
    if unicode and rng.random() < 0.5:
        # non-ASCII characters mixed into otherwise ASCII text (never first/last blank, still clearly non-numeric)
        for _ in range(rng.randrange(1, 3)):
            k = rng.randrange(0, len(s) + 1)
            s = s[:k] + rng.choice(NON_ASCII) + s[k:]
    return s


def rand_col(rng, name, n, fmt, int_dtype):
    kind = rng.choice([0, 0, 1, 1, 2])
    if kind == 0:
        dt = rng.choice(['float64', 'float64', 'float32', '>f8', '>f4'])       # incl. non-native byte order (what FITS-loaded data holds)
        vals = [None if rng.random() < 0.2 else rng.randrange(-512, 513) / 8.0 for _ in range(n)]
        return (name, 0, dt, vals)
    if kind == 1:
        lo, hi = (-300, 300) if int_dtype in ('int16', '>i2') else (-100000, 100000)
        vals = [rng.choice([0, 0, 1, -1, rng.randrange(lo, hi)]) for _ in range(n)]
        return (name, 1, int_dtype, vals)
    uni = rng.random() < 0.4        # a column with non-ASCII cells next to plain ASCII ones
    vals = [rand_text(rng, unicode=uni) for _ in range(n)]
    if rng.random() < 0.35:
        # text cells that readers like to take for "missing value" markers (round 5, seeded change C19-9): they are ordinary
        # text and have to come back as they are; always next to ordinary words so that the column stays a text column
        for j in range(n):
            if rng.random() < 0.5:
                vals[j] = rng.choice(MARKER_TEXT)
    return (name, 2, 'U%d' % max(1, max(len(v) for v in vals) if vals else 1), vals)


def rand_case(rng, fmt=None):
    fmt = rng.randrange(5) if fmt is None else fmt
    r = rng.random()
    if fmt < 3 and (r < 0.25 or rng.random() < 0.6):
        # a whole n-d dataset has no meaning as a table (astropy makes vector columns of it): table formats get n-d data
        # only together with a subset - "the selected pixels", one row each, in C order
        shape = (rng.randrange(1, 7),)
    else:
        shape = rng.choice([(rng.randrange(1, 7),), (2, 3), (3, 2), (2, 2, 2), (1, 4)])
    n = int(np.prod(shape))
    k = rng.randrange(1, 5)
    names = rng.sample(NAMES, k + 3)
    int_dtype = rng.choice(['int64', 'int64', 'int32', 'int16', '>i4', '>i2', '>i8'])
    cols = [rand_col(rng, names[i], n, fmt, int_dtype) for i in range(k)]
    if fmt == 4 and all(c[1] == 2 for c in cols):
        cols[0] = (cols[0][0], 0, 'float64', [rng.randrange(-64, 64) / 8.0 for _ in range(n)])
    derived = None
    nums = [i for i, c in enumerate(cols) if c[1] in (0, 1)]
    if nums and rng.random() < 0.5:
        derived = (names[k], rng.choice(nums))
    if r < 0.25:
        mask = None
    elif r < 0.4:
        mask = [False] * n
    elif r < 0.55:
        mask = [True] * n
    else:
        mask = [rng.random() < 0.5 for _ in range(n)]
    # display options, link functions and the components= filter draw from their own stream
    rng2 = __import__('random').Random(rng.getrandbits(64))
    links = []
    if nums and rng2.random() < 0.55:
        for j in range(rng2.choice([1, 1, 2])):
            fn = rng2.choice(['cumsum', 'demean', 'rank', 'reversed', 'shifted', 'cumsum', 'demean', 'double', 'add2', 'addrev'])
            if LINK_FNS[fn][0] == 2:
                a = rng2.choice(nums)
                same = [i for i in nums if cols[i][1] == cols[a][1]]          # both float or both integer
                srcs = [a, rng2.choice(same)]
            else:
                srcs = [rng2.choice(nums)]
            links.append((names[k + 1 + j], fn, srcs))
    cat = {}
    for name, kind, dtype, vals in cols:
        if kind == 2 and rng2.random() < 0.6:
            jit = 'uniform' if rng2.random() < 0.6 else None
            cats = None
            if len(shape) == 1 and vals and rng2.random() < 0.5:
                # explicit category order (not sorted) with unused categories
                cats = sorted(set(vals))
                rng2.shuffle(cats)
                for _ in range(rng2.randrange(0, 3)):
                    cats.insert(rng2.randrange(0, len(cats) + 1), 'un' + rng2.choice(LETTERS) + rng2.choice(LETTERS))
            cat[name] = [jit, cats]
    components = None
    if rng2.random() < 0.3:
        allnames = [c[0] for c in cols] + ([derived[0]] if derived else []) + [l[0] for l in links]
        pickn = rng2.randrange(1, len(allnames) + 1)
        components = rng2.sample(allnames, pickn)
        if fmt == 4:
            numeric = [c[0] for c in cols if c[1] != 2] + ([derived[0]] if derived else []) + [l[0] for l in links]
            if not any(x in numeric for x in components):
                components.append(rng2.choice(numeric))
    return {'fmt': fmt, 'shape': list(shape), 'cols': cols, 'derived': derived, 'mask': mask, 'links': links, 'cat': cat, 'components': components}


def second_stage_case(first_dataset, fmt, rng):
    """chain of formats: the dataset LOADED from the first file (already compared with the original) becomes the dataset of a
    second export with another format; returns a case or None when the loaded dataset is outside the second format's domain"""
    cols = []
    shape = None
    for name, arr in first_dataset:
        k = kind_of(arr)
        if k == 9 or arr.size == 0:
            return None
        if shape is None:
            shape = arr.shape
        elif arr.shape != shape:
            return None
        cols.append((name, k, arr.dtype.str, arr.ravel().tolist()))
    if not cols or shape is None or len(shape) == 0:
        return None
    if fmt == 4 and all(c[1] == 2 for c in cols):
        return None
    n = int(np.prod(shape))
    r = rng.random()
    if r < 0.3 and not (fmt < 3 and len(shape) > 1):
        mask = None
    elif r < 0.4:
        mask = [True] * n
    else:
        mask = [rng.random() < 0.6 for _ in range(n)]
    return {'fmt': fmt, 'shape': list(shape), 'cols': cols, 'derived': None, 'mask': mask}


def run_chain(R, first, fmt2, idx, sub):
    """stage 1: export `first` (a whole dataset) and load it; stage 2: export the loaded dataset (or a subset of it) with fmt2, load,
    compare with the loaded dataset.  Returns (res1, case2 or None, res2 or None)"""
    res1 = run_case_impl(R, first, idx)
    fd = res1.get('first_dataset')
    if fd is None or any(k is None for _, k in res1['problems']):
        return res1, None, None
    case2 = second_stage_case(fd, fmt2, sub)
    if case2 is None or not blank_ok(case2):
        return res1, None, None
    return res1, case2, run_case_impl(R, case2, idx + 1)


def case_key(case):
    return (case['fmt'], tuple(case['shape']), tuple((c[0], c[1], c[2], tuple(c[3])) for c in case['cols']),
            tuple(case['derived']) if case['derived'] else None, None if case['mask'] is None else tuple(case['mask']),
            tuple((l[0], l[1], tuple(l[2])) for l in case.get('links') or []),
            tuple(sorted((k, v[0], None if v[1] is None else tuple(v[1])) for k, v in (case.get('cat') or {}).items())),
            None if case.get('components') is None else tuple(case['components']))


def selection_kind(case):
    m = case['mask']
    if m is None:
        return 'whole dataset'
    if not any(m):
        return 'empty subset'
    if all(m):
        return 'full subset'
    return 'proper subset'


LINKSETS = [[('kq', 'cumsum', [0]), ('y9', 'demean', [1])],
            [('kq', 'rank', [0]), ('y9', 'shifted', [1]), ('x', 'addrev', [1, 1])],
            [('kq', 'reversed', [0]), ('y9', 'cumsum', [1]), ('x', 'add2', [0, 0])]]


def exhaustive_cases(R):
    """every mask over 3 (quick) / 4 (thorough) elements x 5 formats on a fixed float/int/text table with a derived column, 1-d and 2-d;
    and every order of the three columns"""
    n = R.pick(3, 4)
    base = [('zeta', 0, 'float64', [1.5, None, -2.25, 8.0][:n]), ('alpha', 1, 'int32', [3, 0, -7, 12][:n]), ('m1', 2, 'U3', ['bq', 'K d', 'xz', 'pp'][:n])]
    out = []
    # the same table with non-ASCII text (Latin-1 + blank, CJK, emoji, one plain ASCII cell), and that text as the only column
    utext = ('m1', 2, 'U4', ['bq', 'K\u00e4 d', '\u6f22z', 'x\U0001f600'][:n])
    ubase = [base[0], base[1], utext]
    for fmt in range(5):
        shapes = [(n,), (1, n), (n, 1)] + ([(2, 2)] if n == 4 else [])
        for shape in shapes:
            for bits in itertools.product([False, True], repeat=n):
                out.append({'fmt': fmt, 'shape': list(shape), 'cols': list(base), 'derived': ('b_2', 0), 'mask': list(bits)})
                out.append({'fmt': fmt, 'shape': list(shape), 'cols': list(ubase), 'derived': ('b_2', 0), 'mask': list(bits)})
                if fmt != 4:
                    out.append({'fmt': fmt, 'shape': list(shape), 'cols': [utext], 'derived': None, 'mask': list(bits)})
            # derived components made with ComponentLink(using=...): whole-column functions (running total, n x deviation from the
            # mean, rank, reversed, shifted) next to element-wise ones; the text column with jitter on and an explicit category order
            # with unused categories (1-d); every mask, whole dataset, and two components= filters
            if shape in ((n,), (1, n)):
                cat = {'m1': ['uniform', ['xz', 'un1', 'bq', 'pp', 'K d', 'un2'] if len(shape) == 1 else None]}
                for li, links in enumerate(LINKSETS):
                    for bits in list(itertools.product([False, True], repeat=n)) + [None]:
                        if bits is None and fmt < 3 and len(shape) > 1:
                            continue
                        if li > 0 and bits is not None and (not any(bits) or all(bits)):
                            continue
                        out.append({'fmt': fmt, 'shape': list(shape), 'cols': list(base), 'derived': ('b_2', 0), 'mask': None if bits is None else list(bits),
                                    'links': list(links), 'cat': cat, 'components': None})
                bits = [True, False, True, True][:n]
                out.append({'fmt': fmt, 'shape': list(shape), 'cols': list(base), 'derived': ('b_2', 0), 'mask': bits,
                            'links': list(LINKSETS[0]), 'cat': cat, 'components': ['kq', 'm1', 'zeta'] if fmt != 4 else ['kq', 'zeta']})
                out.append({'fmt': fmt, 'shape': list(shape), 'cols': list(base), 'derived': ('b_2', 0), 'mask': bits,
                            'links': list(LINKSETS[1]), 'cat': cat, 'components': ['b_2', 'alpha', 'y9']})
            if fmt < 3 and len(shape) > 1:
                continue      # whole n-d datasets are not tables
            out.append({'fmt': fmt, 'shape': list(shape), 'cols': list(base), 'derived': ('b_2', 1), 'mask': None})
            out.append({'fmt': fmt, 'shape': list(shape), 'cols': list(ubase), 'derived': ('b_2', 1), 'mask': None})
            if fmt != 4:
                out.append({'fmt': fmt, 'shape': list(shape), 'cols': [utext], 'derived': None, 'mask': None})
        for perm in itertools.permutations(range(3)):
            out.append({'fmt': fmt, 'shape': [n], 'cols': [base[i] for i in perm], 'derived': None, 'mask': [True, False, True, True][:n]})
    return out


def shrink_case(R, case, pred):
    """smaller case with the same failure: drop columns, the derived column, trailing elements (1-d only)"""
    cur = case
    changed = True
    while changed:
        changed = False
        cands = []
        links = list(cur.get('links') or [])
        comps = cur.get('components')
        if comps is not None:
            c = dict(cur)
            c['components'] = None
            cands.append(c)
        if cur['derived']:
            c = dict(cur)
            c['derived'] = None
            if comps is not None:
                c['components'] = [x for x in comps if x != cur['derived'][0]]
            cands.append(c)
        for li in range(len(links)):
            c = dict(cur)
            c['links'] = links[:li] + links[li + 1:]
            if comps is not None:
                c['components'] = [x for x in comps if x != links[li][0]]
            cands.append(c)
        for name in sorted(cur.get('cat') or {}):
            c = dict(cur)
            c['cat'] = dict((k, v) for k, v in cur['cat'].items() if k != name)
            cands.append(c)
            if cur['cat'][name][1] is not None:
                c = dict(cur)
                c['cat'] = dict(cur['cat'])
                c['cat'][name] = [cur['cat'][name][0], None]
                cands.append(c)
        for i in range(len(cur['cols'])):
            used = (cur['derived'] and cur['derived'][1] == i) or any(i in l[2] for l in links)
            if len(cur['cols']) > 1 and not used:
                c = dict(cur)
                c['cols'] = cur['cols'][:i] + cur['cols'][i + 1:]
                if cur['derived']:
                    j = cur['derived'][1]
                    c['derived'] = (cur['derived'][0], j - 1 if j > i else j)
                c['links'] = [(l[0], l[1], [j - 1 if j > i else j for j in l[2]]) for l in links]
                c['cat'] = dict((k, v) for k, v in (cur.get('cat') or {}).items() if k != cur['cols'][i][0])
                if comps is not None:
                    c['components'] = [x for x in comps if x != cur['cols'][i][0]]
                cands.append(c)
        if len(cur['shape']) == 1 and cur['shape'][0] > 1:
            n = cur['shape'][0] - 1
            c = dict(cur)
            c['shape'] = [n]
            c['cols'] = [(a, b, dt, v[:n]) for a, b, dt, v in cur['cols']]
            c['mask'] = None if cur['mask'] is None else cur['mask'][:n]
            if cur.get('cat'):
                keep = dict((a, set(v[:n])) for a, b, dt, v in cur['cols'])
                c['cat'] = dict((k, [v[0], None if v[1] is None else [x for x in v[1] if x in keep[k] or x.startswith('un')]]) for k, v in cur['cat'].items())
            cands.append(c)
        for c in cands:
            if c.get('components') is not None and not c['components']:
                continue
            if c['fmt'] == 4:
                numeric = [x[0] for x in c['cols'] if x[1] != 2] + ([c['derived'][0]] if c['derived'] else []) + [l[0] for l in c.get('links') or []]
                if c.get('components') is not None and not any(x in numeric for x in c['components']):
                    continue
            if c['fmt'] == 4 and all(x[1] == 2 for x in c['cols']):
                continue
            try:
                if pred(c):
                    cur = c
                    changed = True
                    break
            except Exception:
                continue
    return cur


def evaluate(R, case, idx, session=False):
    res = run_case_impl(R, case, idx, session=session)
    corr = None
    if res.get('line') is not None:
        out = R.model([res['line']])[0]
        corr = compare_model(case, res, out)
    if corr is None and res.get('line2') is not None and getattr(R, 'translation_ok', True):
        out = R.model([res['line2']])[0]
        corr = compare_gen(case, res, out)
    return res, corr


def run(R):
    import warnings
    warnings.filterwarnings('ignore')
    R.rule = ('one case = (format, shape, ordered columns with dtype and values, derived columns (2x and ComponentLink(using=) with element-wise / whole-column functions), categorical display options, components= filter, optional mask); exhaustive stream: every mask over a fixed '
              'float/int/text table per format and shape plus every column order; random stream: 1-4 columns of random kinds/dtypes/values, random names in '
              'non-alphabetical order, whole / empty / full / proper selections. A case is non-trivial when something is selected and written '
              '(at least one exported component and, for subsets, at least one selected element); distinct = distinct canonical case tuples')
    t0 = time.time()
    cases = [(c, 'exhaustive') for c in exhaustive_cases(R)]
    nexh = len(cases)
    nrand = R.pick(2000, 16000)
    for i in range(nrand):
        rng = R.subrng('case', i)
        c = rand_case(rng, fmt=i % 5)
        if not blank_ok(c):
            continue
        cases.append((c, 'random'))
    batch = []
    chains = {}
    nsess = 0
    for idx, (case, stream) in enumerate(cases):
        session = (idx % 6 == 0)
        res = run_case_impl(R, case, idx, session=session, again=(idx % 2 == 0))
        nsess += 1 if res.get('session') else 0
        batch.append((case, stream, res, idx))
        nontriv = (case['mask'] is None or any(case['mask']))
        R.count(case_key(case), nontrivial=nontriv, stream=stream, format=FMT_NAME[case['fmt']], selection=selection_kind(case),
                ndim=len(case['shape']), columns=len(case['cols']) + (1 if case['derived'] else 0) + len(case.get('links') or []),
                link_functions=','.join(sorted(set(l[1] for l in case.get('links') or []))) or 'none',
                categorical_options=('none' if not case.get('cat') else '+'.join(sorted(set(('jitter' if v[0] else 'plain') + ('/explicit categories' if v[1] is not None else '') for v in case['cat'].values())))),
                components_filter='yes' if case.get('components') is not None else 'no')
        if stream == 'random' and len(R.samples) < 4:
            R.sample({'case': case})
    # chains of formats: export with one format, load, export the loaded dataset (or a subset) with another, load
    nchain = 0
    for i in range(R.pick(260, 2500)):
        rng = R.subrng('chain', i)
        f1 = [1, 4, 3, 2, 0][i % 5]          # FITS table / gridded FITS first: what they load holds big-endian arrays
        first = rand_case(rng, fmt=f1)
        first['mask'] = None
        first['derived'] = None
        first['links'] = []
        first['components'] = None
        if f1 < 3:
            n1 = rng.randrange(1, 7)
            first['shape'] = [n1]
            first['cols'] = [(a, b, dt, (v * 6)[:n1] if len(v) < n1 else v[:n1]) for a, b, dt, v in first['cols']]
        if f1 == 4:
            first['cols'] = [c for c in first['cols'] if c[1] != 2][:1] or first['cols'][:1]
        if not blank_ok(first) or (f1 == 1 and selected_text_non_ascii(first)):
            continue
        f2 = rng.choice([f for f in range(5) if f != f1])
        res1, case2, res2 = run_chain(R, first, f2, 500000 + 2 * i, rng)
        if case2 is None:
            continue
        nchain += 1
        chain = {'chain': {'first': first, 'fmt': f2}}
        batch.append((case2, 'chain', res2, 500000 + 2 * i + 1))
        chains[id(case2)] = chain
        R.count(('chain', case_key(first), f2, None if case2['mask'] is None else tuple(case2['mask'])), nontrivial=True, stream='chain',
                chain='%s->%s' % (FMT_NAME[f1], FMT_NAME[f2]), selection=selection_kind(case2))
    lines = [b[2]['line'] for b in batch if b[2].get('line') is not None]
    outs = iter(R.model(lines))
    lines2 = [b[2]['line2'] for b in batch if b[2].get('line2') is not None]
    outs2 = iter(R.model(lines2))
    ngen = {'exhaustive': 0, 'random': 0, 'chain': 0}
    seen_keys = set()
    nfail = 0       # oracle failures reported (at most 3)
    ncorr = 0       # correspondence disagreements reported (at most 3; their own budget: they must never crowd out an oracle replay)
    # when the translation failed, coq/gen/Gen_exporters.v is a stale file: its output says nothing about the current source
    gen_current = getattr(R, 'translation_ok', True)
    for case, stream, res, idx in batch:
        corr = None
        if res.get('line') is not None:
            corr = compare_model(case, res, next(outs))
        if res.get('line2') is not None:
            corr2 = compare_gen(case, res, next(outs2))
            if res.get('written2') is not None:
                ngen[stream] += 1
            if corr is None and gen_current:
                corr = corr2
        for text, key in res['problems']:
            if key is not None:
                if key in seen_keys:
                    continue
                seen_keys.add(key)
                R.fail('oracle', {'stream': stream, 'case': case}, {'problem': text}, key=key)
            elif nfail < 3 and stream == 'chain':
                nfail += 1
                R.fail('oracle', {'stream': stream, 'chain': chains[id(case)]['chain'], 'second': case}, {'problems': [t for t, k in res['problems'] if k is None]}, key=None)
            elif nfail < 3:
                nfail += 1
                small = shrink_case(R, case, lambda c: any(k is None for _, k in run_case_impl(R, c, 900000 + nfail)['problems']))
                r2 = run_case_impl(R, small, 900100 + nfail)
                R.fail('oracle', {'stream': stream, 'case': small}, {'problems': [t for t, k in r2['problems'] if k is None] or [text]}, key=None)
        if corr is not None and stream == 'chain' and ncorr < 3:
            ncorr += 1
            R.fail('correspondence', {'stream': stream, 'chain': chains[id(case)]['chain'], 'second': case}, corr)
        elif corr is not None and not any(k is None for _, k in res['problems']) and ncorr < 3:
            ncorr += 1
            small = shrink_case(R, case, lambda c: evaluate(R, c, 900200 + ncorr)[1] is not None)
            r2, c2 = evaluate(R, small, 900300 + ncorr)
            R.fail('correspondence', {'stream': stream, 'case': small}, c2 or corr)
    R.stream('generated_exporters', cases=sum(ngen.values()), exhaustive_cases=ngen['exhaustive'], random_cases=ngen['random'], chain_cases=ngen['chain'], exhaustive=False,
             bound='the same cases as export_roundtrip: the Gallina functions TRANSLATED from data_to_astropy_table / hdf5_writer / fits_writer (coq/gen/Gen_exporters.v, run_case tag 2) are run on '
                   'the dataset as component records (glue kind, dtype kind, iinfo.min, derived flag, link function and source columns), the subset mask and the components= filter, '
                   'and compared with what the live exporter wrote (names, order, dtype kinds, ndim, values, BLANK value of integer HDUs)')
    R.stream('export_roundtrip', exhaustive_cases=nexh, random_cases=len(cases) - nexh, chain_cases=nchain, sessions_by_reference=nsess, wall_s=round(time.time() - t0, 1),
             exhaustive=False,
             bound='exhaustive: all masks over %d elements x 5 formats x shapes (1-d; 2-d for HDF5 / gridded FITS) on a float/int/text table with a derived column, '
                   'all 6 column orders; random: 1-4 columns, 1..6 rows or shapes (2,3),(3,2),(2,2,2),(1,4), float32/64 with NaN, int16/32/64, ASCII text' % R.pick(3, 4))


def replay(R, case):
    import warnings
    warnings.filterwarnings('ignore')
    if isinstance(case, dict) and 'second' in case:
        c = dict(case['second'])
        c['cols'] = [(a, b, dt, [np.nan if (isinstance(v, str) and v == 'nan' and b == 0) else (eval(v) if (isinstance(v, str) and v.startswith("b'")) else v) for v in vals])
                     for a, b, dt, vals in c['cols']]
        res, corr = evaluate(R, c, 1)
        new = [t for t, k in res['problems'] if k is None]
        return {'case': case, 'oracle_problems': new, 'correspondence': corr, 'violates': bool(new)}
    if not isinstance(case, dict) or 'case' not in case:
        return {'note': 'this replay file records a broken proof / correspondence without a failing input of the property; see its `broken` and `correspondence_cases` fields', 'violates': False}
    c = case['case']
    c = dict(c)
    c['cols'] = [tuple(x) for x in c['cols']]
    c['derived'] = tuple(c['derived']) if c.get('derived') else None
    c['links'] = [(l[0], l[1], list(l[2])) for l in c.get('links') or []]
    res, corr = evaluate(R, c, 1, session=True)
    new = [t for t, k in res['problems'] if k is None]
    known = [(t, k) for t, k in res['problems'] if k is not None]
    return {'case': c, 'oracle_problems': new, 'known_finding_problems': known, 'correspondence': corr, 'violates': bool(new)}
