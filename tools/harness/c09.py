"""C09 — a drawn region becomes a selection of exactly the points the region contains
(glue.core.subset.roi_to_subset_state and the to_mask of the states it returns).

Per case: a small dataset with numeric and/or categorical attributes is built, the region is converted with
roi_to_subset_state, and the mask of the returned state is compared with
  * the exact rational geometry of the region at the plotted positions (category index on categorical axes) — the oracle,
    shared with C08 (harness/c08.py, class Truth), independent of the Coq model;
  * the extracted Coq model (coq/C09/Model.v): the returned state itself (structure, category sets, range end points,
    polygon/line segments) and its element-wise semantics.
Only elements farther than eps from the region's boundary are compared (eps = 0, i.e. exactly-on-boundary only, for the exact
axis-aligned paths; 2^-30 x scale for rounded arithmetic; the sagitta of the 100-gon for round shapes on a mixed axis pair).
"""
import itertools
import math
from fractions import Fraction as F

import numpy as np

from harness.common import enc, kids, tag, is_err, to_zs
from harness import c08 as G
from harness.c08 import q, fr, jspec, unjspec, Truth, pmodel

PROP = 'C09'
GENERATORS = ['gen_catroi']
TRUSTED = [
    'tools/gen/gen_catroi.py (fail-closed ast translator of CategoricalROI.from_range / update_categories / contains and of the decision tree of '
    'roi_to_subset_state; branch bodies compared as text) and coq/C09/PyNum.v (meaning of slicing, np.unique, np.searchsorted on ascending input)',
    'hand model coq/C09/Model.v of roi_to_subset_state (dispatch), CategoricalROI.from_range, polygon_line_intersections and the to_mask of '
    'RangeSubsetState / CategoricalROISubsetState / AndState / CategoricalROISubsetState2D / CategoricalMultiRangeSubsetState / RoiSubsetState; '
    'geometry from coq/C08/Model.v; tied to the code by correspondence only',
    'matplotlib Path.contains_points is taken to be the even-odd rule off the boundary (any ray); validated against the exact oracle',
    'the rectangle branch flag (theta = 0 mod pi within 1e-9) is reproduced by the harness and handed to the model',
    'circle / ellipse / annulus to_polygon() vertices are recomputed by the harness (own copy of the linspace/cos/sin formula) and handed to the model',
    'category codes = indices into the sorted unique labels (numpy.unique), as the viewers pass them (x_categories / y_categories)',
]
ASSUMPTIONS = [
    'elements closer to the region boundary than eps are not compared: eps = 0 (exactly on the boundary) for range/axis-aligned rectangle paths, '
    '2^-30 x scale otherwise, plus the 100-gon sagitta r(1-cos(pi/99)) for circles/ellipses/annuli with exactly one categorical axis',
    'finite region parameters; NaN allowed in numeric attributes (expected: not selected)',
    'CategoricalROI is applied to the x attribute (as the code assumes)',
]

TINY = 2.0 ** -30
NPROC = 4        # driver processes per batch
# known finding (known_findings/C09.json): the annulus polygon has a zero-width bridge between its rings along y = yc, x in [xc+ri, xc+ro];
# when y is categorical and yc is a category index, the line y = yc runs along the bridge and the segment on it is dropped
KEY_BRIDGE = 'annulus-bridge-on-category-line'


def on_bridge(spec, xkind, ykind, p, band):
    """p (plotted position, Fractions) lies on the bridge of an annulus whose centre ordinate is the category line the element sits on"""
    if spec[0] != 'ann' or not (xkind == 'num' and ykind == 'cat') or p[0] is None or p[1] is None:
        return False
    xc, yc, ri, ro = (fr(v) for v in spec[1:5])
    return p[1] == yc and xc + ri - band <= p[0] <= xc + ro + band


def round_grid(v):
    return round(v * G.GRID) / G.GRID


# ------------------------------------------------------------------ datasets
# label sets of equal and of different widths; labels that are prefixes of each other; non-ASCII; trailing blanks
LABEL_POOLS = [['a', 'b', 'c', 'd'], ['d', 'c', 'b', 'a'], ['x10', 'x9', 'x1', 'x2'], ['B', 'a', 'C', 'b'],
               ['a', 'ab', 'abc', 'abd'], ['abd', 'a', 'abc', 'ab'], ['\u00e9', '\u00e9a', 'z', 'zz\u00fc'], ['a', 'a ', 'b  ', 'b'],
               ['long label', 'lo', 'long', 'l']]
PREFIX_POOLS = LABEL_POOLS[4:]
# label sets in which two DIFFERENT (x label, y label) pairs have the same concatenation ('1' + '11' = '11' + '1', 'a' + 'ba' = 'ab' + 'a'):
# any implementation that identifies a pair of labels by a joined string confuses them (round 5, seeded change C09-9)
# (no numeric-looking labels: Data() turns columns of such strings into numbers, which is a different, numeric axis)
COLLIDE_POOLS = [['p', 'pp', 'ppp', 'q'], ['a', 'b', 'ab', 'ba'], ['x', 'x,', ',x', 'x,x'], ['u', 'u_', '_u', 'u_u']]


def make_axis(kind, labels, values, order=None):
    """kind 'cat' -> (array of labels, codes, categories) ; 'num' -> (float array, None, None).
    `order` = explicit category order of the component (may contain labels that do not occur in the data, and the data may hold
    labels that are not in it: those elements have no category index - code None - and are drawn nowhere); the plotted position
    of an element is the index of its label in the component's categories (default: sorted unique labels)"""
    if kind == 'cat':
        arr = np.array(labels)
        if order is None:
            cats = np.unique(arr)
            codes = [int(c) for c in np.searchsorted(cats, arr)]
        else:
            cats = np.array(list(order))
            pos = {lab: i for i, lab in enumerate(order)}
            codes = [pos.get(lab) for lab in labels]
        return arr, codes, cats
    return np.array(values, dtype=float), None, None


# jitter values written over the random ones in the 'extreme' mode: the ends of the interval numpy.random.random() - 0.5 can reach
JIT_EXTREME = [-0.5, float(np.nextafter(0.5, 0)), -0.25, 0.4999, -0.4999, 0.0]


def build_data(xs, ys, xorder=None, yorder=None, jitter=None, shape=None):
    """jitter = (axes, how, seed): axes in 'x' | 'y' | 'xy' (categorical attributes only); how = 'ctor' (CategoricalComponent(...,
    jitter='uniform')), 'method' (component.jitter(method='uniform') afterwards), 'toggle' (on, off, on again) or 'extreme' (method,
    then the offsets are overwritten by the extreme values of [-0.5, 0.5)); numpy's global generator is seeded with `seed` for the
    calls and restored.  shape: the arrays are reshaped (N-d components)."""
    from glue.core import Data
    from glue.core.component import CategoricalComponent
    d = Data()
    axes, how, jseed = jitter if jitter else ('', None, 0)
    saved = np.random.get_state() if axes else None
    try:
        if axes:
            np.random.seed(int(jseed) % (2 ** 32))
        for name, arr, order in (('x', xs, xorder), ('y', ys, yorder)):
            arr = np.asarray(arr)
            if shape is not None:
                arr = arr.reshape(shape)
            jit = name in axes and arr.dtype.kind in 'US'
            if arr.dtype.kind in 'US' and (order is not None or jit):
                comp = CategoricalComponent(arr, categories=None if order is None else np.array(list(order)),
                                            jitter='uniform' if (jit and how == 'ctor') else None)
                d.add_component(comp, name)
                if jit and how != 'ctor':
                    comp.jitter(method='uniform')
                if jit and how == 'toggle':
                    comp.jitter(method=None)
                    comp.jitter(method='uniform')
                if jit and how == 'extreme' and getattr(comp.data, '_jitter', None) is not None:
                    jj = comp.data._jitter
                    jj[...] = np.resize(np.array(JIT_EXTREME[jseed % 3:] + JIT_EXTREME[:jseed % 3]), jj.size).reshape(jj.shape)
            else:
                d.add_component(arr, name)
    finally:
        if saved is not None:
            np.random.set_state(saved)
    return d


def mk_view(v):
    """JSON-able description of a view -> the object handed to to_mask"""
    def comp(c):
        if isinstance(c, (list, tuple)):
            return slice(c[1], c[2], c[3]) if c[0] == 'slice' else Ellipsis
        return int(c)
    k = v[0]
    if k == 'none':
        return None
    if k == 'ellipsis':
        return Ellipsis
    if k == 'slice':
        return slice(v[1], v[2], v[3])
    if k == 'int':
        return int(v[1])
    if k == 'tuple':
        return tuple(comp(c) for c in v[1])
    if k == 'index':
        return np.array(v[1], dtype=int)
    if k == 'list':
        return [int(i) for i in v[1]]
    if k == 'bool':
        return np.array(v[1], dtype=bool)
    raise ValueError(v)


def view_is_scalar(v, ndim=1):
    return v[0] == 'int' or (v[0] == 'tuple' and len(v[1]) == ndim and all(not isinstance(c, (list, tuple)) for c in v[1]))


def views_1d(n):
    """the ways a mask is requested for n >= 1 elements (besides no view at all)"""
    out = [['ellipsis'], ['slice', None, None, None], ['slice', 1, None, 2], ['slice', None, None, -1], ['int', n // 2], ['tuple', [n - 1]],
           ['index', sorted(set([0, n - 1, n // 3]))[::-1] + [n - 1]], ['list', [n - 1, 0]], ['bool', [i % 3 != 1 for i in range(n)]],
           ['tuple', [['slice', 1, max(n - 1, 1), None]]], ['index', []], ['int', -1]]
    return out


def views_nd(shape):
    r, c = shape[0], shape[1]
    return [['ellipsis'], ['tuple', [0]], ['tuple', [['slice', None, None, None], c - 1]], ['tuple', [r - 1, 0]], ['index', [r - 1, 0]],
            ['tuple', [['slice', None, None, -1], ['slice', None, None, None]]], ['tuple', [['ellipsis'], 0]], ['slice', None, None, None]]


# ------------------------------------------------------------------ implementation state -> canonical form
def canon_state(st, d, xcats, ycats):
    from glue.core import subset as S
    xid, yid = d.id['x'], d.id['y']

    def axis_of(att):
        return 0 if att is xid else 1

    def codes_of(labels, ax):
        cats = list(xcats if ax == 0 else ycats)
        return sorted(cats.index(lab) for lab in labels)
    if isinstance(st, S.RangeSubsetState):
        return ('range', axis_of(st.att), F(float(st.lo)), F(float(st.hi)))
    if isinstance(st, S.CategoricalROISubsetState):
        ax = axis_of(st.att)
        cats = st.roi.categories
        stored = [] if cats is None else [str(c) for c in cats]
        # CategoricalROI.contains binary-searches the stored categories: they have to be in ascending label order
        return ('cat', ax, codes_of([] if cats is None else list(cats), ax), all(a < b for a, b in zip(stored, stored[1:])))
    if isinstance(st, S.AndState):
        return ('and', canon_state(st.state1, d, xcats, ycats), canon_state(st.state2, d, xcats, ycats))
    if isinstance(st, S.CategoricalROISubsetState2D):
        return ('cat2d', sorted((codes_of([k], 0)[0], codes_of(list(v), 1)) for k, v in st.categories.items()))
    if isinstance(st, S.CategoricalMultiRangeSubsetState):
        ax = axis_of(st.cat_att)
        return ('multi', ax, sorted((codes_of([k], ax)[0], [(float(a), float(b)) for a, b in v]) for k, v in st.ranges.items()))
    if isinstance(st, S.RoiSubsetState):
        return ('roi',)
    return ('other', type(st).__name__)


def model_state(t):
    """decode the model's state tree into the same canonical form"""
    tg = tag(t)
    ks = kids(t)

    def qv(n):
        return F(kids(n)[0][0], kids(n)[1][0])
    if tg == 1:
        return ('range', ks[0][0], qv(ks[1]), qv(ks[2]))
    if tg == 2:
        return ('cat', ks[0][0], sorted(to_zs(ks[1])))
    if tg == 3:
        return ('and', model_state(ks[0]), model_state(ks[1]))
    if tg == 4:
        return ('cat2d', sorted((kids(p)[0][0], sorted(to_zs(kids(p)[1]))) for p in ks))
    if tg == 5:
        return ('multi', ks[0][0], sorted((kids(p)[0][0], [(qv(kids(s)[0]), qv(kids(s)[1])) for s in kids(p)[1:]]) for p in ks[1:]))
    if tg == 6:
        return ('roi',)
    return ('error',)


def states_agree(a, b, tol, near=None):
    """a: implementation (floats / Fractions), b: model (Fractions).  `near(p)` tells whether a plotted position is within the
    comparison band of the region boundary: lattice points / segment mid-points there are unpredictable (the code's own contract
    for polygon_line_intersections says so) and are left out of the comparison"""
    near = near or (lambda p: False)
    if a[0] != b[0]:
        return False
    if a[0] == 'range':
        return a[1] == b[1] and a[2] == b[2] and a[3] == b[3]
    if a[0] == 'cat':
        return a[1:3] == b[1:3] and (len(a) < 4 or a[3])
    if a[0] == 'cat2d':
        def pairs(st):
            return set((i, j) for i, js in st[1] for j in js if not near((F(i), F(j))))
        return pairs(a) == pairs(b)
    if a[0] == 'and':
        return states_agree(a[1], b[1], tol, near) and states_agree(a[2], b[2], tol, near)
    if a[0] == 'multi':
        if a[1] != b[1]:
            return False

        def segs(st):
            out = []
            for k, ss in st[2]:
                for lo, hi in ss:
                    m = (F(lo) + F(hi)) / 2
                    p = (F(k), m) if st[1] == 0 else (m, F(k))
                    if float(hi) - float(lo) > tol and not near(p):
                        out.append((k, float(lo), float(hi)))
            return out
        sa, sb = segs(a), segs(b)
        if len(sa) != len(sb):
            return False

        def same_end(k, u, w):
            # equal up to rounding, or both inside the boundary band (an intersection with a nearly parallel edge is ill-conditioned:
            # 1e-16 in a vertex moves it by 1e-16 / angle, always along the edge, i.e. inside the band)
            if abs(u - w) <= tol:
                return True
            pu = (F(k), F(u)) if a[1] == 0 else (F(u), F(k))
            pw = (F(k), F(w)) if a[1] == 0 else (F(w), F(k))
            return near(pu) and near(pw)
        return all(k1 == k2 and same_end(k1, l1, l2) and same_end(k1, h1, h2) for (k1, l1, h1), (k2, l2, h2) in zip(sa, sb))
    return True


# ------------------------------------------------------------------ regions
def round_polygon(spec):
    """own copy of Circular/Elliptical/CircularAnnulusROI.to_polygon (100 vertices per ring)"""
    theta = np.linspace(0, 2 * np.pi, num=100)
    k = spec[0]
    if k == 'circ':
        xc, yc, r = float(spec[1]), float(spec[2]), float(spec[3])
        return xc + r * np.cos(theta), yc + r * np.sin(theta)
    if k == 'ell':
        xc, yc, rx, ry = (float(v) for v in spec[1:5])
        th = G.ang_theta(spec[5])
        th = 0 if th is None else th
        x = rx * np.cos(theta)
        y = ry * np.sin(theta)
        rot = np.array([[np.cos(th), -np.sin(th)], [np.sin(th), np.cos(th)]])
        x, y = rot @ (x, y)
        return x + xc, y + yc
    if k == 'ann':
        xc, yc, ri, ro = (float(v) for v in spec[1:5])
        xi, yi = xc + ri * np.cos(theta), yc + ri * np.sin(theta)
        xo, yo = xc + ro * np.cos(theta), yc + ro * np.sin(theta)
        return (np.concatenate((xi, xo[::-1], xi[0]), axis=None), np.concatenate((yi, yo[::-1], yi[0]), axis=None))
    return None


def roi9_tree(spec, mixed):
    if spec[0] == 'catroi':
        return (7, [(0, sorted(set(spec[1])))])
    t = G.spec_tree(spec)
    if mixed and spec[0] in ('circ', 'ell', 'ann'):
        vx, vy = round_polygon(spec)
        return (8, [t, (0, [(0, [q(F(float(a))), q(F(float(b)))]) for a, b in zip(vx, vy)])])
    return t


def build_roi(spec, xcats):
    from glue.core import roi as R_
    if spec[0] == 'catroi':
        return R_.CategoricalROI([xcats[c] for c in spec[1]]) if spec[1] else R_.CategoricalROI([])
    return G.build(spec)


def scale_spec(spec, axis, s):
    """the region with the coordinate `axis` ('x' | 'y') multiplied by s (a power of two), when that is again a region of the same
    parametrisation (polygons, unrotated rectangles and ellipses, ranges); None otherwise"""
    k = spec[0]
    s = F(s)
    if k == 'range':
        return ('range', spec[1], spec[2] * s, spec[3] * s) if spec[1] == axis else spec
    if k == 'poly':
        return ('poly', tuple((a * s, b) if axis == 'x' else (a, b * s) for a, b in spec[1])) + tuple(spec[2:])
    if k in ('rect', 'ell') and G.ang_exact(spec[5]) and G.branch_of(G.ang_theta(spec[5])) == 0:
        if k == 'rect':
            return ('rect', spec[1] * s, spec[2] * s, spec[3], spec[4], spec[5]) if axis == 'x' else ('rect', spec[1], spec[2], spec[3] * s, spec[4] * s, spec[5])
        return ('ell', spec[1] * s, spec[2], spec[3] * s, spec[4], spec[5]) if axis == 'x' else ('ell', spec[1], spec[2] * s, spec[3], spec[4] * s, spec[5])
    return None


def unscale_state(st, ax, s):
    """canonical implementation state with the numeric axis `ax` (0 | 1) divided by s again"""
    if st[0] == 'range':
        return ('range', st[1], st[2] / F(s), st[3] / F(s)) if st[1] == ax else st
    if st[0] == 'and':
        return ('and', unscale_state(st[1], ax, s), unscale_state(st[2], ax, s))
    if st[0] == 'multi' and st[1] != ax:
        return ('multi', st[1], [(k, [(a / float(s), b / float(s)) for a, b in segs]) for k, segs in st[2]])
    return st


def exact_path(spec):
    """paths whose arithmetic is exact on dyadic input (only exactly-on-boundary elements are ambiguous)"""
    return spec[0] in ('range', 'catroi') or (spec[0] == 'rect' and G.ang_exact(spec[5]) and G.branch_of(G.ang_theta(spec[5])) == 0)


def case_eps(spec, truth, mixed, vals):
    if exact_path(spec):
        return F(0)
    sc = truth.scale()
    if len(vals):
        sc = max(sc, F(max(abs(v) for v in vals)))
    eps = sc * G.EPS_SCALE
    if mixed and spec[0] in ('circ', 'ell', 'ann'):
        big = max(float(getattr(truth, a)) for a in ('rx', 'ry', 'r', 'ro') if hasattr(truth, a))
        eps += F(big * G.SAGITTA * 1.01)
    return eps


# ------------------------------------------------------------------ one case
class Cases:
    def __init__(self, R, stream):
        self.R = R
        self.stream = stream
        self.items = []
        self.n = 0

    def auto(self, spec, xkind, ykind, n, explicit=False):
        """jitter / views / shape for case number self.n of an existing stream, derived from the run seed and the case number only"""
        import random
        rng = random.Random('%s/%s/%d' % (getattr(self.R, 'seed', 0), self.stream, self.n))
        cat_axes = ('x' if xkind == 'cat' else '') + ('y' if ykind == 'cat' else '')
        jit = None
        if cat_axes and rng.random() < 0.5:
            axes = cat_axes if rng.random() < 0.6 else rng.choice(cat_axes)
            jit = (axes, rng.choice(['ctor', 'method', 'toggle', 'extreme']), rng.randrange(10 ** 6))
        scalar_ok = bool(cat_axes) and exact_path(spec)
        shape = None
        if scalar_ok and not explicit and n >= 4 and n % 2 == 0 and rng.random() < 0.15:
            shape = (n // 2, 2)
        vs = views_nd(shape) if shape else views_1d(n)
        vs = [v for v in vs if scalar_ok or not view_is_scalar(v, 2 if shape else 1)]
        return dict(jitter=jit, shape=shape, views=rng.sample(vs, 1) if (n and rng.random() < 0.5) else [], subset_api=rng.random() < 0.05)

    def add(self, spec, xkind, ykind, xs, ys, sub=None, xorder=None, yorder=None, nscale=None, jitter='auto', views=(), shape=None,
            subset_api=False):
        """xs / ys: list of labels (categorical) or floats incl. nan (numeric); same length;
        xorder / yorder: explicit category order of a categorical component (None = sorted unique labels);
        nscale = (axis, k): the implementation sees the numeric axis `axis` multiplied by 2^k (region and data, exactly); oracle and
        model work on the unscaled case, and the returned state is divided by 2^k again before it is compared"""
        from glue.core.subset import roi_to_subset_state
        R = self.R
        if jitter == 'auto':
            a = self.auto(spec, xkind, ykind, len(xs), explicit=xorder is not None or yorder is not None)
            jitter, views, shape, subset_api = a['jitter'], a['views'], a['shape'], a['subset_api']
        xarr, xcodes, xcats = make_axis(xkind, xs, xs, xorder)
        yarr, ycodes, ycats = make_axis(ykind, ys, ys, yorder)
        case = {'stream': self.stream, 'roi': jspec(spec), 'xkind': xkind, 'ykind': ykind,
                'x': [str(v) if xkind == 'cat' else float(v) for v in xs], 'y': [str(v) if ykind == 'cat' else float(v) for v in ys]}
        if xorder is not None:
            case['xcats'] = list(xorder)
        if yorder is not None:
            case['ycats'] = list(yorder)
        if sub is not None:
            case['sub'] = sub
        if jitter:
            case['jitter'] = list(jitter)
        if shape:
            case['shape'] = list(shape)
        self.n += 1
        mixed = (xkind == 'cat') != (ykind == 'cat')
        impl_spec, sfac = spec, None
        if nscale is not None and spec[0] != 'catroi' and (xkind if nscale[0] == 'x' else ykind) == 'num':
            cand = scale_spec(spec, nscale[0], F(2) ** nscale[1])
            if cand is not None:
                impl_spec, sfac = cand, 2.0 ** nscale[1]
                case['nscale'] = [nscale[0], nscale[1]]
                if nscale[0] == 'x':
                    xarr = xarr * sfac
                else:
                    yarr = yarr * sfac
        try:
            d = build_data(xarr, yarr, xorder if xkind == 'cat' else None, yorder if ykind == 'cat' else None, jitter=jitter, shape=shape)
            roi = build_roi(impl_spec, xcats)
            st = roi_to_subset_state(roi, x_att=d.id['x'], y_att=d.id['y'], x_categories=xcats, y_categories=ycats)
            mask_nd = np.asarray(st.to_mask(d)).astype(bool)
            mask = mask_nd.ravel()
            if mask.shape != (len(xs),):
                raise ValueError('mask of shape %r for %d elements' % (mask_nd.shape, len(xs)))
            cst = canon_state(st, d, xcats, ycats)
            if sfac is not None:
                cst = unscale_state(cst, 0 if nscale[0] == 'x' else 1, sfac)
        except Exception as e:
            if spec[0] == 'catroi' and xkind == 'num' and ykind == 'num':
                cst, mask = ('error',), None
            else:
                R.fail('oracle', case, {'why': 'implementation raised %s: %s' % (type(e).__name__, e)})
                R.count((self.stream, repr(case['roi']), xkind, ykind, tuple(case['x']), tuple(case['y'])), nontrivial=False,
                        stream=self.stream, kind=spec[0], axes=xkind + '/' + ykind, outcome='raised')
                return
        # plotted positions
        # (category index; None for a label that is not among the component's categories, and for NaN) - never read from the component:
        # the jitter a component may carry spreads the markers of one category for display and does not move an element to another category
        px = [None if c is None else F(int(c)) for c in xcodes] if xkind == 'cat' else [None if v != v else F(float(v)) for v in xs]
        py = [None if c is None else F(int(c)) for c in ycodes] if ykind == 'cat' else [None if v != v else F(float(v)) for v in ys]
        # ---- oracle: exact geometry at the plotted positions
        if spec[0] == 'catroi':
            truth = None
            eps = F(0)
            orc = [(1 if (xkind == 'cat' and xcodes[i] is not None and int(xcodes[i]) in spec[1]) else 0) for i in range(len(xs))]
        else:
            truth = Truth.of_spec(spec)
            vals = [v for v in px + py if v is not None]
            eps = case_eps(spec, truth, mixed, vals)
            orc = []
            for a, b in zip(px, py):
                if spec[0] == 'range':
                    v = a if spec[1] == 'x' else b
                    if v is None:
                        orc.append(0)
                    else:
                        orc.append(truth.verdict((v, v), eps))
                elif a is None or b is None:
                    orc.append(0)
                else:
                    orc.append(truth.verdict((a, b), eps))
        bridge = [on_bridge(spec, xkind, ykind, (a, b), eps) for a, b in zip(px, py)]
        if mask is not None:
            bad_all = [i for i, (v, m) in enumerate(zip(orc, mask)) if v != 2 and bool(m) != (v == 1)]
            # the recorded defect: an element on the annulus bridge that is inside but not selected; anything else is a new violation
            known = [i for i in bad_all if bridge[i] and orc[i] == 1 and not mask[i]]
            bad = [i for i in bad_all if i not in known]
            for grp, key in ((bad, None), (known, KEY_BRIDGE)):
                if grp:
                    i = grp[0]
                    small = dict(case, x=[case['x'][i]], y=[case['y'][i]], full_x=case['x'], full_y=case['y'])
                    R.fail('oracle', small, {'why': 'element selected != plotted position inside the region (away from the boundary)',
                                            'selected': bool(mask[i]), 'inside': orc[i] == 1,
                                            'plotted': [None if px[i] is None else float(px[i]), None if py[i] is None else float(py[i])],
                                            'state': type(st).__name__, 'eps': float(eps), 'n_bad': len(grp)},
                           key=key)
            # ---- the same selection requested through views (and through Subset.to_mask): element by element the same verdicts
            n_el = len(xs)
            shp = tuple(shape) if shape else (n_el,)
            orc_nd = np.array(orc, dtype=int).reshape(shp)
            idx_nd = np.arange(n_el).reshape(shp)
            known_set = set(known)
            reqs = [('state', v) for v in views]
            if subset_api:
                reqs += [('subset', ['none'])] + [('subset', v) for v in list(views)[:1]]
            for api, vdesc in reqs:
                vcase = dict(case, view=vdesc, api=api, full_x=case['x'], full_y=case['y'])
                try:
                    view = mk_view(vdesc)
                    if api == 'subset':
                        sb = d.new_subset()
                        sb.subset_state = st
                        mv = np.asarray(sb.to_mask() if view is None else sb.to_mask(view))
                    else:
                        mv = np.asarray(st.to_mask(d, view))
                    want = np.asarray(orc_nd[view] if view is not None else orc_nd)
                    which = np.asarray(idx_nd[view] if view is not None else idx_nd)
                except Exception as e:
                    R.fail('oracle', vcase, {'why': 'mask through a view raised %s: %s' % (type(e).__name__, e), 'state': type(st).__name__})
                    continue
                if mv.shape != want.shape:
                    R.fail('oracle', vcase, {'why': 'mask through a view has shape %r, the viewed elements have shape %r' % (mv.shape, want.shape),
                                             'state': type(st).__name__})
                    continue
                wrong = (want != 2) & (mv.astype(bool) != (want == 1))
                els = [int(i) for i in np.atleast_1d(which[wrong]).ravel() if int(i) not in known_set]
                if els:
                    i = els[0]
                    R.fail('oracle', dict(vcase, x=[case['x'][i]], y=[case['y'][i]]),
                           {'why': 'element selected through a view != plotted position inside the region (away from the boundary)',
                            'element': i, 'inside': orc[i] == 1, 'selected_without_view': bool(mask[i]),
                            'plotted': [None if px[i] is None else float(px[i]), None if py[i] is None else float(py[i])],
                            'state': type(st).__name__, 'n_bad': len(els)})
        # ---- the display offsets the components carry at this moment (what .codes adds to the category index): an input of the model,
        # which has to ignore it
        def offsets(name, codes):
            try:
                comp = d.get_component(d.id[name])
                jj = getattr(comp.data, '_jitter', None)
                if hasattr(comp.data, '_categories') and hasattr(jj, 'shape') and jj.shape == comp.data.shape and not hasattr(comp.data, '_codes'):
                    # explicit category list: .codes goes through a pandas merge (3 ms); the offsets themselves are the same numbers
                    return [F(0) if c is None else F(float(v)) for c, v in zip(codes, np.asarray(jj, dtype=float).ravel())]
                shown = np.asarray(comp.codes, dtype=float).ravel()
                return [F(0) if (c is None or not np.isfinite(shown[i])) else F(float(shown[i])) - c for i, c in enumerate(codes)]
            except Exception:
                return [F(0)] * len(codes)
        jx = offsets('x', xcodes) if (xkind == 'cat' and jitter and 'x' in jitter[0]) else None
        jy = offsets('y', ycodes) if (ykind == 'cat' and jitter and 'y' in jitter[0]) else None
        # ---- model line
        def kt(kind, cats):
            return (1, [len(cats)]) if kind == 'cat' else 0

        def ct(kind, code, v, j):
            if kind == 'cat':
                if code is None:
                    return (0, [])
                return (1, [int(code)]) if j is None else (3, [int(code), q(j)])
            return (0, []) if v is None else (2, [q(v)])
        els = [(0, [ct(xkind, xcodes[i] if xkind == 'cat' else None, px[i], jx[i] if jx else None),
                    ct(ykind, ycodes[i] if ykind == 'cat' else None, py[i], jy[i] if jy else None)]) for i in range(len(xs))]
        line = enc((1, [q(eps), roi9_tree(spec, mixed), kt(xkind, xcats), kt(ykind, ycats), (0, els)]))
        self.items.append((case, line, cst, mask, orc, eps, truth, spec, bridge))

    def finish(self):
        R = self.R
        if not self.items:
            return
        outs = pmodel(R, [it[1] for it in self.items], nproc=NPROC)
        for (case, line, cst, mask, orc, eps, truth, spec, bridge), o in zip(self.items, outs):
            nin = 0 if mask is None else int(mask.sum())
            R.count((self.stream, repr(case['roi']), case['xkind'], case['ykind'], tuple(case['x']), tuple(case['y']), tuple(case.get('xcats', ())), tuple(case.get('ycats', ())),
                     tuple(case.get('jitter', ())), tuple(case.get('shape', ()))),
                    nontrivial=mask is not None and 0 < nin < len(mask), jitter=('%s/%s' % tuple(case['jitter'][:2]) if case.get('jitter') else 'off'),
                    ndim=len(case.get('shape', (0,))), numeric_scale=('2^%d' % case['nscale'][1] if case.get('nscale') else '1'), cat_order=('explicit' if ('xcats' in case or 'ycats' in case) else 'sorted'), stream=self.stream, kind=spec[0], axes=case['xkind'] + '/' + case['ykind'],
                    path=cst[0], n_elements=len(case['x']))
            if is_err(o) or tag(o) != 0:
                R.fail('correspondence', case, {'why': 'model returned an error', 'model': o})
                continue
            mst = model_state(kids(o)[0])
            msem = [bool(t_[0]) for t_ in kids(kids(o)[1])]
            mcont = [bool(t_[0]) for t_ in kids(kids(o)[2])]
            mnear = [bool(t_[0]) for t_ in kids(kids(o)[3])]
            tol = 1e-9 * float(truth.scale()) if truth is not None else 0.0
            near = (lambda p_, t_=truth, e_=eps, s_=spec, c_=case: t_.near(p_, e_) or on_bridge(s_, c_['xkind'], c_['ykind'], p_, e_)) \
                if truth is not None and truth.kind != 'range' else None
            if not states_agree(cst, mst, tol, near):
                R.fail('correspondence', case, {'why': 'returned subset state differs from the model', 'impl': cst, 'model': mst})
                continue
            if mask is None:
                continue
            bad = [i for i, (m, s, nr) in enumerate(zip(mask, msem, mnear)) if not nr and not bridge[i] and bool(m) != s]
            # segment end points are rounded in the implementation: the model's semantics is compared off the band only
            if bad:
                i = bad[0]
                R.fail('correspondence', dict(case, x=[case['x'][i]], y=[case['y'][i]]),
                       {'why': 'mask differs from the model semantics of the state off the band', 'impl': bool(mask[i]), 'model': msem[i]})
            bad2 = [i for i, (v, c, nr) in enumerate(zip(orc, mcont, mnear)) if v != 2 and not nr and c != (v == 1)]
            if bad2:
                i = bad2[0]
                R.fail('correspondence', dict(case, x=[case['x'][i]], y=[case['y'][i]]),
                       {'why': 'model contains and exact oracle disagree off the band', 'model': mcont[i], 'oracle': orc[i]})
        self.items = []


# ------------------------------------------------------------------ generators
def sweep_positions(n):
    """region edges swept across the integer category positions: k + {0, +-0.5, +-0.25, +-2^-30}, k = -1 .. n"""
    out = []
    for k in range(-1, n + 1):
        for d in (0.0, 0.5, -0.5, 0.25, -0.25, TINY, -TINY):
            out.append(k + d)
    return sorted(set(out))


def numeric_values(edges):
    """values of a numeric attribute around the given edges, plus NaN"""
    vals = set()
    for e in edges:
        for d in (0.0, TINY, -TINY, 0.125, -0.125):
            vals.add(float(e) + d)
    vals = sorted(vals)
    return vals + [float('nan')]


def label_orders(n, pool, rng=None, limit=None):
    labs = pool[:n]
    perms = list(itertools.permutations(labs))
    if limit is not None and len(perms) > limit:
        perms = rng.sample(perms, limit)
    return perms


def stream_from_range(R):
    from glue.core.roi import CategoricalROI
    cases = []
    for n in range(0, R.pick(5, 6)):
        pos = sweep_positions(n) + [-3.0, n + 2.5, 1e9]
        for lo in pos:
            for hi in pos:
                cases.append((n, lo, hi))
    outs = pmodel(R, [enc((2, [n, q(F(lo)), q(F(hi))])) for n, lo, hi in cases], nproc=NPROC)
    labels = np.array(['a', 'b', 'c', 'd', 'e', 'f'])
    for (n, lo, hi), o in zip(cases, outs):
        cats = labels[:n]
        case = {'stream': 'from_range', 'n': n, 'lo': lo, 'hi': hi}
        try:
            roi = CategoricalROI.from_range(cats, lo, hi)
            got = sorted(int(np.searchsorted(cats, c)) for c in roi.categories)
        except Exception as e:
            R.fail('oracle', case, {'why': 'from_range raised %s: %s' % (type(e).__name__, e)})
            continue
        R.count(('fr', n, lo, hi), nontrivial=0 < len(got) < n, stream='from_range', kind='range')
        model = sorted(to_zs(o))
        if model != got:
            R.fail('correspondence', case, {'model': model, 'impl': got})
        for k in range(n):
            if k == lo or k == hi:
                continue
            if (k in got) != (lo < k < hi):
                R.fail('oracle', case, {'why': 'category index %d selected=%s but lo < k < hi is %s' % (k, k in got, lo < k < hi)})
                break
    R.stream('from_range', cases=len(cases), exhaustive=True,
             bound='n = 0..%d categories; lo, hi over k + {0, +-0.25, +-0.5, +-2^-30}, k = -1..n, plus -3, n+2.5, 1e9' % (R.pick(5, 6) - 1))


def stream_axis_aligned(R):
    """ranges and unrotated rectangles (theta = 0, pi, 2 pi): every axis-kind combination, edges swept across the category positions,
    every ordering of the labels"""
    C = Cases(R, 'axis_aligned')
    rng = R.subrng('aa')
    nmax = 4
    for n in range(1, nmax + 1):
        pos = sweep_positions(n)
        pool = LABEL_POOLS[n % len(LABEL_POOLS)]
        orders = label_orders(n, pool, rng, R.pick(6, 24))
        edge_pairs = [(a, b) for a in pos for b in pos if a < b]
        if R.quick() or n == 4:
            edge_pairs = rng.sample(edge_pairs, min(len(edge_pairs), 150))
        for (lo, hi) in edge_pairs:
            order = orders[rng.randrange(len(orders))]
            other = numeric_values([lo, hi])
            # categorical attribute: every label once per value of the other attribute
            xs_c = [lab for lab in order for _ in other]
            ys_n = [v for _ in order for v in other]
            C.add(('range', 'x', F(lo), F(hi)), 'cat', 'num', xs_c, ys_n)
            C.add(('range', 'y', F(lo), F(hi)), 'num', 'cat', ys_n, xs_c)
            kk = rng.choice([None, None, -40, -20, 20, 40])
            C.add(('range', 'x', F(lo), F(hi)), 'num', 'num', ys_n, list(reversed(ys_n)), nscale=None if kk is None else ('x', kk))
            C.add(('range', 'y', F(lo), F(hi)), 'cat', 'cat', xs_c[:len(order)], list(order))
        # rectangles: x edges and y edges both swept
        rect_pairs = [(rng.choice(edge_pairs), rng.choice(edge_pairs)) for _ in range(R.pick(250, 1200))]
        for (x0, x1), (y0, y1) in rect_pairs:
            ang = rng.choice([None, ('mult', 2, 0), ('mult', 0, 0), ('mult', 4, 0), ('mult', -2, 0), ('mult', 2, 41)])
            spec = ('rect', F(x0), F(x1), F(y0), F(y1), ang)
            order = orders[rng.randrange(len(orders))]
            order2 = orders[rng.randrange(len(orders))]
            nvx = numeric_values([x0, x1])
            nvy = numeric_values([y0, y1])
            # cat / num
            kk = rng.choice([None, None, -40, -20, 20, 40])
            C.add(spec, 'cat', 'num', [lab for lab in order for _ in nvy], [v for _ in order for v in nvy], nscale=None if kk is None else ('y', kk))
            C.add(spec, 'num', 'cat', [v for _ in order for v in nvx], [lab for lab in order for _ in nvx], nscale=None if kk is None else ('x', kk))
            C.add(spec, 'cat', 'cat', [a for a in order for _ in order2], [b for _ in order for b in order2])
            C.add(spec, 'num', 'num', [v for v in nvx for _ in nvy], [w for _ in nvx for w in nvy])
        C.finish()
    R.stream('axis_aligned', cases=C.n, exhaustive=False,
             bound='1..%d categories, every ordering of the labels (sampled above 6), range edges over k + {0, +-0.25, +-0.5, +-2^-30}; numeric values at the edges, '
                   '+-2^-30, +-1/8 and NaN; four axis-kind combinations; rectangles with theta in {0, pi, 2pi, -pi, pi + 9e-13}' % nmax)


def stream_category_orders(R):
    """categorical components with an EXPLICIT category order (every permutation of <= 4 labels, also with a label that does not occur
    in the data) on every path that goes through from_range / CategoricalROI: range regions and unrotated rectangles, categorical
    x / numeric y, numeric x / categorical y, both categorical.  Plotted position = index in the component's category order."""
    from glue.core.roi import CategoricalROI
    C = Cases(R, 'category_orders')
    rng = R.subrng('co')
    pool = ['a', 'b', 'c', 'd']
    fr_cases = []
    for n in range(2, 5):
        perms = list(itertools.permutations(pool[:n]))
        edges = [k - 0.5 for k in range(0, n + 1)] + [0.25, n - 1.0, -2.0, n + 3.0, 1 + TINY]
        pairs = [(a, b) for a in edges for b in edges if a < b]
        for ip, order in enumerate(perms):
            present = list(order) if ip % 3 else list(order[:-1]) + [order[0]]      # every third: the last category has no element
            mypairs = pairs if (n < 4 or not R.quick()) else rng.sample(pairs, 12)
            for (lo, hi) in mypairs:
                fr_cases.append((order, lo, hi))
                nv = numeric_values([lo, hi])[:6] + [float('nan')]
                xs_c = [lab for lab in present for _ in nv]
                ys_n = [v for _ in present for v in nv]
                C.add(('range', 'x', F(lo), F(hi)), 'cat', 'num', xs_c, ys_n, xorder=order)
                C.add(('range', 'y', F(lo), F(hi)), 'num', 'cat', ys_n, xs_c, yorder=order)
                order2 = perms[(ip * 7 + 3) % len(perms)]
                lo2, hi2 = mypairs[(ip + len(fr_cases)) % len(mypairs)]
                ang = [None, ('mult', 2, 0), ('mult', -2, 0)][len(fr_cases) % 3]
                rect = ('rect', F(lo), F(hi), F(lo2), F(hi2), ang)
                C.add(rect, 'cat', 'num', xs_c, ys_n, xorder=order)
                C.add(rect, 'num', 'cat', ys_n, xs_c, yorder=order)
                C.add(rect, 'cat', 'cat', [a for a in present for _ in order2], [b for _ in present for b in order2], xorder=order, yorder=order2)
                C.add(('range', 'y', F(lo2), F(hi2)), 'cat', 'cat', [a for a in present for _ in order2], [b for _ in present for b in order2],
                      xorder=order, yorder=order2)
        C.finish()
    # the label level on its own: stored categories of CategoricalROI.from_range (np.unique order) and its searchsorted-based contains
    rank = {lab: i for i, lab in enumerate(sorted(pool))}
    outs = pmodel(R, [enc((4, [(0, [rank[l] for l in order]), q(F(lo)), q(F(hi)), (0, [rank[l] for l in pool])])) for order, lo, hi in fr_cases], nproc=NPROC)
    for (order, lo, hi), o in zip(fr_cases, outs):
        case = {'stream': 'category_orders', 'categories': list(order), 'lo': lo, 'hi': hi}
        try:
            roi = CategoricalROI.from_range(np.array(order), lo, hi)
            stored = [rank[str(c)] for c in roi.categories]
            cont = [bool(b) for b in np.asarray(roi.contains(np.array(pool), None))]
        except Exception as e:
            R.fail('oracle', case, {'why': 'from_range / contains raised %s: %s' % (type(e).__name__, e)})
            continue
        R.count(('co-fr', order, lo, hi), nontrivial=0 < len(stored) < len(order), stream='category_orders', kind='from_range', cat_order='explicit')
        mstored = to_zs(kids(o)[0])
        mcont = [bool(t_[0]) for t_ in kids(kids(o)[1])]
        if stored != mstored or cont != mcont:
            R.fail('correspondence', case, {'why': 'stored categories / contains of the CategoricalROI differ from the model',
                                            'impl': [stored, cont], 'model': [mstored, mcont]})
        want = [lab in order and lo < order.index(lab) < hi for lab in pool]
        onb = [lab in order and order.index(lab) in (lo, hi) for lab in pool]
        if any(c != w for c, w, b in zip(cont, want, onb) if not b):
            R.fail('oracle', case, {'why': 'label selected != its position in the category order lies in (lo, hi)', 'contains': cont, 'expected': want})
    R.stream('category_orders', cases=C.n, from_range_cases=len(fr_cases), exhaustive=not R.quick(),
             bound='every permutation of 2..4 labels as the component categories (every third one with a category that has no element); '
                   'range edges at k - 1/2 and a few others, all pairs (12 sampled per permutation for 4 labels in the quick tier); range x / range y / '
                   'rectangle (theta 0, +-pi) on cat-num, num-cat, cat-cat')


def stream_jitter_boundaries(R):
    """every way of drawing a region edge between two neighbouring categories (all pairs of boundaries k - 1/2, 1..6 categories), on every
    path of roi_to_subset_state that involves a categorical axis, with the display jitter of the categorical components off / on for
    x / y / both (switched on in the constructor, by .jitter(), toggled, or with the extreme offsets), the mask requested without a
    view, through every kind of view, through Subset.to_mask, and for 2-d component arrays.  Expected: the category index decides."""
    C = Cases(R, 'jitter_boundaries')
    pool = ['a', 'b', 'c', 'd', 'e', 'f', 'g']
    hows = ['method', 'ctor', 'extreme', 'toggle']
    nmax = R.pick(6, 7)
    it = 0
    for n in range(1, nmax + 1):
        labs = pool[:n]
        bounds = [F(2 * k - 1, 2) for k in range(0, n + 1)]
        pairs = [(a, b) for a in bounds for b in bounds if a < b]
        for ip, (lo, hi) in enumerate(pairs):
            lo2, hi2 = pairs[(ip * 5 + 2) % len(pairs)]
            # explicit category order on every other pair: a rotation of the reversed labels; every fourth pair one category has no
            # element, every sixth pair the data holds a label that is not among the categories (no category index: never selected)
            order = None
            present = list(labs)
            if ip % 2:
                r = ip % n
                order = list(reversed(labs))[r:] + list(reversed(labs))[:r]
                if ip % 4 == 1 and n > 1:
                    present = [l for l in labs if l != order[(ip // 4) % n]]
                if ip % 6 == 1:
                    present = present + ['zz']
            nv = R.pick([0.0, 1.0, float('nan')], [0.0, 1.0, 1.5, 2.0, float('nan')])
            y0, y1 = F(1, 4), F(7, 4)
            cn_x = [a for a in present for _ in nv]
            cn_y = [v for _ in present for v in nv]
            cc_x = [a for a in present for _ in labs]
            cc_y = [b for _ in present for b in labs]
            inside = tuple(k for k in range(n) if lo < k < hi)
            cx, cy = (lo + hi) / 2, (y0 + y1) / 2
            cy2 = (lo2 + hi2) / 2
            quarter = ('mult', 1, 0)
            specs = [
                (('range', 'x', lo, hi), 'cat', 'num', cn_x, cn_y, order, None),
                (('range', 'y', lo, hi), 'num', 'cat', cn_y, cn_x, None, order),
                (('range', 'x', lo, hi), 'cat', 'cat', cc_x, cc_y, order, None),
                (('range', 'y', lo, hi), 'cat', 'cat', cc_y, cc_x, None, order),
                (('rect', lo, hi, y0, y1, None), 'cat', 'num', cn_x, cn_y, order, None),
                (('rect', y0, y1, lo, hi, ('mult', 2, 0)), 'num', 'cat', cn_y, cn_x, None, order),
                (('rect', lo, hi, lo2, hi2, None), 'cat', 'cat', cc_x, cc_y, order, None),
                # rotated by a quarter turn about its centre: the polygon paths (mixed and 2-d categorical)
                (('rect', cx - (y1 - y0) / 2, cx + (y1 - y0) / 2, cy - (hi - lo) / 2, cy + (hi - lo) / 2, quarter), 'cat', 'num', cn_x, cn_y, order, None),
                (('rect', cy - (hi - lo) / 2, cy + (hi - lo) / 2, cx - (y1 - y0) / 2, cx + (y1 - y0) / 2, quarter), 'num', 'cat', cn_y, cn_x, None, order),
                (('rect', cx - (hi2 - lo2) / 2, cx + (hi2 - lo2) / 2, cy2 - (hi - lo) / 2, cy2 + (hi - lo) / 2, quarter), 'cat', 'cat', cc_x, cc_y, order, None),
                (('poly', ((lo, y0), (hi, y0), (hi, y1), (lo, y1))), 'cat', 'num', cn_x, cn_y, order, None),
                (('poly', ((y0, lo), (y0, hi), (y1, hi), (y1, lo))), 'num', 'cat', cn_y, cn_x, None, order),
                (('poly', ((lo, lo2), (hi, lo2), (hi, hi2), (lo, hi2), (lo, lo2))), 'cat', 'cat', cc_x, cc_y, order, None),
                (('catroi', inside), 'cat', 'num', cn_x, cn_y, order, None),
                (('catroi', inside), 'cat', 'cat', cc_x, cc_y, order, None),
            ]
            for spec, xk, yk, xs, ys, xo, yo in specs:
                if (xk == 'cat' and yk == 'cat') and (xo is not None or yo is not None):
                    # the other categorical attribute: explicit order too (the labels as they are)
                    xo = xo if xo is not None else list(labs)
                    yo = yo if yo is not None else list(labs)
                cat_axes = ('x' if xk == 'cat' else '') + ('y' if yk == 'cat' else '')
                modes = [cat_axes, ''] if len(cat_axes) == 1 else (['xy', 'xy'[ip % 2], ''] if R.quick() else ['xy', 'x', 'y', ''])
                exact = exact_path(spec)
                for axes in modes:
                    it += 1
                    jit = (axes, hows[it % 4], 1000 * R.seed + it) if axes else None
                    nel = len(xs)
                    shape = None
                    if exact and xo is None and yo is None and nel >= 4 and nel % 2 == 0 and it % 3 == 0:
                        shape = (nel // 2, 2)
                    vs = views_nd(shape) if shape else views_1d(nel)
                    vs = [v for v in vs if exact or not view_is_scalar(v, 2 if shape else 1)]
                    # quick tier: a rotating window of 3 of the views; thorough: all of them
                    if R.quick():
                        vs = [vs[(it + j_) % len(vs)] for j_ in range(3)]
                    C.add(spec, xk, yk, xs, ys, xorder=xo, yorder=yo, jitter=jit, views=vs, shape=shape, subset_api=(it % 4 == 0))
        C.finish()
    R.stream('jitter_boundaries', cases=C.n, exhaustive=True,
             bound='1..%d categories, every pair of category boundaries k - 1/2 as the region edges; range x / range y / rectangle (theta 0, pi, pi/2) / '
                   'polygon / categorical region on cat-num, num-cat, cat-cat; display jitter off and on per categorical attribute (constructor, '
                   '.jitter(), toggled, extreme offsets); explicit category orders with unused categories and labels outside the categories; '
                   'masks without a view, through 12 kinds of views, through Subset.to_mask, 2-d component arrays' % nmax)


def lattice_polys(rng):
    """polygons with vertices on the half-integer lattice (so vertices and vertical edges fall on category positions)"""
    n = rng.randrange(3, 8)
    cx, cy = rng.randrange(0, 4), rng.randrange(0, 4)
    dirs = sorted(rng.sample(range(16), n))
    vs = []
    for dct in dirs:
        a = 2 * math.pi * dct / 16
        r = rng.choice([0.5, 1, 1.5, 2, 2.5, 3])
        vs.append((F(round((cx + r * math.cos(a)) * 2), 2), F(round((cy + r * math.sin(a)) * 2), 2)))
    if rng.random() < 0.5:
        vs.append(vs[0])
    return ('poly', tuple(vs))


FIXED_POLYS = [
    ('poly', ((F(0), F(0)), (F(2), F(0)), (F(2), F(2)), (F(0), F(2)))),                       # edges on category positions
    ('poly', ((F(-1, 2), F(-1, 2)), (F(5, 2), F(-1, 2)), (F(5, 2), F(3, 2)), (F(-1, 2), F(3, 2)), (F(-1, 2), F(-1, 2)))),
    ('poly', ((F(0), F(0)), (F(3), F(0)), (F(3), F(1)), (F(1), F(1)), (F(1), F(3)), (F(0), F(3)))),   # L: several segments per line
    ('poly', ((F(-1, 2), F(0)), (F(1), F(3)), (F(2), F(1, 2)), (F(3), F(3)), (F(7, 2), F(0)))),        # W: two segments on x = 1.. and a vertex hit
    ('poly', ((F(0), F(-1)), (F(1), F(1)), (F(2), F(-1)), (F(3), F(1)), (F(3), F(3)), (F(0), F(3)))),  # vertices exactly on x = 1, 2
    ('poly', ((F(0), F(0)), (F(3), F(3)), (F(3), F(0)), (F(0), F(3)))),                                 # bow-tie
]


def polygon_like_spec(rng):
    u = rng.random()
    if u < 0.2:
        return ('circ', G.dy(rng, -1, 4, 4), G.dy(rng, -1, 4, 4), G.dy(rng, 0.25, 3, 4))
    if u < 0.4:
        return ('ell', G.dy(rng, -1, 4, 4), G.dy(rng, -1, 4, 4), G.dy(rng, 0.25, 3, 4), G.dy(rng, 0.25, 3, 4), G.random_angle(rng))
    if u < 0.5:
        ri = G.dy(rng, 0.25, 2, 4)
        return ('ann', G.dy(rng, 0, 3, 4), G.dy(rng, 0, 3, 4), ri, ri + G.dy(rng, 0.25, 2, 4))
    if u < 0.7:
        x0, y0 = G.dy(rng, -1, 3, 4), G.dy(rng, -1, 3, 4)
        ang = G.random_angle(rng)
        return ('rect', x0, x0 + G.dy(rng, 0.25, 4, 4), y0, y0 + G.dy(rng, 0.25, 4, 4), ang)
    if u < 0.85:
        return FIXED_POLYS[rng.randrange(len(FIXED_POLYS))]
    return lattice_polys(rng)


def stream_polygon_like(R):
    C = Cases(R, 'polygon_like')
    # fixed case of the known finding (annulus bridge on a category line): always exercised, silent once repaired
    C.add(('ann', F(3, 4), F(3), F(1, 4), F(1, 2)), 'num', 'cat',
          [v for _ in range(4) for v in (0.375, 1.125, 0.75, 1.5)], [b for b in ['a', 'b', 'c', 'd'] for _ in range(4)], sub=-1)
    # fixed polygons and an ellipse over a numeric axis of magnitude 2^-40 .. 2^40, both orientations
    vals0 = [k_ / 4 for k_ in range(-6, 18)] + [0.5 + TINY, 2.9999, float('nan')]
    for ip, spec0 in enumerate(FIXED_POLYS + [('ell', F(3, 2), F(1), F(2), F(5, 4), None), ('rect', F(-1, 2), F(5, 2), F(1, 4), F(9, 4), None)]):
        for k_ in (-40, -30, 30, 40):
            labs = LABEL_POOLS[(ip + k_) % len(LABEL_POOLS)]
            C.add(spec0, 'cat', 'num', [a for a in labs for _ in vals0], [v for _ in labs for v in vals0], sub=-2, nscale=('y', k_))
            C.add(spec0, 'num', 'cat', [v for _ in labs for v in vals0], [b for b in labs for _ in vals0], sub=-2, nscale=('x', k_))
    n = R.pick(1200, 7000)
    for i in range(n):
        rng = R.subrng('pl', i)
        spec = polygon_like_spec(rng)
        nx, ny = rng.randrange(1, 5), rng.randrange(1, 5)
        px_ = LABEL_POOLS[rng.randrange(len(LABEL_POOLS))]
        py_ = LABEL_POOLS[rng.randrange(len(LABEL_POOLS))]
        ox = list(rng.choice(list(itertools.permutations(px_[:nx]))))
        oy = list(rng.choice(list(itertools.permutations(py_[:ny]))))
        # half of the cases: the component carries an explicit category order (a permutation, possibly with an unused label)
        xo = yo = None
        if rng.random() < 0.5:
            xo = list(rng.choice(list(itertools.permutations(px_[:nx] + (['zz'] if rng.random() < 0.3 else [])))))
            yo = list(rng.choice(list(itertools.permutations(py_[:ny] + (['zz'] if rng.random() < 0.3 else [])))))
        combo = rng.choice(['cat/cat', 'cat/num', 'num/cat', 'num/num'])
        if combo == 'cat/cat' and rng.random() < 0.45:
            # both axes from one pool whose label pairs collide when joined; the data grid below holds every pair
            cp = COLLIDE_POOLS[rng.randrange(len(COLLIDE_POOLS))]
            ox = list(rng.choice(list(itertools.permutations(cp))))
            oy = list(rng.choice(list(itertools.permutations(cp))))
            xo = yo = None
        truth = Truth.of_spec(spec)
        vals = sorted(set([k / 4 for k in range(-6, 18)] + [float(round_grid(float(b[1]) + off)) for b in G.boundary_points(truth, rng, 10)
                                                            for off in (0.0, 3e-8, -3e-8, 2.0 ** -10, -2.0 ** -10)]))
        valsx = sorted(set([k / 4 for k in range(-6, 18)] + [float(round_grid(float(b[0]) + off)) for b in G.boundary_points(truth, rng, 10)
                                                             for off in (0.0, 3e-8, -3e-8, 2.0 ** -10, -2.0 ** -10)]))
        if rng.random() < 0.5:
            vals.append(float('nan'))
            valsx.append(float('nan'))
        # numeric axis of very small / very large magnitude: multiplied by a power of two (exact), both orientations
        ns = None
        if combo != 'cat/cat' and rng.random() < 0.4:
            ns = ('x' if combo == 'num/cat' else 'y', rng.choice([-40, -34, -24, -12, 12, 24, 40]))
            if spec[0] == 'circ':
                spec = ('ell', spec[1], spec[2], spec[3], spec[3], None)
        if combo == 'cat/cat':
            C.add(spec, 'cat', 'cat', [a for a in ox for _ in oy], [b for _ in ox for b in oy], sub=i, xorder=xo, yorder=yo)
        elif combo == 'cat/num':
            C.add(spec, 'cat', 'num', [a for a in ox for _ in vals], [v for _ in ox for v in vals], sub=i, xorder=xo, nscale=ns)
        elif combo == 'num/cat':
            C.add(spec, 'num', 'cat', [v for _ in oy for v in valsx], [b for b in oy for _ in valsx], sub=i, yorder=yo, nscale=ns)
        else:
            P = G.make_points(truth, rng, 24, 12, truth.scale() * G.EPS_SCALE)
            C.add(spec, 'num', 'num', P[:, 0].tolist(), P[:, 1].tolist(), sub=i, nscale=ns)
        if i % 1000 == 999:
            C.finish()
    C.finish()
    R.stream('polygon_like', cases=C.n, exhaustive=False,
             bound='circle / ellipse / annulus / rotated rectangle (angles as in C08) / fixed and random lattice polygons (open and closed, vertices and edges on '
                   'category positions, concave, self-intersecting); 1..4 categories per axis in random label order; numeric values on a 1/4 lattice, at region '
                   'boundary ordinates +- {0, 3e-8, 2^-10}, NaN')


def stream_categorical_roi(R):
    C = Cases(R, 'categorical_roi')
    rng = R.subrng('catroi')
    for n in range(1, R.pick(4, 5)):
        pool = LABEL_POOLS[n % len(LABEL_POOLS)]
        for order in label_orders(n, pool, rng, 6):
            for r in range(0, n + 1):
                for sel in itertools.combinations(range(n), r):
                    C.add(('catroi', tuple(sel)), 'cat', 'num', list(order), [0.5] * n)
                    C.add(('catroi', tuple(sel)), 'cat', 'cat', list(order), list(reversed(order)))
    # labels of different widths, prefixes of each other, non-ASCII, trailing blanks: the region's label list is in general narrower
    # (shorter longest label) than the data's; every subset of the 4 labels as the region, the data holds all of them
    for pool in PREFIX_POOLS:
        for r in range(0, 5):
            for sel in itertools.combinations(range(4), r):
                C.add(('catroi', tuple(sel)), 'cat', 'num', list(pool), [0.5] * 4)
                C.add(('catroi', tuple(sel)), 'cat', 'cat', list(reversed(pool)), list(pool), xorder=list(pool) if len(sel) % 2 else None)
    # malformed: a CategoricalROI with two numeric attributes cannot be converted (to_polygon is "just not possible")
    C.add(('catroi', (0,)), 'num', 'num', [0.0, 1.0], [0.0, 1.0])
    C.finish()
    R.stream('categorical_roi', cases=C.n, exhaustive=True, bound='every subset of 1..%d categories, up to 6 label orderings, x categorical; + the raising case' % (R.pick(4, 5) - 1))


def stream_line_intersections(R):
    """polygon_line_intersections on its own: model segments vs implementation segments"""
    from glue.utils.geometry import polygon_line_intersections
    rng = R.subrng('pli')
    cases = []
    for spec in FIXED_POLYS:
        for k in [x / 2 for x in range(-3, 9)]:
            cases.append((spec, k, False))
            cases.append((spec, k, True))
    for i in range(R.pick(150, 1500)):
        r2 = R.subrng('pli', i)
        cases.append((lattice_polys(r2), r2.choice([0, 1, 2, 3, 0.5, 1.5, 2.5]), r2.random() < 0.5))
    lines = []
    for spec, k, sw in cases:
        vs = [(b, a) for a, b in spec[1]] if sw else list(spec[1])
        lines.append(enc((3, [(0, [(0, [q(a), q(b)]) for a, b in vs]), q(F(k))])))
    outs = pmodel(R, lines, nproc=NPROC)
    for (spec, k, sw), o in zip(cases, outs):
        vx = [float(a) for a, _ in spec[1]]
        vy = [float(b) for _, b in spec[1]]
        case = {'stream': 'line_intersections', 'roi': jspec(spec), 'k': k, 'horizontal': sw}
        try:
            segs = polygon_line_intersections(vx, vy, yval=k) if sw else polygon_line_intersections(vx, vy, xval=k)
        except Exception as e:
            R.fail('oracle', case, {'why': 'polygon_line_intersections raised %s: %s' % (type(e).__name__, e)})
            continue
        impl = [(float(a), float(b)) for a, b in segs]
        model = [(F(kids(kids(s)[0])[0][0], kids(kids(s)[0])[1][0]), F(kids(kids(s)[1])[0][0], kids(kids(s)[1])[1][0])) for s in kids(o)]
        R.count(('pli', repr(case['roi']), k, sw), nontrivial=len(impl) > 0, stream='line_intersections', kind='poly', segments=len(impl))
        # segments whose mid-point lies on the boundary (vertical edges on the line) are unpredictable by the function's own contract
        truth = Truth.of_spec(spec)

        def on_boundary(seg):
            m = (seg[0] + seg[1]) / 2
            p = (m, F(k)) if sw else (F(k), m)
            return truth.near(p, F(1, 2 ** 40))
        mi = [(F(a), F(b)) for a, b in impl if not on_boundary((F(a), F(b)))]
        mm = [s for s in model if not on_boundary(s)]
        if len(mi) != len(mm) or any(abs(float(a1 - a2)) > 1e-9 or abs(float(b1 - b2)) > 1e-9 for (a1, b1), (a2, b2) in zip(mi, mm)):
            R.fail('correspondence', case, {'why': 'segments differ', 'impl': impl, 'model': [(float(a), float(b)) for a, b in model]})
        # oracle: each segment interior lies inside, each gap outside (even-odd), away from the boundary
        for (a, b) in mi:
            m = (a + b) / 2
            p = (m, F(k)) if sw else (F(k), m)
            if not truth.inside(p):
                R.fail('oracle', case, {'why': 'segment (%s, %s) is not inside the polygon' % (float(a), float(b))})
                break
    R.stream('line_intersections', cases=len(cases), exhaustive=False, bound='6 fixed polygons x lines at -1.5..4 step 0.5 (vertical and horizontal) + random lattice polygons')


def run(R):
    R.rule = ('a case = (region, axis kinds, dataset); the dataset holds every category label (in a chosen order) against every value of a sweep of the other '
              'attribute; non-trivial when the mask selects some but not all elements; distinct = distinct (region, kinds, dataset) tuples')
    stream_from_range(R)
    stream_categorical_roi(R)
    stream_line_intersections(R)
    stream_category_orders(R)
    stream_jitter_boundaries(R)
    stream_axis_aligned(R)
    stream_polygon_like(R)
    R.sample({'roi': ['rect', -0.5, 2.5, 0.75, 1.5, None], 'xkind': 'cat', 'ykind': 'num', 'x': ['b', 'a', 'c'], 'y': [1.0, 0.75, float('nan')]})
    R.sample({'roi': ['circ', 1.0, 1.0, 1.25], 'xkind': 'cat', 'ykind': 'cat', 'x': ['a', 'b', 'c'], 'y': ['c', 'b', 'a']})


def replay(R, case):
    out = {'case': case}
    if 'roi' in case and 'xkind' in case:
        spec = unjspec(case['roi'])
        if spec[0] == 'poly':
            spec = ('poly', tuple(tuple(F(c) for c in v) for v in spec[1])) + tuple(spec[2:])
        elif spec[0] != 'catroi':
            spec = tuple(F(v) if isinstance(v, float) else v for v in spec)
        xs = case.get('full_x', case['x'])
        ys = case.get('full_y', case['y'])
        xs = [v if case['xkind'] == 'cat' else float(v) for v in xs]
        ys = [v if case['ykind'] == 'cat' else float(v) for v in ys]
        Cl = G.Collect()
        C = Cases(Cl, case.get('stream', 'replay'))
        C.add(spec, case['xkind'], case['ykind'], xs, ys, xorder=case.get('xcats'), yorder=case.get('ycats'),
              nscale=tuple(case['nscale']) if case.get('nscale') else None,
              jitter=tuple(case['jitter']) if case.get('jitter') else None, shape=tuple(case['shape']) if case.get('shape') else None,
              views=[case['view']] if (case.get('view') and case.get('api') != 'subset') else [], subset_api=False)
        if case.get('api') == 'subset':
            C.n = 0
            C.add(spec, case['xkind'], case['ykind'], xs, ys, xorder=case.get('xcats'), yorder=case.get('ycats'),
                  jitter=tuple(case['jitter']) if case.get('jitter') else None, shape=tuple(case['shape']) if case.get('shape') else None,
                  views=[case['view']] if case.get('view') and case['view'] != ['none'] else [], subset_api=True)
        fails = [f['detail'] for f in Cl.failures if f['kind'] == 'oracle']
        out['oracle_failures'] = fails
        out['known_finding_keys'] = sorted(set(f['key'] for f in Cl.failures if f['kind'] == 'oracle' and f.get('key')))
        out['violates'] = bool(fails)
        if R.model_available and C.items:
            o = R.model([C.items[0][1]])[0]
            out['model_state'] = repr(model_state(kids(o)[0])) if tag(o) == 0 else 'error'
            out['impl_state'] = repr(C.items[0][2])
    else:
        out['note'] = 'replay by re-running the stream: VERIF_SEED=<seed> ./check C09 --tier <tier>'
        out['violates'] = False
    return out
