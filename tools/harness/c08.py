"""C08 — region containment is geometrically exact and equivariant under move/rotate/copy (glue/core/roi.py).

Three parties are run on every case:
  * the implementation (float numpy code in $GLUE_REPO),
  * the extracted Coq model (coq/C08/Model.v, exact rationals, mirrors the code's branches),
  * the oracle below (exact rational geometry with `fractions`, written from the geometric definitions and
    independent of the Coq model: one formula per shape, vertical-ray even-odd rule for polygons).
Points are floats; their exact rational values go to the model and the oracle.  The answers are compared
only for points farther than a tolerance `eps` from the region's boundary (exact rational distance).
"""
import itertools
import math
from fractions import Fraction as F

import numpy as np

from harness.common import enc, kids, tag, is_err, err_code

PROP = 'C08'
GENERATORS = ['gen_rotate']
TRUSTED = [
    'hand model coq/C08/Model.v of glue/core/roi.py (Rectangular/Elliptical/Circular/CircularAnnulus/Range/Polygonal/Categorical/'
    'Projected3d ROI: contains, center, move_to, rotate_to, rotate_by, RectangularROI.to_polygon) over Q, tied to the code by correspondence only '
    '(except the angle logic of Roi.rotate_by and of the rotate_to methods, which tools/gen/gen_rotate.py translates from the source: coq/C08/GenLink.v)',
    'tools/gen/gen_rotate.py: the translation of angle expressions (+, -, the None default, % (2 pi) in the skip test) into operations on rotation pairs',
    'matplotlib Path.contains_points is taken to be the even-odd rule off the boundary (validated against the exact oracle on every polygon case)',
    'branch selection by floating isclose tests on theta is reproduced by the harness (own copy of the tests) and handed to the model as a flag',
    'float trigonometry: theta = atan2(s, c) for an exact rational point (c, s) of the unit circle; the deviation of cos/sin(theta) from (c, s) '
    'is below the comparison band',
    'circle/ellipse/annulus to_polygon (100-gon) enclosure is checked by the oracle with the analytic sagitta bound, not proved',
]
ASSUMPTIONS = [
    'finite coordinates only; points closer to the boundary than eps (2^-30 x scale for rounded arithmetic, 0 = exactly-on-boundary for '
    'the exact axis-aligned rectangle/range tests) are not compared',
    'regions are defined (undefined regions are a separate malformed stream expecting UndefinedROI)',
    'ellipse semi-axes non-zero for the geometric theorem; annulus 0 < inner < outer as defined() requires',
]

EPS_SCALE = F(1, 2 ** 30)
GRID = 2.0 ** 34
SAGITTA = 1 - math.cos(math.pi / 99)


# ------------------------------------------------------------------ angles
def ang_theta(a):
    """float theta handed to the implementation"""
    if a is None:
        return None
    if a[0] == 'mult':
        return a[1] * (math.pi / 2) + small_delta(a[2])
    c, s = F(a[1], a[3]), F(a[2], a[3])
    return math.atan2(float(s), float(c)) + (2 * math.pi * a[4] if len(a) > 4 else 0.0)


def small_delta(j):
    """the small offsets from a multiple of pi/2: +-2*atan(2^-|j|) (so that cos and sin are rationals with few bits); j = 0 means none"""
    if j == 0:
        return 0.0
    return math.copysign(2 * math.atan(2.0 ** -abs(j)), j)


def ang_cs(a):
    """exact rational (cos, sin) of the angle the float theta stands for"""
    if a is None:
        return F(1), F(0)
    if a[0] == 'mult':
        k = a[1] % 4
        c0, s0 = [(1, 0), (0, 1), (-1, 0), (0, -1)][k]
        t = F(0) if a[2] == 0 else F(1 if a[2] > 0 else -1, 2 ** abs(a[2]))
        c1, s1 = (1 - t * t) / (1 + t * t), 2 * t / (1 + t * t)
        return compose((F(c0), F(s0)), (c1, s1))
    return F(a[1], a[3]), F(a[2], a[3])


def compose(r1, r2):
    return r1[0] * r2[0] - r1[1] * r2[1], r1[1] * r2[0] + r1[0] * r2[1]


def inverse(r):
    return r[0], -r[1]


def branch_of(theta):
    """own copy of the isclose tests of RectangularROI/EllipticalROI.contains: 0 = first branch, 1 = 90 degrees, 2 = general"""
    if theta is None:
        theta = 0
    if abs(theta % math.pi) <= 1e-9:
        return 0
    if abs(theta % (math.pi / 2)) <= 1e-9:
        return 1
    return 2


def poly_skip(dtheta):
    """own copy of the (repaired) skip test of PolygonalROI.rotate_to"""
    return abs(dtheta % (2 * math.pi)) <= 1e-9


def ang_exact(a):
    """exact multiples of pi/2: the code runs one of its two axis-aligned tests, whose float arithmetic is exact on dyadic input"""
    return a is None or (a[0] == 'mult' and a[2] == 0)


PYTH = [(3, 4, 5), (4, 3, 5), (-3, 4, 5), (5, 12, 13), (12, -5, 13), (-8, -15, 17), (20, 21, 29), (-21, 20, 29),
        (7, 24, 25), (24, 7, 25), (-7, -24, 25), (40, 9, 41), (9, -40, 41), (60, 11, 61), (1, 0, 1), (0, 1, 1), (0, -1, 1), (-1, 0, 1),
        (2047, 64, 2049 - 1)]
PYTH = [p for p in PYTH if p[0] ** 2 + p[1] ** 2 == p[2] ** 2]
# 2*atan(2^-j): 9.1e-13, 1.2e-10 (inside the isclose window of 1e-9), 1.9e-9, 1.5e-8 (outside)
DELTAS = [0, 41, -41, 34, -34, 30, -30, 27, -27]


def all_angles(ks=range(-4, 9)):
    out = [None]
    for k in ks:
        for d in DELTAS:
            out.append(('mult', k, d))
    for a, b, h in PYTH:
        out.append(('pyth', a, b, h))
    return out


# ------------------------------------------------------------------ exact geometry (the oracle)
def fr(x):
    return x if isinstance(x, F) else F(x)


class Truth:
    """a region as a geometric object with exact rational parameters"""

    def __init__(self, kind, **kw):
        self.kind = kind
        self.__dict__.update(kw)

    @staticmethod
    def of_spec(spec):
        k = spec[0]
        if k == 'rect':
            x0, x1, y0, y1 = map(fr, spec[1:5])
            c, s = ang_cs(spec[5])
            return Truth('rect', cx=(x0 + x1) / 2, cy=(y0 + y1) / 2, w=x1 - x0, h=y1 - y0, c=c, s=s)
        if k == 'ell':
            c, s = ang_cs(spec[5])
            return Truth('ell', cx=fr(spec[1]), cy=fr(spec[2]), rx=abs(fr(spec[3])), ry=abs(fr(spec[4])), c=c, s=s)
        if k == 'circ':
            return Truth('circ', cx=fr(spec[1]), cy=fr(spec[2]), r=abs(fr(spec[3])))
        if k == 'ann':
            return Truth('ann', cx=fr(spec[1]), cy=fr(spec[2]), ri=fr(spec[3]), ro=fr(spec[4]))
        if k == 'range':
            return Truth('range', isx=spec[1] == 'x', lo=fr(spec[2]), hi=fr(spec[3]))
        if k == 'poly':
            return Truth('poly', vs=[(fr(x), fr(y)) for x, y in spec[1]])
        raise ValueError(k)

    # --- transformations
    def translate(self, dx, dy):
        if self.kind == 'range':
            d = dx if self.isx else dy
            self.lo += d
            self.hi += d
        elif self.kind == 'poly':
            self.vs = [(x + dx, y + dy) for x, y in self.vs]
        else:
            self.cx += dx
            self.cy += dy

    def set_angle(self, c, s):
        self.c, self.s = c, s

    def rotate_about(self, ctr, c, s):
        assert self.kind == 'poly'
        self.vs = [(ctr[0] + c * (x - ctr[0]) - s * (y - ctr[1]), ctr[1] + s * (x - ctr[0]) + c * (y - ctr[1])) for x, y in self.vs]

    def rect_polygon(self):
        w2, h2 = self.w / 2, self.h / 2
        return Truth('poly', vs=[(self.cx + self.c * u - self.s * v, self.cy + self.s * u + self.c * v)
                                 for u, v in [(-w2, -h2), (w2, -h2), (w2, h2), (-w2, h2)]])

    # --- queries
    def _uv(self, p):
        dx, dy = p[0] - self.cx, p[1] - self.cy
        return self.c * dx + self.s * dy, -self.s * dx + self.c * dy

    def inside(self, p):
        k = self.kind
        if k == 'rect':
            u, v = self._uv(p)
            return abs(u) < self.w / 2 and abs(v) < self.h / 2
        if k == 'ell':
            if self.rx == 0 or self.ry == 0:
                return False
            u, v = self._uv(p)
            return u * u / (self.rx * self.rx) + v * v / (self.ry * self.ry) < 1
        if k == 'circ':
            return (p[0] - self.cx) ** 2 + (p[1] - self.cy) ** 2 < self.r ** 2
        if k == 'ann':
            d2 = (p[0] - self.cx) ** 2 + (p[1] - self.cy) ** 2
            return self.ri ** 2 < d2 < self.ro ** 2
        if k == 'range':
            v = p[0] if self.isx else p[1]
            return self.lo < v < self.hi
        # polygon: even-odd rule, vertical ray upwards
        odd = False
        n = len(self.vs)
        for i in range(n):
            (ax, ay), (bx, by) = self.vs[i], self.vs[(i + 1) % n]
            if (ax > p[0]) != (bx > p[0]):
                yint = ay + (p[0] - ax) * (by - ay) / (bx - ax)
                if yint > p[1]:
                    odd = not odd
        return odd

    def near(self, p, eps):
        """True when p may be within eps of the boundary (conservative: never False for such a point)"""
        k = self.kind
        if k == 'rect':
            u, v = self._uv(p)
            if self.w < 0 or self.h < 0:       # empty region: no boundary to be near to
                return False
            return abs(max(abs(u) - self.w / 2, abs(v) - self.h / 2)) <= eps
        if k == 'ell':
            m = min(self.rx, self.ry)
            if m == 0:
                return True
            kk = eps / m
            u, v = self._uv(p)
            q = u * u / (self.rx * self.rx) + v * v / (self.ry * self.ry)
            return q <= (1 + kk) ** 2 and (kk >= 1 or q >= (1 - kk) ** 2)
        if k in ('circ', 'ann'):
            d2 = (p[0] - self.cx) ** 2 + (p[1] - self.cy) ** 2
            rs = [self.r] if k == 'circ' else [self.ri, self.ro]
            return any(d2 <= (r + eps) ** 2 and (r <= eps or d2 >= (r - eps) ** 2) for r in rs)
        if k == 'range':
            v = p[0] if self.isx else p[1]
            return abs(v - self.lo) <= eps or abs(v - self.hi) <= eps
        n = len(self.vs)
        e2 = eps * eps
        for i in range(n):
            if seg_dist2(p, self.vs[i], self.vs[(i + 1) % n]) <= e2:
                return True
        return False

    def verdict(self, p, eps):
        if self.near(p, eps):
            return 2
        return 1 if self.inside(p) else 0

    def extent(self):
        """the region's own size (independent of where it is)"""
        k = self.kind
        if k == 'poly':
            xs = [v[0] for v in self.vs]
            ys = [v[1] for v in self.vs]
            return max(max(xs) - min(xs), max(ys) - min(ys))
        if k == 'range':
            return abs(self.hi - self.lo)
        if k == 'rect':
            return max(abs(self.w), abs(self.h))
        if k == 'ell':
            return 2 * max(self.rx, self.ry)
        return 2 * (self.r if k == 'circ' else self.ro)

    def conditioning(self):
        """how much a perturbation of the vertices can move the centroid, relative to the perturbation: n * extent^2 / (2 |area|) for a
        polygon (None when the area vanishes), 1 for the classes whose centre is a stored parameter"""
        if self.kind != 'poly':
            return F(1)
        vs = self.vs
        n = len(vs)
        a2 = abs(sum(vs[i][0] * vs[(i + 1) % n][1] - vs[i][1] * vs[(i + 1) % n][0] for i in range(n)))
        if a2 == 0:
            return None
        return max(F(1), n * self.extent() ** 2 / a2)

    def scale(self):
        k = self.kind
        if k == 'poly':
            vals = [abs(c) for v in self.vs for c in v]
        elif k == 'range':
            vals = [abs(self.lo), abs(self.hi)]
        else:
            vals = [abs(self.cx), abs(self.cy)] + [abs(getattr(self, a)) for a in ('w', 'h', 'rx', 'ry', 'r', 'ri', 'ro') if hasattr(self, a)]
        return max([F(1)] + vals)


def seg_dist2(p, a, b):
    dx, dy = b[0] - a[0], b[1] - a[1]
    wx, wy = p[0] - a[0], p[1] - a[1]
    L = dx * dx + dy * dy
    if L == 0:
        return wx * wx + wy * wy
    t = wx * dx + wy * dy
    if t <= 0:
        return wx * wx + wy * wy
    if t >= L:
        return (p[0] - b[0]) ** 2 + (p[1] - b[1]) ** 2
    cr = wx * dy - wy * dx
    return cr * cr / L


# ------------------------------------------------------------------ implementation side
def build(spec):
    from glue.core import roi as R_
    k = spec[0]
    if k == 'rect':
        return R_.RectangularROI(float(spec[1]), float(spec[2]), float(spec[3]), float(spec[4]), theta=ang_theta(spec[5]))
    if k == 'ell':
        return R_.EllipticalROI(float(spec[1]), float(spec[2]), float(spec[3]), float(spec[4]), theta=ang_theta(spec[5]))
    if k == 'circ':
        return R_.CircularROI(float(spec[1]), float(spec[2]), float(spec[3]))
    if k == 'ann':
        return R_.CircularAnnulusROI(float(spec[1]), float(spec[2]), float(spec[3]), float(spec[4]))
    if k == 'range':
        return R_.RangeROI(spec[1], float(spec[2]), float(spec[3]))
    if k == 'poly':
        vx = [float(x) for x, _ in spec[1]]
        vy = [float(y) for _, y in spec[1]]
        if len(spec) > 2 and spec[2] == 'numpy':
            return R_.PolygonalROI(np.array(vx), np.array(vy))
        return R_.PolygonalROI(vx, vy)
    raise ValueError(k)


def spec_angle(spec):
    return spec[5] if spec[0] in ('rect', 'ell') else None


def center_pair(roi, spec=None):
    c = roi.center()
    if np.ndim(c) == 0:
        return (float(c), float(c))
    return (float(c[0]), float(c[1]))


class Evaluated:
    """implementation result + oracle truth for one (spec, ops) pair"""
    pass


PUBLIC_ATTRS = {
    'RectangularROI': ('xmin', 'xmax', 'ymin', 'ymax', 'theta'),
    'EllipticalROI': ('xc', 'yc', 'radius_x', 'radius_y', 'theta'),
    'CircularROI': ('xc', 'yc', 'radius'),
    'CircularAnnulusROI': ('xc', 'yc', 'inner_radius', 'outer_radius'),
    'RangeROI': ('ori', 'min', 'max'), 'XRangeROI': ('ori', 'min', 'max'), 'YRangeROI': ('ori', 'min', 'max'),
    'PolygonalROI': ('vx', 'vy', 'theta'),
}


def public_state(roi):
    """every public attribute that defines the region, as plain Python values (+ the reported centre)"""
    out = {'class': type(roi).__name__}
    for a in PUBLIC_ATTRS[type(roi).__name__]:
        v = getattr(roi, a)
        out[a] = [float(x) for x in v] if isinstance(v, (list, tuple, np.ndarray)) else (v if isinstance(v, str) else float(v))
    try:
        out['center'] = list(center_pair(roi))
    except Exception as e:  # reported by the caller
        out['center'] = 'raised %s' % type(e).__name__
    return out


def state_diff(a, b, skip=()):
    return [k for k in a if k not in skip and a[k] != b.get(k)]


def restore(roi):
    from glue.core.state import GlueSerializer, GlueUnSerializer
    return GlueUnSerializer.loads(GlueSerializer(roi).dumps()).object('__main__')


def run_impl(spec, ops, mag=False):
    """apply ops to the real ROI and, in lockstep, to the oracle's exact region.
    `copy` and `ser` (GlueSerializer round trip) are operations inside the sequence: the clone joins the list of tracked objects,
    every later operation is applied to ALL of them, and after every step their public attributes (parameters, theta, centre) must be
    identical; the region that is compared with the model / oracle at the end is the most recent clone.  (A restored polygon restarts
    at theta = 0 - the vertices are saved, the position angle is not, and glue's test-suite pins that - so from there on only the
    restored object is followed.)
    Returns (roi, truth, info) where info has: model op trees, centre reports, inexact flag, tracks, problems."""
    from glue.core import roi as R_
    tracks = [build(spec)]
    truth = Truth.of_spec(spec)
    cur_ang = spec_angle(spec)          # absolute angle spec for rect / ellipse
    cur_rot = ang_cs(cur_ang)           # exact (cos, sin) of the rectangle's / ellipse's position angle
    cur_theta = ang_theta(cur_ang) or 0.0   # ... and the float theta the code should hold
    poly_theta = 0.0                    # PolygonalROI.theta as the code should track it
    poly_rot = (F(1), F(0))
    kind = spec[0]
    mops = []
    exact = (kind == 'range' or (kind == 'rect' and ang_exact(cur_ang))) and not mag
    maxmag = truth.scale()              # largest coordinate magnitude the region has had: float rounding errors made there persist
    centres = []
    rot_centres = []
    problems = []
    for step, o in enumerate(ops):
        roi = tracks[-1]
        if o[0] == 'move':
            before = center_pair(roi)
            tx, ty = float(o[1]), float(o[2])
            for t_ in tracks:
                if kind == 'range':
                    t_.move_to(tx if spec[1] == 'x' else ty)
                else:
                    t_.move_to(tx, ty)
            after = center_pair(roi, spec)
            truth.translate(F(tx) - F(before[0]), F(ty) - F(before[1]))
            maxmag = max(maxmag, truth.scale())
            centres.append((before, (tx, ty), after, float(maxmag), None if truth.conditioning() is None else float(truth.conditioning()), step))
            mops.append((1, [q(F(tx)), q(F(ty))]))
            if kind == 'poly' or mag:
                exact = False
        elif o[0] == 'rot':
            ang = o[1]
            th = ang_theta(ang)
            if kind in ('rect', 'ell'):
                for t_ in tracks:
                    t_.rotate_to(th)
                c, s = ang_cs(ang)
                truth.set_angle(c, s)
                cur_ang = ang
                cur_rot, cur_theta = (c, s), (0.0 if th is None else th)
                mops.append((6, [branch_of(th), 0, q(c), q(s)]))
                exact = exact and ang_exact(ang)
            else:
                before = center_pair(roi, spec)
                new_rot = ang_cs(ang)
                d = compose(new_rot, inverse(poly_rot))
                dth = (0 if th is None else th) - poly_theta
                for t_ in tracks:
                    t_.rotate_to(th)
                truth.rotate_about((F(before[0]), F(before[1])), d[0], d[1])
                rot_centres.append((before, center_pair(roi, spec)))
                poly_theta = 0 if th is None else th
                poly_rot = new_rot
                # absolute angle: the model keeps theta itself and turns by the difference
                mops.append((6, [0, 1 if poly_skip(dth) else 0, q(new_rot[0]), q(new_rot[1])]))
                exact = False
        elif o[0] == 'rotby':
            # Roi.rotate_by(dtheta): the region turns by dtheta about its centre, whatever the accumulated position angle is
            ang = o[1]
            dth = ang_theta(ang) or 0.0
            d = ang_cs(ang)
            if kind in ('rect', 'ell'):
                for t_ in tracks:
                    t_.rotate_by(dth)
                cur_theta = cur_theta + dth            # the float the code should now hold (own copy of theta + dtheta)
                cur_rot = compose(cur_rot, d)
                cur_ang = None
                truth.set_angle(*cur_rot)
                mops.append((7, [branch_of(cur_theta), 0, q(d[0]), q(d[1])]))
                exact = exact and ang_exact(ang)
            else:
                before = center_pair(roi, spec)
                th_new = poly_theta + dth
                for t_ in tracks:
                    t_.rotate_by(dth)
                truth.rotate_about((F(before[0]), F(before[1])), d[0], d[1])
                mops.append((7, [0, 1 if poly_skip(th_new - poly_theta) else 0, q(d[0]), q(d[1])]))
                poly_theta = th_new
                poly_rot = compose(poly_rot, d)
                exact = False
                rot_centres.append((before, center_pair(roi, spec)))
        elif o[0] == 'topoly':
            tracks = [R_.PolygonalROI(*t_.to_polygon()) for t_ in tracks]
            truth = truth.rect_polygon()
            kind = 'poly'
            spec = ('poly', None)
            poly_theta, poly_rot = 0.0, (F(1), F(0))
            mops.append((3, []))
            exact = False
        elif o[0] == 'copy':
            new = roi.copy()
            df = state_diff(public_state(roi), public_state(new))
            if type(new) is not type(roi) or df:
                problems.append('step %d copy(): attributes differ from the original: %s' % (step, df))
            tracks.append(new)
            mops.append((4, []))
        elif o[0] == 'ser':
            new = restore(roi)
            lost = ('theta',) if kind == 'poly' else ()
            df = state_diff(public_state(roi), public_state(new), skip=lost)
            if type(new) is not type(roi) or df:
                problems.append('step %d save/restore: attributes differ from the original: %s' % (step, df))
            if kind == 'poly':
                if float(new.theta) != 0.0:
                    problems.append('step %d save/restore: polygon theta %r (the vertices are saved, the angle restarts at 0)' % (step, new.theta))
                tracks = [new]
                poly_theta, poly_rot = 0.0, (F(1), F(0))
            else:
                tracks.append(new)
            mops.append((5, []))
        else:
            raise ValueError(o)
        if len(tracks) > 1:
            ref = public_state(tracks[-1])
            for it, t_ in enumerate(tracks[:-1]):
                df = state_diff(ref, public_state(t_))
                if df:
                    problems.append('after step %d (%s): object %d and the latest clone differ in %s' % (step, o[0], it, df))
    info = Evaluated()
    info.mops = mops
    info.centres = centres
    info.exact = exact and not mag
    info.final_kind = kind
    info.tracks = tracks
    info.problems = problems
    info.rot_centres = rot_centres
    info.mag = mag
    info.maxmag = max(maxmag, truth.scale())
    info.theta_cs = poly_rot if kind == 'poly' else (cur_rot if kind in ('rect', 'ell') else None)
    return tracks[-1], truth, info


def q(x):
    x = fr(x)
    return (0, [x.numerator, x.denominator])


def spec_tree(spec):
    k = spec[0]
    if k in ('rect', 'ell'):
        th = ang_theta(spec[5])
        c, s = ang_cs(spec[5])
        return (1 if k == 'rect' else 2, [q(spec[1]), q(spec[2]), q(spec[3]), q(spec[4]), branch_of(th), q(c), q(s)])
    if k == 'circ':
        return (3, [q(spec[1]), q(spec[2]), q(spec[3])])
    if k == 'ann':
        return (4, [q(spec[1]), q(spec[2]), q(spec[3]), q(spec[4])])
    if k == 'range':
        return (5, [1 if spec[1] == 'x' else 0, q(spec[2]), q(spec[3])])
    if k == 'poly':
        return (6, [(0, [q(x), q(y)]) for x, y in spec[1]])
    raise ValueError(k)


def jspec(spec):
    """JSON-able copy of a spec (Fractions are dyadic: floats are exact)"""
    def cv(x):
        if isinstance(x, F):
            return float(x)
        if isinstance(x, (tuple, list)):
            return [cv(y) for y in x]
        return x
    return cv(spec)


def unjspec(j):
    def cv(x):
        if isinstance(x, list):
            return tuple(cv(y) for y in x)
        return x
    return cv(j)


def pts_exact(P):
    return [(F(float(x)), F(float(y))) for x, y in P]


MAG_C = 32                     # float operations (a few per vertex per operation, <= 6 operations) whose rounding errors the band absorbs
ULP = F(1, 2 ** 52)


def mag_tol(info, truth, cond=None):
    """scale-aware bound on what float rounding of a well-conditioned algorithm can do to a coordinate: c * eps * (|pos| + size) [* conditioning]"""
    t = MAG_C * ULP * (info.maxmag + truth.extent())
    return t if cond is None else t * cond


def case_eps(truth, P, info):
    if getattr(info, 'mag', False):
        # large-magnitude stream: the band follows the rounding error of the coordinates (eps * |pos|), not 2^-30 * |pos|
        big = max(info.maxmag, F(float(np.max(np.abs(P)))) if len(P) else F(0))
        return MAG_C * ULP * big + truth.extent() * EPS_SCALE
    if info.exact:
        return F(0)
    sc = truth.scale()
    if len(P):
        sc = max(sc, F(float(np.max(np.abs(P)))))
    return sc * EPS_SCALE


# ------------------------------------------------------------------ point sets
def boundary_points(truth, rng, n):
    """exact points on the region's boundary"""
    k = truth.kind
    out = []
    for _ in range(n):
        t = F(rng.randrange(-64, 65), 64)
        if k == 'rect':
            side = rng.randrange(4)
            u, v = [(truth.w / 2, t * truth.h / 2), (-truth.w / 2, t * truth.h / 2), (t * truth.w / 2, truth.h / 2), (t * truth.w / 2, -truth.h / 2)][side]
            out.append((truth.cx + truth.c * u - truth.s * v, truth.cy + truth.s * u + truth.c * v))
        elif k in ('ell', 'circ', 'ann'):
            a, b, h = PYTH[rng.randrange(len(PYTH))]
            cu, su = F(a, h), F(b, h)
            if k == 'ell':
                u, v = truth.rx * cu, truth.ry * su
                out.append((truth.cx + truth.c * u - truth.s * v, truth.cy + truth.s * u + truth.c * v))
            else:
                r = truth.r if k == 'circ' else (truth.ri if rng.random() < 0.5 else truth.ro)
                out.append((truth.cx + r * cu, truth.cy + r * su))
        elif k == 'range':
            v = truth.lo if rng.random() < 0.5 else truth.hi
            o = F(rng.randrange(-40, 41), 4)
            out.append((v, o) if truth.isx else (o, v))
        else:
            i = rng.randrange(len(truth.vs))
            a, b = truth.vs[i], truth.vs[(i + 1) % len(truth.vs)]
            lam = F(rng.randrange(0, 17), 16)
            out.append((a[0] + lam * (b[0] - a[0]), a[1] + lam * (b[1] - a[1])))
    return out


def make_points(truth, rng, n_rand, n_bnd, eps):
    """random points over an enlarged bounding box + points just off the boundary (offsets of a few eps and of 2^-k)"""
    sc = float(truth.scale())
    if truth.kind == 'poly':
        xs = [float(v[0]) for v in truth.vs]
        ys = [float(v[1]) for v in truth.vs]
        lo = (min(xs), min(ys))
        hi = (max(xs), max(ys))
    elif truth.kind == 'range':
        lo = (float(truth.lo) - 2, float(truth.lo) - 2)
        hi = (float(truth.hi) + 2, float(truth.hi) + 2)
    else:
        ext = max(float(getattr(truth, a)) for a in ('w', 'h', 'rx', 'ry', 'r', 'ro') if hasattr(truth, a))
        ext = abs(ext) + 0.5
        lo = (float(truth.cx) - ext, float(truth.cy) - ext)
        hi = (float(truth.cx) + ext, float(truth.cy) + ext)
    pad = 0.15 * max(hi[0] - lo[0], hi[1] - lo[1], 1e-3)
    P = []
    for _ in range(n_rand):
        # coordinates on a 2^-6 lattice: some fall exactly on edges / vertices of dyadic shapes
        x = rng.uniform(lo[0] - pad, hi[0] + pad)
        y = rng.uniform(lo[1] - pad, hi[1] + pad)
        if rng.random() < 0.5:
            x, y = round(x * 64) / 64, round(y * 64) / 64
        P.append((x, y))
    fe = float(eps) if eps > 0 else 1e-12 * sc
    for b in boundary_points(truth, rng, n_bnd):
        off = rng.choice([0.0, 3 * fe, -3 * fe, 50 * fe, -50 * fe, 2.0 ** -20, -2.0 ** -20, 2.0 ** -10, -2.0 ** -10])
        ang = rng.uniform(0, 2 * math.pi)
        P.append((float(b[0]) + off * math.cos(ang), float(b[1]) + off * math.sin(ang)))
    # all coordinates on the 2^-34 lattice: exactly representable, and the model's rationals stay short
    return np.round(np.array(P, dtype=float).reshape(-1, 2) * GRID) / GRID


# ------------------------------------------------------------------ memory layouts
def _layout(X, how):
    """a view / copy with the same logical content as the C-contiguous 2-d (or 3-d) array X but another memory layout"""
    if how == 'C':
        return X
    if how == 'F':
        return np.asfortranarray(X)
    if how == 'T':                      # transposed view of a C-contiguous array
        axes = tuple(range(X.ndim))[::-1]
        return np.ascontiguousarray(X.transpose(axes)).transpose(axes)
    if how == 'neg':                    # negative strides on every axis
        sl = (slice(None, None, -1),) * X.ndim
        return np.ascontiguousarray(X[sl])[sl]
    if how == 'slice':                  # non-contiguous: every second row, every third column of a larger array
        big = np.full(tuple(2 * n for n in X.shape[:-1]) + (3 * X.shape[-1],), np.nan)
        sl = (slice(None, None, 2),) * (X.ndim - 1) + (slice(None, None, 3),)
        big[sl] = X
        return big[sl]
    if how == 'roll':                   # axes rolled: view of an array stored with the last axis first
        return np.ascontiguousarray(np.moveaxis(X, -1, 0)).transpose(tuple(range(1, X.ndim)) + (0,))
    raise ValueError(how)


LAYOUT_COMBOS = [('F', 'F'), ('T', 'T'), ('F', 'C'), ('C', 'T'), ('T', 'F'), ('neg', 'neg'), ('slice', 'slice'), ('neg', 'slice'), ('C', 'neg'),
                 ('roll', 'roll'), ('roll', 'C')]


def layout_problems(fn, arrs, ref):
    """fn(list of arrays) -> boolean array; arrs: 1-d float arrays of equal length; ref = fn on the 1-d arrays.
    Every combination of memory layouts (Fortran order, transposed views, negative strides, non-contiguous slices, mixed between the
    coordinate arrays) of the same logical 2-d / 3-d arrays must give the same answer element by element."""
    out = []
    n = len(arrs[0])
    shapes = []
    if n >= 4:
        m = (n // 2) * 2
        shapes.append((m, (2, m // 2)))
    if n >= 8:
        m = (n // 4) * 4
        shapes.append((m, (2, m // 4, 2)))
    for m, shp in shapes:
        base = [np.ascontiguousarray(a[:m].reshape(shp)) for a in arrs]
        want = np.asarray(ref)[:m].reshape(shp)
        for combo in LAYOUT_COMBOS:
            hows = [combo[i % 2] if i < 2 else combo[0] for i in range(len(arrs))]
            try:
                got = np.asarray(fn([_layout(b, h) for b, h in zip(base, hows)]))
            except Exception as e:
                out.append('%s %s: raised %s' % (shp, '/'.join(hows), type(e).__name__))
                continue
            if got.shape != tuple(shp) or not np.array_equal(got.astype(bool), want):
                out.append('%s %s' % (shp, '/'.join(hows)))
    return out


# ------------------------------------------------------------------ the core comparison
def pmodel(R, lines, nproc=None):
    """R.model over several driver processes at once (the extracted model's exact integer arithmetic is slow; cases are independent)"""
    import os
    from concurrent.futures import ThreadPoolExecutor
    nproc = nproc or max(1, min(8, (os.cpu_count() or 2) - 1))
    if len(lines) < 4 * nproc:
        return R.model(lines)
    size = (len(lines) + 4 * nproc - 1) // (4 * nproc)       # 4 slices per worker: uneven case costs balance out
    parts = [lines[i:i + size] for i in range(0, len(lines), size)]
    with ThreadPoolExecutor(max_workers=nproc) as ex:
        res = list(ex.map(R.model, parts))
    return [o for part in res for o in part]


class Batch:
    """collects cases of one stream, runs the model once, compares the three parties"""

    def __init__(self, R, stream):
        self.R = R
        self.stream = stream
        self.items = []

    def add(self, spec, ops, P, sub=None, extra=None, extra_count=None, mag=False, layouts=True):
        """runs implementation + oracle now, queues the model line"""
        R = self.R
        case = {'stream': self.stream, 'roi': jspec(spec), 'ops': jspec(ops), 'points': P.tolist()}
        if sub is not None:
            case['sub'] = sub
        if mag:
            case['mag'] = True
        try:
            roi, truth, info = run_impl(spec, ops, mag=mag)
            impl = np.asarray(roi.contains(P[:, 0], P[:, 1])).astype(bool)
            ctr = center_pair(roi)
        except Exception as e:  # the implementation must not raise on a defined region
            small = dict(case, ops=jspec(shrink_raise(spec, ops, P)), points=P[:1].tolist())
            R.fail('oracle', small, {'why': 'implementation raised %s: %s' % (type(e).__name__, e)}, key=None)
            R.count(('err', repr(case['roi']), repr(case['ops'])), nontrivial=False, stream=self.stream, kind=spec[0], outcome='raised')
            return None
        eps = case_eps(truth, P, info)
        PE = pts_exact(P)
        orc = [truth.verdict(p, eps) for p in PE]
        # --- oracle: the property itself
        bad = [i for i, (v, b) in enumerate(zip(orc, impl)) if v != 2 and bool(b) != (v == 1)]
        if bad:
            i = bad[0]
            small = dict(case, points=[P[i].tolist()], ops=jspec(shrink_ops(spec, ops, P[i], mag=mag)))
            R.fail('oracle', small, {'why': 'contains() differs from the exact geometry away from the boundary', 'point': P[i].tolist(),
                                    'contains': bool(impl[i]), 'truth_inside': orc[i] == 1, 'eps': float(eps), 'n_bad': len(bad)},
                   key=None)
        # memory layout of the point arrays
        # (the streams added in round 4 skip this: memory layout is independent of rotation histories / magnitudes and is covered by every other stream)
        lp = layout_problems(lambda a_: roi.contains(a_[0], a_[1]), [P[:, 0], P[:, 1]], impl) if layouts else []
        if lp:
            R.fail('oracle', dict(case, layout=lp[0]), {'why': 'contains() depends on the memory layout of the point arrays (compared element by element '
                                                       'with the C-ordered result)', 'layouts': lp[:6]}, key=None)
        # copy() / save-restore inside the sequence: every tracked object must have stayed identical to the latest clone
        if info.problems:
            small_ops = shrink_problem(spec, ops)
            R.fail('oracle', dict(case, ops=jspec(small_ops), points=P[:1].tolist()),
                   {'why': 'a copy / restored region does not behave like the original', 'problems': run_impl(spec, small_ops)[2].problems[:4]}, key=None)
        for it, t_ in enumerate(info.tracks[:-1]):
            other = np.asarray(t_.contains(P[:, 0], P[:, 1])).astype(bool)
            if not np.array_equal(other, impl):
                i = int(np.nonzero(other != impl)[0][0])
                R.fail('oracle', dict(case, points=[P[i].tolist()]),
                       {'why': 'the original and its copy contain different points after the same operations', 'object': it,
                        'original_contains': bool(other[i]), 'copy_contains': bool(impl[i])}, key=None)
                break
        # centre placement after a move
        for before, target, after, mmag, cond, step in info.centres:
            tol = 1e-9 * float(max(truth.scale(), 1))
            if mag:
                if cond is None:
                    continue
                # relative, scale-aware: c * eps * (|pos| + size) * conditioning -- NOT eps * pos^2 / size
                tol = float(MAG_C * ULP) * (mmag + float(truth.extent())) * cond
            if spec[0] == 'range':
                t_ = target[0] if spec[1] == 'x' else target[1]
                tgt = (t_, t_)
            else:
                tgt = target
            if not (abs(after[0] - tgt[0]) <= tol and abs(after[1] - tgt[1]) <= tol):
                R.fail('oracle', dict(case, ops=jspec(ops[:step + 1]), points=P[:1].tolist()) if mag else case,
                       {'why': 'center() after move_to is not the requested centre', 'target': target, 'center': after, 'tol': tol,
                        'off_by': [after[0] - tgt[0], after[1] - tgt[1]]}, key=None)
                break
        # rotating about the centre keeps the reported centre (polygons: the centre is computed from the turned vertices)
        for before, after in info.rot_centres:
            tol = max(1e-9 * float(max(truth.scale(), 1)), poly_center_tol(truth) if truth.kind == 'poly' else 0.0)
            if mag:
                cond = truth.conditioning()
                if cond is None:
                    continue
                tol = float(mag_tol(info, truth, cond))
            if abs(after[0] - before[0]) > tol or abs(after[1] - before[1]) > tol:
                R.fail('oracle', dict(case, points=P[:1].tolist()), {'why': 'center() changed under a rotation about the centre', 'before': before, 'after': after,
                                                                    'tol': tol}, key=None)
                break
        line = enc((1, [q(eps), spec_tree(spec), (0, info.mops), (0, [(0, [q(a), q(b)]) for a, b in PE])]))
        th_impl = getattr(roi, 'theta', None)
        extra = (info.theta_cs, None if th_impl is None else float(th_impl), extra_count or {}, info.maxmag)
        self.items.append((case, line, impl, orc, ctr, eps, truth, spec, ops, extra))
        return roi, truth, info, impl, orc, eps

    def finish(self):
        R = self.R
        if not self.items:
            return
        outs = pmodel(R, [it[1] for it in self.items])
        for (case, line, impl, orc, ctr, eps, truth, spec, ops, extra), o in zip(self.items, outs):
            ncmp = sum(1 for v in orc if v != 2)
            nin = sum(1 for v in orc if v == 1)
            R.count((self.stream, repr(case['roi']), repr(case['ops']), len(orc), hash(tuple(map(tuple, case['points'])))),
                    nontrivial=(0 < nin < len(orc)), stream=self.stream, kind=case['roi'][0], n_ops=len(ops),
                    ops='+'.join(o_[0] for o_ in ops) or 'none', compared_fraction='%d%%' % (10 * int(10 * ncmp / max(1, len(orc)))), **extra[2])
            if is_err(o) or tag(o) != 0:
                R.fail('correspondence', case, {'why': 'model returned an error', 'model': o})
                continue
            mc = kids(o)[0]
            mver = [t_[0] for t_ in kids(kids(o)[1])]
            mcx = F(kids(mc)[0][1][0][0], kids(mc)[0][1][1][0])
            mcy = F(kids(mc)[1][1][0][0], kids(mc)[1][1][1][0])
            bad = [i for i, (v, b) in enumerate(zip(mver, impl)) if v != 2 and bool(b) != (v == 1)]
            if bad:
                i = bad[0]
                R.fail('correspondence', dict(case, points=[case['points'][i]]),
                       {'why': 'model contains != implementation off the band', 'model': mver[i], 'impl': bool(impl[i]), 'oracle': orc[i], 'n_bad': len(bad)})
            bad2 = [i for i, (v, w) in enumerate(zip(mver, orc)) if v != 2 and w != 2 and v != w]
            if bad2:
                i = bad2[0]
                R.fail('correspondence', dict(case, points=[case['points'][i]]),
                       {'why': 'model and exact oracle disagree off the band', 'model': mver[i], 'oracle': orc[i]})
            tol = 1e-9 * float(max(truth.scale(), 1))
            if spec[0] == 'poly' or any(o_[0] == 'topoly' for o_ in ops):
                tol = max(tol, poly_center_tol(truth))
            if case.get('mag'):
                cond = truth.conditioning()
                tol = float('inf') if cond is None else float(MAG_C * ULP * (extra[3] + truth.extent()) * cond)
            # position angle: model (cos, sin) vs the implementation's theta attribute
            if extra is not None and extra[0] is not None and extra[1] is not None and len(kids(o)) > 2:
                mth = kids(o)[2]
                mc = F(kids(mth)[0][1][0][0], kids(mth)[0][1][1][0])
                ms = F(kids(mth)[1][1][0][0], kids(mth)[1][1][1][0])
                if abs(float(mc) - math.cos(extra[1])) > 1e-8 or abs(float(ms) - math.sin(extra[1])) > 1e-8:
                    R.fail('correspondence', case, {'why': 'model position angle != implementation theta', 'model': [float(mc), float(ms)], 'impl_theta': extra[1]})
            if abs(float(mcx) - ctr[0]) > tol or abs(float(mcy) - ctr[1]) > tol:
                R.fail('correspondence', case, {'why': 'model center != implementation center', 'model': [float(mcx), float(mcy)], 'impl': ctr, 'tol': tol})
        self.items = []


def poly_center_tol(truth):
    """float error bound of the centroid formula: ~ ulp * scale^3 / area (cancellation in the shoelace sums)"""
    vs = truth.vs
    n = len(vs)
    a2 = abs(sum(vs[i][0] * vs[(i + 1) % n][1] - vs[i][1] * vs[(i + 1) % n][0] for i in range(n)))
    sc = float(truth.scale())
    if a2 == 0:
        return 1e-9 * sc
    return max(1e-9 * sc, 1e-13 * sc ** 3 / float(a2) * n)


def raises(spec, ops, P):
    try:
        roi, _, _ = run_impl(spec, ops)
        roi.contains(P[:1, 0], P[:1, 1])
        center_pair(roi)
        return False
    except Exception:
        return True


def shrink_raise(spec, ops, P):
    """shortest prefix of the operation sequence on which the implementation still raises"""
    for k in range(len(ops) + 1):
        if raises(spec, ops[:k], P):
            return ops[:k]
    return ops


class Collect:
    """stand-in for Run when one stored case is replayed"""

    def __init__(self):
        self.failures = []

    def fail(self, kind, case, detail, key=None):
        self.failures.append({'kind': kind, 'detail': detail, 'key': key})

    def count(self, *a, **k):
        pass


def shrink_problem(spec, ops):
    """shortest subsequence of ops on which a copy / restored object still diverges"""
    ops = list(ops)

    def bad(o_):
        try:
            return bool(run_impl(spec, o_)[2].problems)
        except Exception:
            return False
    changed = True
    while changed:
        changed = False
        for i in range(len(ops)):
            cand = ops[:i] + ops[i + 1:]
            if ops_valid(spec, cand) and bad(cand):
                ops, changed = cand, True
                break
    return ops


def point_violates(spec, ops, p, mag=False):
    try:
        roi, truth, info = run_impl(spec, ops, mag=mag)
        P = np.array([p], dtype=float)
        impl = bool(np.asarray(roi.contains(P[:, 0], P[:, 1]))[0])
    except Exception:
        return True
    eps = case_eps(truth, P, info)
    v = truth.verdict(pts_exact(P)[0], eps)
    return v != 2 and impl != (v == 1)


def shrink_ops(spec, ops, p, mag=False):
    ops = list(ops)
    changed = True
    while changed:
        changed = False
        for i in range(len(ops)):
            cand = ops[:i] + ops[i + 1:]
            try:
                if point_violates(spec, cand, p, mag=mag):
                    ops = cand
                    changed = True
                    break
            except Exception:
                pass
    return ops


# ------------------------------------------------------------------ spec generators
def dy(rng, lo, hi, den=8):
    return F(rng.randrange(int(lo * den), int(hi * den) + 1), den)


POLYS = {
    'triangle': [(0, 0), (4, 0), (1, 3)],
    'square': [(0, 0), (2, 0), (2, 2), (0, 2)],
    'L': [(0, 0), (4, 0), (4, 1), (1, 1), (1, 3), (0, 3)],
    'arrow': [(0, 0), (2, 1), (4, 0), (2, 4)],
    'comb': [(0, 0), (5, 0), (5, 3), (4, 3), (4, 1), (3, 1), (3, 3), (2, 3), (2, 1), (1, 1), (1, 3), (0, 3)],
    'bowtie': [(0, 0), (4, 3), (4, 0), (0, 3)],
    'thin': [(0, 0), (8, F(1, 16)), (8, F(1, 8)), (0, F(1, 16))],
    'sliver': [(0, 0), (4, 0), (4, F(1, 64)), (0, F(1, 64))],
    'star': [(0, 3), (F(7, 8), 1), (3, 1), (F(5, 4), F(-1, 4)), (2, -2), (0, -1), (-2, -2), (F(-5, 4), F(-1, 4)), (-3, 1), (F(-7, 8), 1)],
    'cw_square': [(0, 0), (0, 2), (2, 2), (2, 0)],
    'segment': [(0, 0), (2, 2)],
    'collinear4': [(0, 0), (1, 1), (2, 2), (3, 3)],
}


def poly_spec(name, closed=False, shift=(0, 0), numpy=False):
    vs = [(F(x) + shift[0], F(y) + shift[1]) for x, y in POLYS[name]]
    if closed:
        vs = vs + [vs[0]]
    return ('poly', tuple(vs)) + (('numpy',) if numpy else ())


def random_poly(rng, n, closed):
    """star-shaped about a centre with random radii on a 2^-3 lattice: concave in general, simple"""
    cx, cy = dy(rng, -4, 4), dy(rng, -4, 4)
    dirs = sorted(rng.sample(range(32), n))
    vs = []
    for d in dirs:
        a = 2 * math.pi * d / 32
        r = rng.choice([1, 1.5, 2, 3, 4, 0.5])
        vs.append((cx + F(round(r * math.cos(a) * 8), 8), cy + F(round(r * math.sin(a) * 8), 8)))
    if closed:
        vs.append(vs[0])
    return ('poly', tuple(vs))


def random_angle(rng):
    u = rng.random()
    if u < 0.15:
        return None
    if u < 0.55:
        # also offsets far outside the isclose window (4.9e-4, 1.9e-6): these must take the general branch
        return ('mult', rng.randrange(-4, 9), rng.choice(DELTAS + [12, -12, 20, -20]))
    a, b, h = rng.choice(PYTH)
    return ('pyth', a, b, h)


def random_spec(rng):
    k = rng.choice(['rect', 'rect', 'ell', 'ell', 'circ', 'ann', 'range', 'poly', 'poly', 'poly'])
    if k == 'rect':
        x0, y0 = dy(rng, -8, 8), dy(rng, -8, 8)
        w = rng.choice([dy(rng, 0.125, 6), F(1, 64), dy(rng, 0.125, 6), F(0)])
        h = rng.choice([dy(rng, 0.125, 6), dy(rng, 0.125, 6), F(1, 128), 8])
        return ('rect', x0, x0 + w, y0, y0 + h, random_angle(rng))
    if k == 'ell':
        rx = rng.choice([dy(rng, 0.125, 5), F(1, 32), dy(rng, 0.125, 5)])
        ry = rng.choice([dy(rng, 0.125, 5), dy(rng, 0.125, 5), F(1, 16), rx])
        return ('ell', dy(rng, -8, 8), dy(rng, -8, 8), rx, ry, random_angle(rng))
    if k == 'circ':
        return ('circ', dy(rng, -8, 8), dy(rng, -8, 8), rng.choice([dy(rng, 0.125, 5), F(1, 64)]))
    if k == 'ann':
        ri = dy(rng, 0.125, 3)
        return ('ann', dy(rng, -8, 8), dy(rng, -8, 8), ri, ri + rng.choice([dy(rng, 0.125, 3), F(1, 64)]))
    if k == 'range':
        lo = dy(rng, -8, 8)
        return ('range', rng.choice('xy'), lo, lo + rng.choice([dy(rng, 0.125, 6), F(1, 256)]))
    u = rng.random()
    if u < 0.5:
        name = rng.choice(sorted(POLYS))
        return poly_spec(name, closed=rng.random() < 0.5, shift=(dy(rng, -4, 4), dy(rng, -4, 4)), numpy=rng.random() < 0.3)
    return random_poly(rng, rng.randrange(3, 11), rng.random() < 0.5)


def random_ops(rng, spec, maxlen):
    n = rng.randrange(0, maxlen + 1)
    ops = []
    kind = spec[0]
    for _ in range(n):
        u = rng.random()
        if rng.random() < 0.2:
            ops.append(rng.choice([('copy',), ('copy',), ('ser',)]))
            continue
        if u < 0.5 or kind in ('circ', 'ann', 'range'):
            ops.append(('move', dy(rng, -8, 8, 4), dy(rng, -8, 8, 4)))
        elif u < 0.9:
            # absolute (rotate_to) or incremental (rotate_by): the accumulated angle of a sequence leaves (-pi, pi) often
            ops.append(('rot' if u < 0.7 else 'rotby', random_angle(rng)))
        elif kind == 'rect':
            ops.append(('topoly',))
            kind = 'poly'
        else:
            ops.append(('move', dy(rng, -8, 8, 4), dy(rng, -8, 8, 4)))
    return tuple(ops)


def poly_center_reliable(spec, ops=None):
    """zero-area vertex sets (collinear points, symmetric bow-ties) used to be excluded from rotations, because center() tested
    `area() == 0` exactly and rounding noise sent the centre to ~1e16 (repaired: the area is compared with the extent); they are
    now generated like every other polygon"""
    return True


def degenerate_poly(spec):
    """zero-area vertex sets: the float test `area() == 0` is only reliable when the arithmetic is exact"""
    vs = spec[1]
    n = len(vs)
    a2 = sum(vs[i][0] * vs[(i + 1) % n][1] - vs[i][1] * vs[(i + 1) % n][0] for i in range(n))
    return a2 == 0


# ------------------------------------------------------------------ streams
def stream_small(R):
    """exhaustive small scope: every class x every angle of the angle set x op sequences of length <= 1 (quick) / 2 (thorough)
    over a small alphabet, on a fixed point lattice plus boundary-hugging points"""
    B = Batch(R, 'small')
    rng = R.subrng('small')
    angs = all_angles(range(-4, 9)) if not R.quick() else all_angles(range(-2, 6))
    base = []
    for a in angs:
        base.append(('rect', F(-1), F(3), F(1, 2), F(5, 2), a))
        base.append(('ell', F(1), F(-1, 2), F(3), F(1), a))
    base += [('rect', F(0), F(2), F(0), F(2), None), ('rect', F(1), F(1), F(0), F(2), None), ('rect', F(0), F(4), F(0), F(1, 64), ('pyth', 3, 4, 5)),
             ('circ', F(1), F(2), F(3, 2)), ('circ', F(0), F(0), F(1, 64)), ('ann', F(1), F(2), F(1), F(5, 2)), ('ann', F(0), F(0), F(2), F(129, 64)),
             ('range', 'x', F(-1), F(2)), ('range', 'y', F(1, 2), F(3, 4)), ('ell', F(0), F(0), F(4), F(1, 32), ('pyth', 5, 12, 13))]
    for name in sorted(POLYS):
        for closed in (False, True):
            for npy in (False, True):
                base.append(poly_spec(name, closed=closed, numpy=npy))
    alphabet = [('move', F(5, 2), F(-3, 4)), ('move', F(0), F(0)),
                ('rot', ('mult', 1, 0)), ('rot', ('mult', 2, 0)), ('rot', ('mult', 4, 0)), ('rot', ('mult', 2, 34)),
                ('rot', ('pyth', 3, 4, 5)), ('rot', ('pyth', -8, -15, 17)), ('topoly',), ('copy',), ('ser',)]
    maxlen = R.pick(1, 2)
    n = 0
    for spec in base:
        seqs = [()]
        for L in range(1, maxlen + 1):
            # copy / restore: single steps here; sequences with them are the business of stream_copy_sequences
            seqs += list(itertools.product(alphabet if L == 1 else alphabet[:9], repeat=L))
        if spec[0] in ('rect', 'ell') and spec[5] is not None and spec[5][0] == 'mult' and spec[5][2] != 0:
            # the near-multiple angles matter for the initial containment test: short sequences only
            seqs = [()] + ([(a,) for a in alphabet[:1] + alphabet[6:7] + alphabet[9:10]] if R.quick() else [(a,) for a in alphabet])
        for iseq, ops in enumerate(seqs):
            if not ops_valid(spec, ops):
                continue
            if len(ops) == 2 and spec[0] in ('rect', 'ell') and (iseq + len(base)) % 2:
                continue          # rectangles / ellipses: every other length-2 sequence (polygons and the round shapes get all of them)
            if spec[0] == 'poly' and ops and not poly_center_reliable(spec, ops):
                continue
            try:
                _, truth, _ = run_impl(spec, ops)
            except Exception:
                truth = Truth.of_spec(spec)
            P = make_points(truth, rng, R.pick(14, 24), R.pick(10, 16), truth.scale() * EPS_SCALE)
            B.add(spec, ops, P)
            n += 1
            if n % 2000 == 0:
                B.finish()
    B.finish()
    R.stream('small', cases=n, exhaustive=True,
             bound='rectangles/ellipses at %d angles (k*pi/2 + {0, +-9e-13, +-1.2e-10, +-1.9e-9, +-1.5e-8}, Pythagorean), %d polygons (open/closed, list/numpy vertices), '
                   'circle/annulus/range; all op sequences of length <= %d over an 11-letter alphabet (move, rotate, to_polygon, copy, save/restore); regions whose initial angle is off a '
                   'multiple of pi/2 by a small offset get sequences of length <= 1' % (len(angs), len(POLYS) * 4, maxlen))


def ops_valid(spec, ops):
    kind = spec[0]
    for o in ops:
        if o[0] in ('rot', 'rotby') and kind in ('circ', 'ann', 'range'):
            return False
        if o[0] == 'topoly':
            if kind != 'rect':
                return False
            kind = 'poly'
    return True


def stream_copy_sequences(R):
    """copy() and the GlueSerializer round trip as operations INSIDE sequences, for every region class: all sequences of length 3 over
    {move, rotate to three absolute angles (one of them 0), to_polygon, copy, save/restore} that contain a copy or a restore.
    All tracked objects (original, copies, restored ones) get every later operation and must keep identical public attributes
    (parameters, theta, centre) and contain the same points; the latest clone is compared with the model and the exact oracle."""
    B = Batch(R, 'copy_sequences')
    rng = R.subrng('copyseq')
    alphabet = [('move', F(3, 2), F(-1, 4)), ('rot', ('pyth', 3, 4, 5)), ('rot', ('mult', 0, 0)), ('rot', ('pyth', 5, 12, 13)),
                ('topoly',), ('copy',), ('ser',)]
    seqs = [sq_ for sq_ in itertools.product(alphabet, repeat=3) if any(o[0] in ('copy', 'ser') for o in sq_)]
    seqs += [(('rot', ('pyth', 3, 4, 5)), ('copy',), ('move', F(1), F(1)), ('rot', ('mult', 1, 0))),
             (('rot', ('pyth', 3, 4, 5)), ('copy',), ('copy',), ('rot', ('mult', 0, 0))),
             (('rot', ('pyth', 3, 4, 5)), ('ser',), ('copy',), ('rot', ('pyth', 5, 12, 13)))]
    n = 0
    for ir, spec in enumerate(STRUCT_REGIONS):
        if spec[0] == 'poly':
            spec = ('poly', tuple((F(a), F(b)) for a, b in spec[1])) + tuple(spec[2:])
        for isq, ops in enumerate(seqs):
            if not ops_valid(spec, ops):
                continue
            if R.quick() and spec[0] in ('circ', 'ann', 'range') and isq % 2:
                continue
            try:
                _, truth, _ = run_impl(spec, ops)
            except Exception:
                truth = Truth.of_spec(spec)
            P = make_points(truth, rng, R.pick(10, 16), R.pick(6, 10), truth.scale() * EPS_SCALE)
            B.add(spec, ops, P)
            n += 1
    B.finish()
    R.stream('copy_sequences', cases=n, exhaustive=True,
             bound='9 regions (every class) x all length-3 sequences over {move, rotate_to 3 angles, to_polygon, copy, save/restore} containing a '
                   'copy or a restore (+ 3 longer ones); 16-26 points')


def stream_random(R):
    B = Batch(R, 'random')
    n = R.pick(700, 2500)
    for i in range(n):
        rng = R.subrng('random', i)
        spec = random_spec(rng)
        ops = random_ops(rng, spec, 4)
        if spec[0] == 'poly' and not poly_center_reliable(spec, ops):
            ops = ()
        try:
            _, truth, _ = run_impl(spec, ops)
        except Exception:
            truth = Truth.of_spec(spec)
        P = make_points(truth, rng, R.pick(24, 40), R.pick(16, 24), truth.scale() * EPS_SCALE)
        B.add(spec, ops, P, sub=i)
        if i % 2000 == 1999:
            B.finish()
    B.finish()
    R.stream('random', cases=n, exhaustive=False, bound='random class, dyadic parameters (thin and zero-width shapes included), <= 4 operations, 40-64 points per case '
             '(lattice points, uniform points, points a few eps / 2^-20 / 2^-10 off the boundary)')


def stream_shapes(R):
    """array shape, broadcasting, copy, save/restore, 100-gon enclosure: implementation against itself and the oracle"""
    from glue.core import roi as R_
    from glue.core.state import GlueSerializer, GlueUnSerializer
    n = R.pick(150, 1200)
    done = 0
    for i in range(n):
        rng = R.subrng('shapes', i)
        spec = random_spec(rng)
        ops = random_ops(rng, spec, 2)
        if spec[0] == 'poly' and not poly_center_reliable(spec, ops):
            ops = ()
        case = {'stream': 'shapes', 'roi': jspec(spec), 'ops': jspec(ops), 'sub': i}
        try:
            roi, truth, info = run_impl(spec, ops)
        except Exception as e:
            R.fail('oracle', case, {'why': 'implementation raised %s: %s' % (type(e).__name__, e)})
            continue
        P = make_points(truth, rng, 48, 16, truth.scale() * EPS_SCALE)
        x, y = P[:, 0].copy(), P[:, 1].copy()
        ref = np.asarray(roi.contains(x, y)).astype(bool)
        probs = []
        # reshape
        for shp in [(8, 8), (2, 4, 8), (64, 1), (1, 64)]:
            got = np.asarray(roi.contains(x.reshape(shp), y.reshape(shp)))
            if got.shape != shp or not np.array_equal(got.ravel(), ref):
                probs.append('reshape %r' % (shp,))
        # broadcast views: an 8 x 8 outer grid from two 8-vectors
        gx, gy = x[:8], y[8:16]
        bx = np.broadcast_to(gx[None, :], (8, 8))
        by = np.broadcast_to(gy[:, None], (8, 8))
        flat = np.asarray(roi.contains(np.ascontiguousarray(bx).ravel(), np.ascontiguousarray(by).ravel())).astype(bool)
        got = np.asarray(roi.contains(bx, by))
        if got.shape != (8, 8) or not np.array_equal(got.ravel(), flat):
            probs.append('broadcast')
        got = np.asarray(roi.contains(np.broadcast_to(x[0], (5, 3)), np.broadcast_to(y[0], (5, 3))))
        if got.shape != (5, 3) or not (got == ref[0]).all():
            probs.append('broadcast scalar')
        # non-contiguous view, scalar input
        got = np.asarray(roi.contains(x[::2], y[::2]))
        if not np.array_equal(got, ref[::2]):
            probs.append('strided')
        got = roi.contains(float(x[3]), float(y[3]))
        if bool(np.asarray(got)) != bool(ref[3]):
            probs.append('scalar')
        # memory layouts
        probs += ['layout ' + v for v in layout_problems(lambda a_: roi.contains(a_[0], a_[1]), [x, y], ref)[:3]]
        # copy
        cp = roi.copy()
        if not np.array_equal(np.asarray(cp.contains(x, y)), ref):
            probs.append('copy')
        # save / restore
        try:
            rest = GlueUnSerializer.loads(GlueSerializer(roi).dumps()).object('__main__')
            if type(rest) is not type(roi) or not np.array_equal(np.asarray(rest.contains(x, y)), ref):
                probs.append('save/restore')
            else:
                c1, c2 = np.asarray(roi.center(), dtype=float), np.asarray(rest.center(), dtype=float)
                if not np.allclose(c1, c2, rtol=0, atol=1e-9 * float(truth.scale())):
                    probs.append('save/restore center')
                if spec[0] != 'range':
                    tx, ty = float(dy(rng, -4, 4)), float(dy(rng, -4, 4))
                    rest.move_to(tx, ty)      # F-C08b: used to raise for closed polygons
                    cp2 = roi.copy()
                    cp2.move_to(tx, ty)
                    if not np.array_equal(np.asarray(rest.contains(x + 0.25, y)), np.asarray(cp2.contains(x + 0.25, y))):
                        probs.append('restored then moved')
        except Exception as e:
            probs.append('save/restore raised %s: %s' % (type(e).__name__, e))
        # polygon approximation of round shapes: same answer outside the discretisation band
        if info.final_kind in ('circ', 'ell', 'ann'):
            vx, vy = roi.to_polygon()
            pg = R_.PolygonalROI(vx, vy)
            pin = np.asarray(pg.contains(x, y)).astype(bool)
            big = max(float(getattr(truth, a)) for a in ('rx', 'ry', 'r', 'ro') if hasattr(truth, a))
            band = F(big * SAGITTA * 1.01) + truth.scale() * EPS_SCALE
            PE = pts_exact(P)
            for j, p in enumerate(PE):
                if truth.near(p, band):
                    continue
                if truth.kind == 'ann' and seg_dist2(p, (truth.cx + truth.ri, truth.cy), (truth.cx + truth.ro, truth.cy)) <= band * band:
                    continue      # the bridge between the inner and the outer ring
                if bool(pin[j]) != truth.inside(p):
                    probs.append('to_polygon point %r' % (P[j].tolist(),))
                    break
        elif info.final_kind in ('range',):
            vx, vy = roi.to_polygon()
            pg = R_.PolygonalROI(vx, vy)
            pin = np.asarray(pg.contains(x, y)).astype(bool)
            PE = pts_exact(P)
            for j, p in enumerate(PE):
                if not truth.near(p, truth.scale() * EPS_SCALE) and bool(pin[j]) != truth.inside(p):
                    probs.append('to_polygon point %r' % (P[j].tolist(),))
                    break
        R.count(('shapes', repr(case['roi']), repr(case['ops'])), nontrivial=bool(ref.any() and not ref.all()), stream='shapes', kind=spec[0])
        done += 1
        if probs:
            R.fail('oracle', dict(case, points=P.tolist()), {'why': 'result depends on array shape / copy / save-restore / polygon approximation', 'problems': probs})
    R.stream('shapes', cases=done, exhaustive=False, bound='per case: 4 reshapes, 2 broadcast views, strided view, scalar input, copy(), GlueSerializer round trip '
             '(+ move_to of the restored region), to_polygon() of round shapes and ranges against the exact region outside the sagitta band')


# increments for rotate_by histories: +-pi/2, pi, 3pi/2, Pythagorean angles 0.927, 2.214, -0.644, -2.06, pi + 1.2e-10, 0.927 + 2 pi, 2.214 - 2 pi
BY_STEPS = [('mult', 1, 0), ('pyth', -3, 4, 5), ('pyth', 4, -3, 5), ('mult', 2, 0), ('pyth', 3, 4, 5), ('pyth', -8, -15, 17),
            ('mult', -1, 0), ('mult', 3, 0), ('mult', 2, 34), ('pyth', 3, 4, 5, 1), ('pyth', -3, 4, 5, -1)]
# regions without a half-turn symmetry (L shape, scalene triangle, closed numpy quadrilateral), and the two classes that keep theta as a parameter
BY_REGIONS = [
    ('poly', ((F(0), F(0)), (F(3), F(0)), (F(3), F(1)), (F(1), F(1)), (F(1), F(2)), (F(0), F(2)))),
    ('poly', ((F(-1), F(-1)), (F(3), F(-1, 2)), (F(1, 4), F(2)))),
    ('poly', ((F(0), F(0)), (F(4), F(0)), (F(5, 2), F(1)), (F(1, 2), F(3)), (F(0), F(0))), 'numpy'),
    ('rect', F(-1), F(3), F(0), F(1), None),
    ('rect', F(-1), F(1), F(-1, 2), F(1, 2), ('pyth', 5, 12, 13)),
    ('ell', F(1), F(0), F(3), F(1), ('mult', 1, 0)),
]


def acc_angle(spec, ops):
    """the accumulated position angle (float) at every step of a history, as the property means it: rotate_to sets it, rotate_by adds to it"""
    th = ang_theta(spec_angle(spec)) or 0.0
    out = []
    for o in ops:
        if o[0] == 'rot':
            th = ang_theta(o[1]) or 0.0
        elif o[0] == 'rotby':
            th = th + (ang_theta(o[1]) or 0.0)
        elif o[0] in ('topoly',) or (o[0] == 'ser' and spec[0] == 'poly'):
            th = 0.0
        out.append(th)
    return out


KNOWN_PROJ_BY = 'projected-rotate_by-ignores-wrapped-theta'


def projected_rotate_by(R, rng):
    """Projected3dROI.rotate_by(d) must turn the wrapped region by d about its centre.  The wrapper has no theta attribute, so Roi.rotate_by reads 0.0
    and calls rotate_to(d): right while the wrapped region's position angle is 0, wrong otherwise (known finding, keyed ONLY when the wrapped angle was
    non-zero AND the result is exactly the region rotate_to(d) gives)."""
    from glue.core import roi as R_
    n = 0
    for ir, spec in enumerate(BY_REGIONS):
        for pre in ((), (('rot', ('pyth', 3, 4, 5)),), (('rotby', ('mult', 2, 0)),)):
            for a in BY_STEPS:
                case = {'stream': 'rotate_histories', 'projected': True, 'roi': jspec(spec), 'ops': jspec(pre + (('rotby', a),))}
                try:
                    roi, _, info0 = run_impl(spec, pre)
                    _, truth, info = run_impl(spec, pre + (('rotby', a),))
                    _, truth_to, _ = run_impl(spec, pre + (('rot', a),))
                    proj = R_.Projected3dROI(roi_2d=roi, projection_matrix=np.eye(4))
                    proj.rotate_by(ang_theta(a))
                    P = make_points(truth, rng, 12, 6, truth.scale() * EPS_SCALE)
                    got = np.asarray(proj.contains(P[:, 0], P[:, 1])).astype(bool)
                except Exception as e:
                    R.fail('oracle', case, {'why': 'implementation raised %s: %s' % (type(e).__name__, e)}, key=None)
                    continue
                eps = case_eps(truth, P, info)
                PE = pts_exact(P)
                orc = [truth.verdict(p, eps) for p in PE]
                bad = [i for i, (v, b) in enumerate(zip(orc, got)) if v != 2 and bool(b) != (v == 1)]
                n += 1
                R.count(('projby', ir, repr(pre), repr(a)), nontrivial=bool(got.any() and not got.all()), stream='rotate_histories', kind='projected+' + spec[0],
                        wrapped_theta_zero=info0.theta_cs in (None, (F(1), F(0))))
                if bad:
                    # the known defect: the wrapped angle was non-zero and the region is exactly what rotate_to(d) leaves
                    orc_to = [truth_to.verdict(p, eps) for p in PE]
                    as_rotate_to = all(v == 2 or bool(b) == (v == 1) for v, b in zip(orc_to, got))
                    th0 = info0.theta_cs
                    known = th0 is not None and th0 != (F(1), F(0)) and as_rotate_to
                    i = bad[0]
                    R.fail('oracle', dict(case, points=[P[i].tolist()]),
                           {'why': 'Projected3dROI.rotate_by(d) did not turn the wrapped region by d about its centre', 'contains': bool(got[i]),
                            'truth_inside': orc[i] == 1, 'acts_like_rotate_to': as_rotate_to, 'n_bad': len(bad)}, key=KNOWN_PROJ_BY if known else None)
    return n


def stream_rotate_histories(R):
    """histories of incremental rotations: rotate_by / rotate_to steps whose accumulated angle leaves (-pi, pi) and (-2pi, 2pi), on regions
    without half-turn symmetry (and on rectangles / ellipses).  Every rotate_by(d) must turn the region by d about its centre (exact oracle:
    the polygon's vertices are turned by the exact rational rotation; rectangle / ellipse: the exact angle is the composition)."""
    B = Batch(R, 'rotate_histories')
    rng = R.subrng('rothist')
    seqs = []
    n2, n3 = R.pick(6, 8), R.pick(4, 6)
    for L, alphabet in ((1, BY_STEPS), (2, BY_STEPS[:n2]), (3, BY_STEPS[:n3])):
        for sq_ in itertools.product(alphabet, repeat=L):
            seqs.append(tuple(('rotby', a) for a in sq_))
    # the same increment repeated: 0.927 x 8 = 7.4 > 2 pi, -2.06 x 4 = -8.2 < -2 pi, pi/2 x 9, pi x 3
    for a, k in [(('pyth', 3, 4, 5), 4), (('pyth', 3, 4, 5), 8), (('pyth', -8, -15, 17), 4), (('mult', 1, 0), 5), (('mult', 1, 0), 9), (('mult', 2, 0), 3),
                 (('mult', -1, 0), 6), (('pyth', 4, -3, 5), 6), (('pyth', 4, -3, 5), 11)]:
        seqs.append(tuple(('rotby', a) for _ in range(k)))
    # mixed with absolute rotations, moves, copies and save / restore
    A, Bq, Cq = ('pyth', 3, 4, 5), ('pyth', -3, 4, 5), ('mult', 2, 0)
    seqs += [(('rot', Bq), ('rotby', A)), (('rot', Bq), ('rotby', Bq)), (('rot', Cq), ('rotby', A), ('rotby', A)), (('rot', ('mult', 3, 0)), ('rotby', Cq)),
             (('rot', ('pyth', 3, 4, 5, 1)), ('rotby', A)), (('rot', ('mult', 5, 0)), ('rotby', ('mult', -1, 0)), ('rotby', A)),
             (('rotby', Bq), ('copy',), ('rotby', Bq)), (('rotby', Bq), ('ser',), ('rotby', Bq)), (('rotby', Bq), ('move', F(5, 2), F(-1)), ('rotby', Bq)),
             (('rotby', Bq), ('rotby', Bq), ('rot', None)), (('rotby', Cq), ('rotby', A), ('rot', A)), (('rotby', Bq), ('rotby', Bq), ('rot', ('mult', 0, 0))),
             (('move', F(-3), F(2)), ('rotby', Cq), ('rotby', A), ('move', F(0), F(0))), (('rotby', ('mult', 4, 0)), ('rotby', A)),
             (('rotby', ('mult', 0, 41)), ('rotby', Bq), ('rotby', Bq)), (('topoly',), ('rotby', Bq), ('rotby', Bq)),
             (('rot', A), ('topoly',), ('rotby', Bq), ('rotby', A))]
    n = 0
    for ir, spec in enumerate(BY_REGIONS):
        for isq, ops in enumerate(seqs):
            if not ops_valid(spec, ops):
                continue
            if len(ops) == 3 and all(o[0] == 'rotby' for o in ops) and len(set(ops)) > 1:
                # length-3 products: all of them for the L shape and the triangle; the closed quadrilateral gets every other one; rectangles /
                # ellipses keep theta as a parameter (theorem rotate_by_collapse): none in the quick tier, a third otherwise
                if (ir == 2 and isq % 2) or (spec[0] != 'poly' and (R.quick() or (isq + ir) % 3)):
                    continue
            try:
                _, truth, _ = run_impl(spec, ops)
            except Exception:
                truth = Truth.of_spec(spec)
            P = make_points(truth, rng, R.pick(12, 20), R.pick(6, 10), truth.scale() * EPS_SCALE)
            acc = acc_angle(spec, ops)
            wraps = max([0] + [int(abs(a) // math.pi) for a in acc])
            B.add(spec, ops, P, extra_count={'max_half_turns_passed': min(wraps, 4)}, layouts=False)
            n += 1
    B.finish()
    n += projected_rotate_by(R, rng)
    R.stream('rotate_histories', cases=n, exhaustive=True,
             bound='6 regions (L shape, scalene triangle, closed numpy quadrilateral: no half-turn symmetry; 2 rectangles, ellipse) x all rotate_by histories of '
                   'length <= 3 over %d / %d increments (11 for length 1: +-pi/2, pi, 3pi/2, Pythagorean 0.93, 2.21, -0.64, -2.06, pi+1.2e-10, 0.93+2pi, 2.21-2pi), '
                   'one increment repeated up to 11 times (accumulated angle up to 4.5 pi and below -2 pi), 17 histories mixing rotate_to / move / copy / '
                   'save-restore / to_polygon with rotate_by; Projected3dROI.rotate_by on wrapped regions' % (n2, n3))



# ------------------------------------------------------------------ large magnitudes
# irregular shapes whose centroid differs from the mean of their vertices (unit-ish size, concave, >= 4 vertices)
MAG_SHAPES = {
    'hexagon': [(0, 0), (2, 0), (2, 1), (F(9, 8), 1), (1, F(5, 16)), (0, F(3, 2))],
    'L': [(0, 0), (4, 0), (4, 1), (1, 1), (1, 3), (0, 3)],
    'arrow': [(0, 0), (2, 1), (4, 0), (2, 4)],
    'comb': [(0, 0), (5, 0), (5, 3), (4, 3), (4, 1), (3, 1), (3, 3), (2, 3), (2, 1), (1, 1), (1, 3), (0, 3)],
    'kite': [(0, 0), (3, F(1, 2)), (F(7, 2), 3), (F(1, 2), 1)],
    'star': POLYS['star'],
    'quad': [(0, 0), (4, 0), (F(5, 2), 1), (F(1, 2), 3)],
}


def mag_pos(rng):
    """a position with |coordinate| between 1e3 and 1e9 on at least one axis (the other may be small)"""
    def one(big):
        if big:
            return rng.choice([-1, 1]) * rng.uniform(1, 10) * 10.0 ** rng.randrange(3, 10)
        return rng.choice([0.0, rng.uniform(-8, 8), rng.uniform(-1e3, 1e3)])
    u = rng.random()
    return (one(True), one(u < 0.6)) if rng.random() < 0.5 else (one(u < 0.6), one(True))


def fl(x):
    return F(float(x))


def mag_spec(rng, far):
    """a region of size 2^j (j in -10 .. 10) at a position of magnitude up to 1e9 (far) or near the origin; every parameter is the exact
    value of the float handed to the implementation.  position / size <= 2^36 so that the rounding of the coordinates stays below size / 2^10."""
    while True:
        size = 2.0 ** rng.choice([-10, -7, -3, 0, 0, 3, 7, 10])
        px, py = mag_pos(rng) if far else (rng.uniform(-4, 4) * size, rng.uniform(-4, 4) * size)
        if max(abs(px), abs(py)) <= size * 2.0 ** 36:
            break
    k = rng.choice(['poly', 'poly', 'poly', 'poly', 'rect', 'ell', 'circ', 'ann', 'range'])
    if k == 'poly':
        if rng.random() < 0.7:
            name = rng.choice(sorted(MAG_SHAPES))
            shape = [(F(x), F(y)) for x, y in MAG_SHAPES[name]]
            if rng.random() < 0.3:
                shape = shape[::-1]
        else:
            while True:
                shape = list(random_poly(rng, rng.randrange(4, 10), False)[1])
                t = Truth('poly', vs=shape)
                if t.conditioning() is not None and t.conditioning() <= 8 * len(shape):
                    break
        vs = [(fl(px + size * float(x)), fl(py + size * float(y))) for x, y in shape]
        if rng.random() < 0.4:
            vs = vs + [vs[0]]
        return ('poly', tuple(vs)) + (('numpy',) if rng.random() < 0.3 else ())
    a, b = size * rng.choice([0.5, 1, 1.5, 3]), size * rng.choice([0.25, 1, 2])
    if k == 'rect':
        x0, y0 = fl(px), fl(py)
        return ('rect', x0, fl(float(x0) + a), y0, fl(float(y0) + b), random_angle(rng))
    if k == 'ell':
        return ('ell', fl(px), fl(py), fl(a), fl(b), random_angle(rng))
    if k == 'circ':
        return ('circ', fl(px), fl(py), fl(a))
    if k == 'ann':
        return ('ann', fl(px), fl(py), fl(a), fl(a + b))
    lo = fl(px)
    return ('range', rng.choice('xy'), lo, fl(float(lo) + a))


def mag_ops(rng, spec, far):
    """<= 4 operations; a region that starts near the origin is first moved far away, so that every later operation (a second move_to,
    rotate_to / rotate_by about the centre, copy) works on coordinates much larger than the region"""
    ops = []
    kind = spec[0]
    if not far:
        ops.append(('move',) + tuple(fl(v) for v in mag_pos(rng)))
    for _ in range(rng.randrange(1, 4)):
        u = rng.random()
        if u < 0.45 or (kind in ('circ', 'ann', 'range') and u < 0.9):
            t = mag_pos(rng) if rng.random() < 0.7 else (rng.uniform(-8, 8), rng.uniform(-8, 8))
            ops.append(('move', fl(t[0]), fl(t[1])))
        elif u < 0.9:
            a, b, h = rng.choice(PYTH[:14])
            ops.append((rng.choice(['rot', 'rotby']), ('pyth', a, b, h)))
        else:
            ops.append(('copy',))
    return tuple(ops)


def stream_magnitude(R):
    """regions much smaller than their distance from the origin (positions 1e3 .. 1e9, sizes 2^-10 .. 2^10): move_to must put the reported
    centre at the target and contains must follow, up to the float rounding of the coordinates -- c * eps * (|pos| + size) times the
    conditioning of the centroid --, not up to eps * pos^2 / size (what a shoelace sum over unshifted coordinates would give)."""
    B = Batch(R, 'magnitude')
    n = R.pick(160, 1500)
    done = 0
    for i in range(n):
        rng = R.subrng('magnitude', i)
        far = rng.random() < 0.5
        spec = mag_spec(rng, far)
        ops = mag_ops(rng, spec, far)
        if not ops_valid(spec, ops):
            ops = tuple(o for o in ops if o[0] not in ('rot', 'rotby'))
        try:
            _, truth, info = run_impl(spec, ops, mag=True)
        except Exception:
            truth, info = Truth.of_spec(spec), None
        eps = case_eps(truth, np.zeros((0, 2)), info) if info is not None else truth.scale() * EPS_SCALE
        P = make_points(truth, rng, R.pick(12, 20), R.pick(8, 12), eps)
        ratio = float(truth.scale() / truth.extent()) if truth.extent() else 0.0
        B.add(spec, ops, P, sub=i, mag=True, extra_count={'log10_pos_over_size': int(math.log10(max(ratio, 1.0)))}, layouts=False)
        done += 1
    B.finish()
    R.stream('magnitude', cases=done, exhaustive=False,
             bound='positions 1e3 .. 1e9 (either sign, one or both axes) x sizes 2^-10 .. 2^10 with position / size <= 2^36; irregular / concave polygons with >= 4 '
                   'vertices (7 named shapes, random star-shaped ones; open / closed / numpy), rectangles, ellipses, circles, annuli, ranges; <= 4 operations '
                   '(move_to far / near, rotate_to, rotate_by, copy); comparison band and centre tolerance = 32 eps (|pos| + size) [x conditioning of the centroid]')



def matrices(rng):
    """4x4 projection matrices with dyadic entries; perspective rows keep w >= 1/2 on the cube |x|,|y|,|z| <= 4"""
    def d():
        return dy(rng, -2, 2, 4)
    u = rng.random()
    if u < 0.25:
        m = [[F(1), F(0), F(0), F(0)], [F(0), F(1), F(0), F(0)], [F(0), F(0), F(1), F(0)], [F(0), F(0), F(0), F(1)]]
    elif u < 0.6:
        m = [[d(), d(), d(), d()], [d(), d(), d(), d()], [d(), d(), d(), d()], [F(0), F(0), F(0), rng.choice([F(1), F(2), F(1, 2)])]]
    else:
        m = [[d(), d(), d(), d()], [d(), d(), d(), d()], [d(), d(), d(), d()], [F(0), F(rng.randrange(-1, 2), 16), F(rng.randrange(-1, 2), 8), F(2)]]
    return m


def proj_oracle(m, xyz, truth, info):
    """exact homogeneous projection (M @ (x, y, z, 1), then x/w, y/w with the sign of w kept, as the code divides) and the exact 2-d verdict.
    Returns (eps, verdicts, screen points); a point with w == 0 gets verdict 2 (not compared)"""
    scr = []
    big = F(0)
    for x, y, z in xyz:
        X, Y, Z_ = F(float(x)), F(float(y)), F(float(z))
        h = [r[0] * X + r[1] * Y + r[2] * Z_ + r[3] for r in m]
        if h[3] == 0:
            scr.append(None)
            continue
        p = (h[0] / h[3], h[1] / h[3])
        big = max(big, abs(p[0]), abs(p[1]))
        scr.append(p)
    ident = all(m[a][b] == (1 if a == b else 0) for a in range(4) for b in range(4))
    eps = F(0) if (info.exact and ident) else max(truth.scale(), big) * EPS_SCALE
    verd = [2 if p is None else truth.verdict(p, eps) for p in scr]
    return eps, verd, [(F(0), F(0)) if p is None else p for p in scr]


def stream_projected(R):
    from glue.core import roi as R_
    import glue.core.roi as roi_mod
    n = R.pick(120, 800)
    lines, items = [], []
    real_iter = roi_mod.iterate_chunks
    for i in range(n):
        rng = R.subrng('proj', i)
        spec = random_spec(rng)
        while spec[0] == 'range':
            spec = random_spec(rng)
        ops = random_ops(rng, spec, 3)
        if spec[0] == 'poly' and not poly_center_reliable(spec, ops):
            ops = ()
        m = matrices(rng)
        case = {'stream': 'projected', 'roi': jspec(spec), 'ops': jspec(ops), 'matrix': jspec(m), 'sub': i}
        try:
            roi, truth, info = run_impl(spec, ops)
            npts = 60
            xyz = np.array([[float(dy(rng, -4, 4, 16)) for _ in range(3)] for _ in range(npts)])
            # aim about half of the points at the region: solve for a screen point when the matrix is invertible
            proj = R_.Projected3dROI(roi_2d=roi, projection_matrix=np.array([[float(v) for v in row] for row in m]))
            chunk = rng.choice([1, 7, 16, 1000000])
            roi_mod.iterate_chunks = (lambda shape, n_max=None, _c=chunk: real_iter(shape, n_max=min(n_max, _c)))
            shp = rng.choice([(60,), (6, 10), (3, 4, 5), (60, 1)])
            impl = np.asarray(proj.contains3d(xyz[:, 0].reshape(shp), xyz[:, 1].reshape(shp), xyz[:, 2].reshape(shp)))
            roi_mod.iterate_chunks = real_iter
            one = np.asarray(proj.contains3d(xyz[:, 0], xyz[:, 1], xyz[:, 2])).astype(bool)
        except Exception as e:
            roi_mod.iterate_chunks = real_iter
            R.fail('oracle', case, {'why': 'implementation raised %s: %s' % (type(e).__name__, e)})
            continue
        if impl.shape != tuple(shp) or not np.array_equal(impl.ravel().astype(bool), one):
            R.fail('oracle', dict(case, points=xyz.tolist()), {'why': 'contains3d depends on chunking / shape', 'chunk': chunk, 'shape': shp})
        eps, overd, orc = proj_oracle(m, xyz, truth, info)
        bad = [j for j, (v, b) in enumerate(zip(overd, one)) if v != 2 and bool(b) != (v == 1)]
        if bad:
            j = bad[0]
            R.fail('oracle', dict(case, points=[xyz[j].tolist()]), {'why': 'contains3d differs from exact projection + exact geometry', 'contains3d': bool(one[j]),
                                                                   'truth_inside': overd[j] == 1, 'screen': [float(orc[j][0]), float(orc[j][1])]})
        lines.append(enc((2, [q(eps), (0, [(0, [q(v) for v in row]) for row in m]), spec_tree(spec), (0, info.mops),
                              (0, [(0, [q(F(float(a))), q(F(float(b))), q(F(float(c)))]) for a, b, c in xyz])])))
        items.append((case, one, overd, xyz))
        R.count(('proj', repr(case['roi']), repr(case['ops']), repr(case['matrix'])), nontrivial=bool(one.any() and not one.all()), stream='projected',
                kind=spec[0], chunk=chunk)
    outs = pmodel(R, lines)
    for (case, one, overd, xyz), o in zip(items, outs):
        if is_err(o):
            R.fail('correspondence', case, {'why': 'model error', 'model': o})
            continue
        mver = [t_[0] for t_ in kids(o)]
        bad = [j for j, (v, b) in enumerate(zip(mver, one)) if v != 2 and bool(b) != (v == 1)]
        if bad:
            j = bad[0]
            R.fail('correspondence', dict(case, points=[xyz[j].tolist()]), {'why': 'model contains3d != implementation', 'model': mver[j], 'impl': bool(one[j])})
    # several real chunks (n_max = 10^6 as in the code): thorough tier only
    nbig = 0
    if not R.quick():
        for i in range(4):
            rng = R.subrng('projbig', i)
            spec = [('circ', F(0), F(0), F(3, 2)), ('rect', F(-1), F(2), F(-1), F(1), ('pyth', 3, 4, 5)), poly_spec('L'), ('ell', F(0), F(0), F(3), F(1), ('mult', 1, 27))][i]
            m = matrices(rng)
            roi, truth, info = run_impl(spec, ())
            proj = R_.Projected3dROI(roi_2d=roi, projection_matrix=np.array([[float(v) for v in row] for row in m]))
            nr, nc = 1100, 1000
            gx = np.array([float(dy(rng, -4, 4, 64)) for _ in range(nc)])
            gy = np.array([float(dy(rng, -4, 4, 64)) for _ in range(nr)])
            X = np.broadcast_to(gx[None, :], (nr, nc))
            Y = np.broadcast_to(gy[:, None], (nr, nc))
            Zz = np.ascontiguousarray(np.broadcast_to((gx * 0.5)[None, :], (nr, nc)))
            full = np.asarray(proj.contains3d(X, Y, Zz))
            rows = np.array([np.asarray(proj.contains3d(X[r], Y[r], Zz[r])) for r in range(nr)])
            nbig += 1
            R.count(('projbig', i), nontrivial=bool(full.any() and not full.all()), stream='projected_big', kind=spec[0])
            if full.shape != (nr, nc) or not np.array_equal(full, rows):
                R.fail('oracle', {'stream': 'projected_big', 'roi': jspec(spec), 'matrix': jspec(m), 'sub': i},
                       {'why': 'contains3d over 1.1e6 points (several chunks) differs from the row-by-row evaluation', 'n_diff': int((full != rows).sum())})
    R.stream('projected', cases=len(items), big_cases=nbig, exhaustive=False,
             bound='identity / affine / perspective dyadic matrices, 60 points, shapes (60,),(6,10),(3,4,5),(60,1); chunk limit lowered to 1, 7, 16 through '
                   'glue.core.roi.iterate_chunks in addition to the real 10^6; thorough tier: 1100 x 1000 broadcast grid through the real chunking')


def mat_mul(A, B):
    return [[sum(A[i][k] * B[k][j] for k in range(4)) for j in range(4)] for i in range(4)]


def mat_eye():
    return [[F(1 if i == j else 0) for j in range(4)] for i in range(4)]


def structured_matrices():
    """(name, matrix) pairs: perspective rows (0,0,p,1) and (px,py,pz,1), with / without a translation column, scaled, composed
    with rotations (Pythagorean, so every entry is rational) on either side, next to the affine building blocks themselves.
    The code uses M @ (x, y, z, 1): perspective terms are the last ROW, the translation is the last COLUMN."""
    def persp(row):
        m = mat_eye()
        m[3] = [F(v) for v in row] + [F(1)]
        return m

    def trans(t):
        m = mat_eye()
        for i in range(3):
            m[i][3] = F(t[i])
        return m

    def rotz(c, s_):
        m = mat_eye()
        m[0][0], m[0][1], m[1][0], m[1][1] = c, -s_, s_, c
        return m

    def rotx(c, s_):
        m = mat_eye()
        m[1][1], m[1][2], m[2][1], m[2][2] = c, -s_, s_, c
        return m

    def scaled(k, m):
        return [[F(k) * v for v in row] for row in m]
    rows = [('p(0,0,1/2)', (0, 0, F(1, 2))), ('p(0,0,-1/4)', (0, 0, F(-1, 4))), ('p(0,0,1/8)', (0, 0, F(1, 8))),
            ('p(1/8,-1/16,1/4)', (F(1, 8), F(-1, 16), F(1, 4))), ('p(-1/4,1/8,0)', (F(-1, 4), F(1, 8), 0))]
    T = trans((1, F(-1, 2), 2))
    Rz = rotz(F(3, 5), F(4, 5))
    Rx = rotx(F(5, 13), F(12, 13))
    perm = [[F(0), F(1), F(0), F(0)], [F(0), F(0), F(1), F(0)], [F(1), F(0), F(0), F(0)], [F(0), F(0), F(0), F(1)]]
    out = [('identity', mat_eye()), ('translation', T), ('rot_z', Rz), ('rot_x', Rx), ('permutation', perm), ('2*identity', scaled(2, mat_eye())),
           ('rot_z*translation', mat_mul(Rz, T))]
    for name, row in rows:
        P = persp(row)
        out += [(name, P), (name + '*T', mat_mul(P, T)), ('T*' + name, mat_mul(T, P)), ('2*' + name, scaled(2, P)), ('-1/2*' + name, scaled(F(-1, 2), P)),
                (name + '*rot_z', mat_mul(P, Rz)), ('rot_z*' + name, mat_mul(Rz, P)), (name + '*rot_x', mat_mul(P, Rx)),
                ('rot_x*' + name + '*T', mat_mul(mat_mul(Rx, P), T))]
    # the implementation receives floats: the matrix of the case is what those floats are, exactly
    return [(name, [[F(float(v)) for v in row] for row in m]) for name, m in out]


STRUCT_REGIONS = [
    ('rect', F(-1), F(2), F(-1), F(1), None),
    ('rect', F(-1), F(1), F(-1, 2), F(1, 2), ('pyth', 3, 4, 5)),
    ('ell', F(0), F(0), F(2), F(1), ('pyth', 5, 12, 13)),
    ('circ', F(0), F(0), F(3, 2)),
    ('ann', F(0), F(0), F(1, 2), F(2)),
    ('range', 'x', F(-1), F(1)),
    ('range', 'y', F(-1, 2), F(3, 2)),
    ('poly', ((F(-1), F(-1)), (F(2), F(-1)), (F(2), F(0)), (F(0), F(0)), (F(0), F(2)), (F(-1), F(2)))),
    ('poly', ((F(-1), F(-1)), (F(1), F(-4, 5)), (F(1, 5), F(11, 10)), (F(-1), F(-1))), 'numpy'),
]


def stream_projected_structured(R):
    """Projected3dROI over a structured family of projection matrices x every 2-d region class it can wrap"""
    from glue.core import roi as R_
    mats = structured_matrices()
    lines, items = [], []
    for im, (name, m) in enumerate(mats):
        for ir, spec in enumerate(STRUCT_REGIONS):
            rng = R.subrng('projs', im, ir)
            if spec[0] == 'poly':
                spec = ('poly', tuple((F(float(a)), F(float(b))) for a, b in spec[1])) + tuple(spec[2:])
            case = {'stream': 'projected_structured', 'roi': jspec(spec), 'ops': [], 'matrix_name': name, 'matrix': jspec(m)}
            npts = R.pick(30, 48)
            xyz = np.array([[float(dy(rng, -3, 3, 16)), float(dy(rng, -3, 3, 16)), float(dy(rng, -3, 6, 16))] for _ in range(npts)])
            try:
                roi, truth, info = run_impl(spec, ())
                mf = np.array([[float(v) for v in row] for row in m])
                proj = R_.Projected3dROI(roi_2d=roi, projection_matrix=mf)
                one = np.asarray(proj.contains3d(xyz[:, 0], xyz[:, 1], xyz[:, 2])).astype(bool)
                two = np.asarray(proj.contains3d(xyz[:, 0].reshape(-1, 6), xyz[:, 1].reshape(-1, 6), xyz[:, 2].reshape(-1, 6))).astype(bool)
            except Exception as e:
                R.fail('oracle', case, {'why': 'implementation raised %s: %s' % (type(e).__name__, e)})
                continue
            if not np.array_equal(two.ravel(), one):
                R.fail('oracle', dict(case, points=xyz.tolist()), {'why': 'contains3d depends on the array shape'})
            lp = layout_problems(lambda a_: proj.contains3d(a_[0], a_[1], a_[2]), [xyz[:, 0], xyz[:, 1], xyz[:, 2]], one)
            lp += ['forwarded contains: ' + v for v in layout_problems(lambda a_: proj.contains(a_[0], a_[1]), [xyz[:, 0], xyz[:, 1]],
                                                                       np.asarray(proj.contains(xyz[:, 0], xyz[:, 1])))]
            if lp:
                R.fail('oracle', dict(case, points=xyz.tolist(), layout=lp[0]), {'why': 'Projected3dROI result depends on the memory layout of the point arrays', 'layouts': lp[:6]})
            eps, overd, scr = proj_oracle(m, xyz, truth, info)
            bad = [j for j, (v, b) in enumerate(zip(overd, one)) if v != 2 and bool(b) != (v == 1)]
            if bad:
                j = bad[0]
                R.fail('oracle', dict(case, points=[xyz[j].tolist()]),
                       {'why': 'contains3d differs from the exact homogeneous projection (x/w, y/w) + exact geometry', 'contains3d': bool(one[j]),
                        'truth_inside': overd[j] == 1, 'screen': [float(scr[j][0]), float(scr[j][1])], 'n_bad': len(bad)})
            lines.append(enc((2, [q(eps), (0, [(0, [q(v) for v in row]) for row in m]), spec_tree(spec), (0, []),
                                  (0, [(0, [q(F(float(a))), q(F(float(b))), q(F(float(c)))]) for a, b, c in xyz])])))
            items.append((case, one, overd, xyz))
            ncmp = [b for v, b in zip(overd, one) if v != 2]
            R.count(('projs', name, ir), nontrivial=bool(any(ncmp) and not all(ncmp)), stream='projected_structured', kind=spec[0],
                    matrix=name.split('*')[0] if name.startswith('p(') else name)
    outs = pmodel(R, lines)
    for (case, one, overd, xyz), o in zip(items, outs):
        if is_err(o):
            R.fail('correspondence', case, {'why': 'model error', 'model': o})
            continue
        mver = [t_[0] for t_ in kids(o)]
        bad = [j for j, (v, b) in enumerate(zip(mver, one)) if v != 2 and bool(b) != (v == 1)]
        if bad:
            j = bad[0]
            R.fail('correspondence', dict(case, points=[xyz[j].tolist()]), {'why': 'model contains3d != implementation', 'model': mver[j], 'impl': bool(one[j])})
        bad2 = [j for j, (v, w) in enumerate(zip(mver, overd)) if v != 2 and w != 2 and v != w]
        if bad2:
            j = bad2[0]
            R.fail('correspondence', dict(case, points=[xyz[j].tolist()]), {'why': 'model and exact oracle disagree', 'model': mver[j], 'oracle': overd[j]})
    R.stream('projected_structured', cases=len(items), matrices=len(mats), exhaustive=True,
             bound='%d structured matrices (identity, translation, rotations, permutation, scaling; perspective rows (0,0,p,1) and (px,py,pz,1) alone, '
                   'with the translation on either side, scaled by 2 and -1/2, composed with rotations on either side) x 9 regions (all 2-d classes), 30 (quick) / 48 points on a 1/16 lattice, '
                   'w of either sign' % len(mats))


def stream_categorical(R):
    from glue.core import roi as R_
    from glue.core.state import GlueSerializer, GlueUnSerializer
    cases = []
    for r in range(0, 4):
        for cats in itertools.permutations(range(5), r):
            cases.append(cats)
    cases += [(0, 0, 1), (2, 2, 2), (4, 3, 3, 0)]
    lines = []
    for cats in cases:
        lines.append(enc((3, [(0, sorted(set(cats))), (0, list(range(5)))])))
    outs = R.model(lines)
    # two label sets: equal width; different widths with labels that are prefixes of each other, a trailing blank, non-ASCII
    LABELSETS = [['a', 'b', 'c', 'd', 'e'], ['a', 'ab', 'abc', 'abd ', 'ab\u00e9x']]
    for ic, (cats, o) in enumerate(zip(cases + cases, outs + outs)):
        labels = LABELSETS[0 if ic < len(cases) else 1]
        roi = R_.CategoricalROI([labels[c] for c in cats]) if cats else R_.CategoricalROI()
        x = np.array(labels)
        case = {'stream': 'categorical', 'categories': list(cats), 'labels': labels}
        try:
            got = np.asarray(roi.contains(x, None)).astype(bool)
            got2 = np.asarray(roi.contains(x.reshape(5, 1), None)).astype(bool).ravel()
            cp = np.asarray(roi.copy().contains(x, None)).astype(bool)
            rest = GlueUnSerializer.loads(GlueSerializer(roi).dumps()).object('__main__') if cats else roi
            got3 = np.asarray(rest.contains(x, None)).astype(bool)
        except Exception as e:
            R.fail('oracle', case, {'why': 'implementation raised %s: %s' % (type(e).__name__, e)})
            continue
        want = [c in cats for c in range(5)]
        R.count(('cat', cats, ic < len(cases)), nontrivial=0 < len(set(cats)) < 5, stream='categorical', kind='categorical')
        if got.tolist() != want or got2.tolist() != want or cp.tolist() != want or got3.tolist() != want:
            R.fail('oracle', case, {'why': 'CategoricalROI.contains is not membership (direct / reshaped / copy / restored)',
                                   'contains': got.tolist(), 'reshaped': got2.tolist(), 'copy': cp.tolist(), 'restored': got3.tolist()})
        model = [bool(t_[0]) for t_ in kids(o)]
        if model != got.tolist():
            R.fail('correspondence', case, {'model': model, 'impl': got.tolist()})
    R.stream('categorical', cases=len(cases), exhaustive=True, bound='every ordered selection of <= 3 of 5 labels (+ duplicates), queried with all 5 labels')


def stream_malformed(R):
    from glue.core import roi as R_
    from glue.core.exceptions import UndefinedROI
    undefined = [('rect', R_.RectangularROI()), ('circ', R_.CircularROI()), ('ell', R_.EllipticalROI()), ('ann', R_.CircularAnnulusROI()),
                 ('range', R_.RangeROI('x')), ('poly', R_.PolygonalROI()), ('ann-bad', R_.CircularAnnulusROI(0, 0, 2, 1))]
    outs = R.model([enc((1, [q(0), (6, []), (0, []), (0, [(0, [q(0), q(0)])])])), enc((1, [q(0), (9, []), (0, []), (0, [])]))])
    if not (is_err(outs[0]) and err_code(outs[0]) == 1 and is_err(outs[1]) and err_code(outs[1]) == 2):
        R.fail('correspondence', {'stream': 'malformed'}, {'model': outs})
    for name, roi in undefined:
        try:
            roi.contains(np.array([0.5]), np.array([0.5]))
            res = 'no error'
        except UndefinedROI:
            res = 'UndefinedROI'
        except Exception as e:
            res = type(e).__name__
        R.count(('malformed', name), nontrivial=False, stream='malformed', kind=name)
        if res != 'UndefinedROI':
            R.fail('correspondence', {'stream': 'malformed', 'roi': name}, {'expected': 'UndefinedROI', 'impl': res})
    R.stream('malformed', cases=len(undefined), exhaustive=True, bound='undefined region of every class: contains raises UndefinedROI')


def stream_subset_state(R):
    """RoiSubsetState.to_mask (subset.py 557-614): mask over a dataset == contains on the attribute values, incl. the pixel-space shortcut"""
    from glue.core import Data
    from glue.core.subset import RoiSubsetState
    n = R.pick(40, 300)
    done = 0
    for i in range(n):
        rng = R.subrng('ss', i)
        spec = random_spec(rng)
        while spec[0] == 'range':
            spec = random_spec(rng)
        case = {'stream': 'subset_state', 'roi': jspec(spec), 'sub': i}
        try:
            roi, truth, info = run_impl(spec, ())
            shape = rng.choice([(40,), (5, 8), (2, 4, 5)])
            P = make_points(truth, rng, 30, 10, truth.scale() * EPS_SCALE)
            d = Data(x=P[:, 0].reshape(shape), y=P[:, 1].reshape(shape))
            st = RoiSubsetState(d.id['x'], d.id['y'], roi)
            mask = st.to_mask(d)
            ref = np.asarray(roi.contains(P[:, 0], P[:, 1])).reshape(shape)
            ok = mask.shape == tuple(shape) and np.array_equal(mask, ref)
            view = tuple(slice(0, None, 2) for _ in shape)
            ok = ok and np.array_equal(st.to_mask(d, view), ref[view])
            if len(shape) > 1:          # the same values held in Fortran order / as a transposed view
                dF = Data(x=np.asfortranarray(P[:, 0].reshape(shape)), y=np.ascontiguousarray(P[:, 1].reshape(shape).T).T)
                ok = ok and np.array_equal(RoiSubsetState(dF.id['x'], dF.id['y'], roi).to_mask(dF), ref)
            # pixel-space shortcut: region over two pixel axes of a 3-d cube, shifted to cover the pixel lattice
            d3 = Data(v=np.zeros((3, 6, 7)))
            roi2, truth2, _ = run_impl(spec, (('move', F(3), F(5, 2)),))
            px, py = d3.pixel_component_ids[2], d3.pixel_component_ids[1]
            st2 = RoiSubsetState(px, py, roi2)
            m3 = st2.to_mask(d3)
            zz, yy, xx = np.meshgrid(np.arange(3), np.arange(6), np.arange(7), indexing='ij')
            ref3 = np.asarray(roi2.contains(xx.astype(float), yy.astype(float)))
            ok3 = m3.shape == (3, 6, 7) and np.array_equal(m3, ref3)
        except Exception as e:
            R.fail('oracle', case, {'why': 'implementation raised %s: %s' % (type(e).__name__, e)})
            continue
        done += 1
        R.count(('ss', repr(case['roi'])), nontrivial=bool(ref.any() and not ref.all()), stream='subset_state', kind=spec[0])
        if not ok or not ok3:
            R.fail('oracle', case, {'why': 'RoiSubsetState.to_mask differs from roi.contains on the attribute values', 'plain': ok, 'pixel_shortcut': ok3})
    R.stream('subset_state', cases=done, exhaustive=False, bound='1-3 dimensional datasets, full and strided views, pixel-axis shortcut on a 3x6x7 cube')


def run(R):
    R.rule = ('a case = (region class + dyadic parameters + angle, operation sequence, float point set); non-trivial when the compared points contain both '
              'inside and outside points; distinct = distinct (region, operations, points) tuples. Every point is classified by the exact oracle and by '
              'the Coq model as inside / outside / within eps of the boundary; only the first two are compared with contains()')
    import os
    import sys
    import time
    for fn in (stream_malformed, stream_categorical, stream_small, stream_copy_sequences, stream_rotate_histories, stream_magnitude, stream_random,
               stream_shapes, stream_projected, stream_projected_structured, stream_subset_state):
        t0 = time.time()
        fn(R)
        if os.environ.get('VERIF_TIMING'):
            sys.stderr.write('%-28s %6.1f s\n' % (fn.__name__, time.time() - t0))
    R.sample({'roi': ['rect', -1.0, 3.0, 0.5, 2.5, ['pyth', 3, 4, 5]], 'ops': [['move', 2.5, -0.75], ['rot', ['mult', 2, 34]]], 'points': [[0.25, 1.0]]})
    R.sample({'roi': ['poly', [[0, 0], [4, 0], [4, 1], [1, 1], [1, 3], [0, 3], [0, 0]], 'numpy'], 'ops': [['move', 0.0, 0.0], ['rot', ['mult', 2, 0]]]})


def replay(R, case):
    st = case.get('stream', '')
    out = {'case': case}
    if 'roi' in case and 'points' in case and st in ('small', 'random', 'shapes', 'copy_sequences', 'rotate_histories', 'magnitude'):
        spec = unjspec(case['roi'])
        if spec[0] == 'poly':
            spec = ('poly', tuple(tuple(v) for v in spec[1])) + tuple(spec[2:])
        ops = unjspec(case['ops'])
        P = np.array(case['points'], dtype=float).reshape(-1, 2)
        C = Collect()
        B = Batch(C, st)
        res = B.add(spec, ops, P, mag=bool(case.get('mag')))
        orc_fail = [f for f in C.failures if f['kind'] == 'oracle']
        out['oracle_failures'] = [f['detail'] for f in orc_fail]
        out['violates'] = bool(orc_fail)
        if res is not None:
            roi, truth, info, impl, orc, eps = res
            out.update(impl=impl.tolist(), oracle=orc, eps=float(eps))
            if R.model_available and B.items:
                o = R.model([B.items[0][1]])[0]
                out['model'] = [t_[0] for t_ in kids(kids(o)[1])] if tag(o) == 0 else 'error'
    elif 'roi' in case and 'matrix' in case and 'points' in case:
        from glue.core import roi as R_
        spec = unjspec(case['roi'])
        if spec[0] == 'poly':
            spec = ('poly', tuple(tuple(v) for v in spec[1])) + tuple(spec[2:])
        ops = unjspec(case.get('ops', []))
        m = [[F(float(v)) for v in row] for row in case['matrix']]
        xyz = np.array(case['points'], dtype=float).reshape(-1, 3)
        try:
            roi, truth, info = run_impl(spec, ops)
            proj = R_.Projected3dROI(roi_2d=roi, projection_matrix=np.array(case['matrix'], dtype=float))
            one = np.asarray(proj.contains3d(xyz[:, 0], xyz[:, 1], xyz[:, 2])).astype(bool)
        except Exception as e:
            out.update(impl='raised %s: %s' % (type(e).__name__, e), violates=True)
            return out
        eps, overd, scr = proj_oracle(m, xyz, truth, info)
        out.update(impl=one.tolist(), oracle=overd, screen=[[float(a), float(b)] for a, b in scr], eps=float(eps))
        out['violates'] = any(v != 2 and bool(b) != (v == 1) for v, b in zip(overd, one))
        if R.model_available:
            line = enc((2, [q(eps), (0, [(0, [q(v) for v in row]) for row in m]), spec_tree(spec), (0, info.mops),
                            (0, [(0, [q(F(float(a))), q(F(float(b))), q(F(float(c)))]) for a, b, c in xyz])]))
            o = R.model([line])[0]
            out['model'] = 'error' if is_err(o) else [t_[0] for t_ in kids(o)]
    else:
        out['note'] = 'replay by re-running the stream with the stored seed: VERIF_SEED=<seed> ./check C08 --tier <tier>'
        out['violates'] = False
    return out
