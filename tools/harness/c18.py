"""C18 — viewers and attribute pickers mirror the collection.

Streams
  viewer_light   exhaustive small-scope op sequences on glue.viewers.common.viewer.Viewer (no matplotlib)
  viewer_mpl     seeded random histories (<= 20 ops) on the four Simple*Viewer classes, two sessions:
                 (a) all four kinds on one collection, (b) the kinds that restore headlessly, with save/restore ops
  picker         ComponentIDComboHelper on a plain State: exhaustive short + random long histories, hub / echo delay blocks
  data_picker    ManualDataComboHelper / DataCollectionComboHelper
  image_axes     ImageViewerState x_att / y_att / x_att_world / y_att_world, exhaustive short + random long
Every step: implementation vs. extracted model (exact), and the oracle = the property evaluated on the real objects.
"""
import itertools
import time

import numpy as np

from harness.common import enc, Z, B, to_zs, kids, tag

PROP = 'C18'
GENERATORS = ['gen_viewer', 'gen_picker']
TRUSTED = [
    'tools/gen/gen_viewer.py translates (fail-closed, statement by statement, on every run) Viewer.add_data / add_subset / remove_data / remove_subset / remove_layer, the two sync '
    'callbacks, the hub handlers and filters with the subscription table of register_to_hub, the callback registrations of Viewer.__init__, LayerArtist.__init__ and '
    'LayerArtistContainer.append / remove / pop / _notify / __contains__ / __iter__ / __getitem__ / layers into coq/gen/Gen_viewer.v; gen_step_refines / gen_viewer_inv_reachable tie the hand '
    'model of part 1 to that text for every operation outside user-opened delay blocks; the translator itself, its preamble (heap, echo CallbackList / delay_callback rendering, object '
    'identities) and the environment of Model.v part 5 (the collection sending the hub messages) are trusted and exercised by the viewer_gen / viewer_updates streams',
    'tools/gen/gen_picker.py translates ComponentIDComboHelper.refresh, _filter_msg, register_to_hub, remove_data, _remove_data, clear and the seven flag setters into coq/gen/Gen_picker.v; '
    'gen_picker_step_refines / gen_picker_inv_reachable / gen_refresh_attrs tie part 2 of the hand model to that text; '
    'gen_dpicker_inv_reachable ties part 3 (ManualDataComboHelper / DataCollectionComboHelper procedures, unique_data_iter, subscription tables) to the same generated file; '
    'ComponentIDComboHelper.append_data / set_multiple_data (hub adoption) and the four ImageViewerState._on_*_change handlers stay hand-modelled (correspondence only)',
    'hand model coq/C18/Model.v of DataCollection append/remove/new_subset_group/remove_subset_group as far as data.subsets is concerned (C06 translates those functions), '
    'of the dataset mutations seen by the pickers, and of viewer operations inside user-opened delay_callback(state, "layers") blocks: tied to the code by step-by-step correspondence only',
    'echo (CallbackProperty, SelectionCallbackProperty._choices_updated, delay_callback, CallbackList) is an external library: its selection rule is '
    'modelled (choices_updated) and compared, its callback machinery is the runtime',
    'matplotlib / WCSAxes are the runtime of the Simple*Viewer classes; canvas drawing is replaced by a no-op in most histories (a few run with real Agg drawing)',
    'GlueSerializer/GlueUnSerializer are used as they are for the save/restore operations (their own correctness is C02/C12)',
    'the flag `fixed` of the model (does dc.remove detach the grouped subsets from the dataset) is probed on the implementation at the start of each run; '
    'the theorems are proved for both values',
]
ASSUMPTIONS = [
    'a dataset counts as given to a viewer from a successful viewer.add_data(d) until viewer.remove_data(d) or dc.remove(d); re-appending it to the collection does not give it back to the viewer',
    'the layer invariant is judged relative to data.subsets: on a tree without the C06 repair a dataset removed and re-appended carries a stray subset of the same group, '
    'and the viewer shows a layer for it like for any other element of data.subsets; that stray subset is attributed to C06 and not reported here',
    'domain of viewer operations: add_data, remove_data, add_subset of any current subset of a dataset in the collection (also when the viewer does not show that dataset), '
    'remove_layer of a dataset\'s own layer (its subsets\' layers stay). For datasets that are not given, the subset layers need not be complete but every one of them must be a current '
    'subset of a dataset in the collection. Removing the layer of a live subset of a GIVEN dataset by hand (remove_subset / remove_layer(subset)) is an explicit request not to mirror, '
    'and add_subset of a subset whose dataset is not in the collection is API misuse (add_data raises for such a dataset): both outside the statement',
    'delay blocks around viewer histories are an extension beyond the property\'s quantifier (it names them for the pickers): '
    '(a) delay_callback(viewer.state, "layers") blocks around viewer and collection operations are modelled and compared step by step, the invariants are evaluated when the '
    'block is left; inside one block no dataset is both removed from and added to the viewer (either order) - the unchanged code then leaves a given dataset without layer, '
    'or an artist without layer state (Coq: viewer_blocks_refuted; both reproduced) - this user-level misuse of an internal callback property is documented, not reported; '
    '(b) hub.delay_callbacks() blocks around collection operations are exercised oracle-only (the deferral of the subset groups\' own handlers is C06/C07 territory), '
    'invariants evaluated when the block is left; viewer operations are not put inside hub blocks',
    'user-opened delay_callback(viewer.state, "layers") blocks are not combined with real canvas drawing: inside such a block the image viewer has not yet chosen its '
    'reference data when the first add_data draws (Agg), and get_sliced_data raises TypeError (numpy_slice_aggregation_transpose is None); reproduced on the unchanged code, '
    'same class of misuse of an internal callback property as above: documented, not reported; the histories with real drawing carry no user-opened blocks',
    'explicit selections are assignments of a value (accepted when it is one of the choices, ValueError otherwise); assigning None by hand is echo API, outside the statement',
    'inside an open hub delay block the picker is compared with the model (queued messages) but "choices = filtered attributes" is evaluated when the block closes',
    'viewer save/restore goes through a session (Application subclass that also saves its viewers, as glue-qt does); histogram and profile viewers are included only when '
    'their layer artists restore without glue_qt (state_path_patches.txt redirects them: C12 finding), otherwise they are exercised without save/restore',
    'image axes: reference data with ndim >= 2, values assigned to the four properties are pixel / world component ids of the reference data',
]


# ====================================================================== real-side scaffolding
_HAPP = None


def HApp_cls():
    """Application that records its viewers and saves them with the session (what glue-qt's application does)"""
    global _HAPP
    if _HAPP is None:
        from glue.core.application_base import Application

        class HApp(Application):
            def __init__(self, *a, **k):
                super().__init__(*a, **k)
                self._viewers = []

            def add_widget(self, v):
                self._viewers.append(v)

            @property
            def viewers(self):
                return (tuple(self._viewers),)

            def __gluestate__(self, context):
                state = super().__gluestate__(context)
                state['viewers'] = [context.id(v) for v in self._viewers]
                return state

            @classmethod
            def __setgluestate__(cls, rec, context):
                self = super(HApp, cls).__setgluestate__(rec, context)
                for vid in rec['viewers']:
                    self._viewers.append(context.object(vid))
                return self
        HApp.__module__ = __name__
        HApp.__qualname__ = 'HApp'
        globals()['HApp'] = HApp
        _HAPP = HApp
    return _HAPP


_LIGHT = None
_EVENTS = []       # opaque calls made by the light viewer and its layer artists during the current step: (code, layer object)


def LightViewer_cls():
    """glue.viewers.common.viewer.Viewer itself (nothing overridden that the translation covers); the hooks the translated code
    treats as opaque calls (draw_legend, layer_artist.update / remove / _on_components_changed) record themselves in _EVENTS"""
    global _LIGHT
    if _LIGHT is None:
        from glue.viewers.common.viewer import Viewer
        from glue.viewers.common.layer_artist import LayerArtist

        class RecArtist(LayerArtist):
            def update(self):
                _EVENTS.append((2, self.layer))

            def remove(self):
                _EVENTS.append((3, self.layer))

            def _on_components_changed(self, components_changed):
                _EVENTS.append((4, self.layer))

            def clear(self):
                pass

            def redraw(self):
                pass
        RecArtist.__module__ = __name__
        RecArtist.__qualname__ = 'RecArtist'
        globals()['RecArtist'] = RecArtist

        class LightViewer(Viewer):
            _data_artist_cls = RecArtist
            _subset_artist_cls = RecArtist

            def draw_legend(self, *args):
                _EVENTS.append((1, None))
        LightViewer.__module__ = __name__
        LightViewer.__qualname__ = 'LightViewer'
        globals()['LightViewer'] = LightViewer
        _LIGHT = LightViewer
    return _LIGHT


def viewer_class(kind):
    if kind == 'light':
        return LightViewer_cls()
    if kind == 'scatter':
        from glue.viewers.scatter.viewer import SimpleScatterViewer
        return SimpleScatterViewer
    if kind == 'image':
        from glue.viewers.image.viewer import SimpleImageViewer
        return SimpleImageViewer
    if kind == 'histogram':
        from glue.viewers.histogram.viewer import SimpleHistogramViewer
        return SimpleHistogramViewer
    if kind == 'profile':
        from glue.viewers.profile.viewer import SimpleProfileViewer
        return SimpleProfileViewer
    raise KeyError(kind)


def probe_fixed():
    """does dc.remove(d); dc.append(d) leave d with one subset per group (C06 repaired) or two?"""
    from glue.core import Data, DataCollection
    d = Data(x=[1, 2, 3], label='p')
    dc = DataCollection([d])
    dc.new_subset_group(label='g')
    dc.remove(d)
    n_after_remove = len(d.subsets)
    dc.append(d)
    n = len(d.subsets)
    if n == 1 and n_after_remove == 0:
        return True
    if n == 2 and n_after_remove == 1:
        return False
    raise RuntimeError('unrecognised behaviour of remove/append: %d subsets after remove, %d after append' % (n_after_remove, n))


def stub_drawing(v):
    if hasattr(v, 'figure'):
        v.figure.canvas.draw_idle = lambda *a, **k: None
        v.figure.canvas.draw = lambda *a, **k: None


class InvalidHistory(Exception):
    """the history refers to an object that does not exist (can happen while shrinking)"""


class Sess(object):
    """one real session (application, collection, viewers) plus the id <-> object maps of the harness"""

    def __init__(self, kinds, draw=False):
        self.kinds = list(kinds)
        self.draw = draw
        self.app = HApp_cls()()
        self.dc = self.app.data_collection
        self.viewers = []
        for k in self.kinds:
            v = self.app.new_data_viewer(viewer_class(k))
            if not draw:
                stub_drawing(v)
            self.viewers.append(v)
        self.data = {}
        self.groups = {}
        self.given = [[] for _ in self.kinds]     # ghost, maintained by the harness only
        self.ngroups = 0
        self.lcm = {}            # open delay_callback(viewer.state, 'layers') blocks, per viewer
        self.hcm = None          # open hub.delay_callbacks() block
        self.msgs = []           # update messages the hub carried during the current step (see UPDATE_OPS)
        self._rec = None
        self.ncomp = 0

    # -- objects
    def get_data(self, d):
        from glue.core import Data
        if d not in self.data:
            self.data[d] = Data(x=np.arange(4.).reshape(2, 2) + d, y=np.arange(4.).reshape(2, 2) * 2 - d, label='d%d' % d)
        return self.data[d]

    def data_id(self, obj):
        for k, v in self.data.items():
            if v is obj:
                return k
        return -7

    def group_id(self, obj):
        for k, v in self.groups.items():
            if v is obj:
                return k
        return -7

    def layer_key(self, L):
        from glue.core import BaseData
        if isinstance(L, BaseData):
            return (0, self.data_id(L))
        d = getattr(L, 'data', None)
        if d is None or not hasattr(d, 'subsets'):
            return (1, -8, self.group_id(getattr(L, 'group', None)), -1)      # a subset detached from any dataset
        same = [s for s in d.subsets if getattr(s, 'group', None) is getattr(L, 'group', None)]
        k = -1
        for i, s in enumerate(same):
            if s is L:
                k = i
        return (1, self.data_id(d), self.group_id(getattr(L, 'group', None)), k)

    def event_key(self, ev):
        from glue.core import BaseData
        code, L = ev
        if L is None:
            return (code,)
        if isinstance(L, BaseData):
            return (code, self.data_id(L), -1)
        return (code, self.data_id(getattr(L, 'data', None)), self.group_id(getattr(L, 'group', None)))

    def record_updates(self):
        """listen to the four update-message classes the viewer subscribes to (no structural effect; the translated handlers answer
        with artist.update() calls)"""
        from glue.core.hub import HubListener
        from glue.core import message as M
        sess = self

        class Rec(HubListener):
            def notify(self, message):
                sess.msgs.append(message)
        self._rec = Rec()
        for cls in (M.SubsetUpdateMessage, M.NumericalDataChangedMessage, M.ComponentsChangedMessage, M.ExternallyDerivableComponentsChangedMessage):
            self.dc.hub.subscribe(self._rec, cls, handler=self._rec.notify)

    def msg_key(self, m):
        from glue.core import message as M
        code = 1 if isinstance(m, M.SubsetUpdateMessage) else 2 if isinstance(m, M.NumericalDataChangedMessage) else \
            4 if isinstance(m, M.ExternallyDerivableComponentsChangedMessage) else 3
        k = self.layer_key(m.sender)
        d, g, r = (k[1], -1, 0) if k[0] == 0 else (k[1], k[2], k[3])
        attr = 0 if getattr(m, 'attribute', None) == 'style' else 1
        return (code, d, g, r, attr, 1 if hasattr(m, 'components_changed') else 0)

    def close_blocks(self):
        for vi, cm in list(self.lcm.items()):
            try:
                cm.__exit__(None, None, None)
            except Exception:
                pass
        self.lcm = {}
        if self.hcm is not None:
            try:
                self.hcm.__exit__(None, None, None)
            except Exception:
                pass
            self.hcm = None

    def in_block(self, vi):
        return vi in self.lcm or self.hcm is not None

    def close(self):
        import matplotlib.pyplot as plt
        self.close_blocks()
        for v in self.viewers:
            try:
                v.cleanup()
            except Exception:
                pass
            if hasattr(v, 'figure'):
                plt.close(v.figure)
        self.viewers = []

    # -- operations (harness level): returns status
    def apply(self, op):
        from glue.core.exceptions import IncompatibleDataException
        k = op[0]
        if k == 'append':
            self.dc.append(self.get_data(op[1]))
        elif k == 'remove':
            self.dc.remove(self.get_data(op[1]))
            for g in self.given:
                if op[1] in g:
                    g.remove(op[1])
        elif k == 'newgroup':
            d0 = self.dc[0] if len(self.dc) else None
            self.groups[op[1]] = self.dc.new_subset_group(label='g%d' % op[1],
                                                          subset_state=(d0.id['x'] > 1) if d0 is not None else None)
        elif k == 'rmgroup':
            self.dc.remove_subset_group(self.groups[op[1]])
        elif k == 'add':
            vi, d = op[1], op[2]
            data = self.get_data(d)
            in_dc = any(data is x for x in self.dc)
            try:
                self.viewers[vi].add_data(data)
            except IncompatibleDataException:
                return 1
            finally:
                if in_dc and d not in self.given[vi]:
                    self.given[vi].append(d)
        elif k == 'rmdata':
            vi, d = op[1], op[2]
            self.viewers[vi].remove_data(self.get_data(d))
            if d in self.given[vi]:
                self.given[vi].remove(d)
        elif k == 'addsub':
            vi, d, g, r = op[1:5]
            same = [s for s in self.get_data(d).subsets if g in self.groups and s.group is self.groups[g]]
            if r >= len(same) or not any(self.get_data(d) is x for x in self.dc):
                raise InvalidHistory()
            self.viewers[vi].add_subset(same[r])
        elif k == 'rmlayer':
            # only the dataset's own layer artist is removed (what the layer list of the GUI does); its subsets' layers stay
            vi, d = op[1], op[2]
            self.viewers[vi].remove_layer(self.get_data(d))
            if d in self.given[vi]:
                self.given[vi].remove(d)
        elif k in UPDATE_OPS:
            if self._rec is None:
                self.record_updates()
            if k in ('substyle', 'substate'):
                if op[1] not in self.groups or not any(self.groups[op[1]] is g for g in self.dc.subset_groups):
                    raise InvalidHistory()
                grp = self.groups[op[1]]
                self.ncomp += 1
                if k == 'substyle':
                    grp.style.color = '#%06x' % (0x123456 + self.ncomp)
                else:
                    d0 = self.dc[0] if len(self.dc) else None
                    if d0 is None:
                        raise InvalidHistory()
                    grp.subset_state = d0.id['x'] > (self.ncomp % 3)
            else:
                data = self.get_data(op[1])
                self.ncomp += 1
                if k == 'addcomp':
                    data.add_component(np.arange(4.).reshape(2, 2) + self.ncomp, 'c%d' % self.ncomp)
                else:
                    data.update_components({data.id['x']: np.arange(4.).reshape(2, 2) + self.ncomp})
        elif k == 'restore':
            if self.lcm or self.hcm is not None:
                raise InvalidHistory()
            self.restore()
            self._rec = None
        elif k == 'lbegin':
            from echo import delay_callback
            if op[1] in self.lcm:
                raise InvalidHistory()
            cm = delay_callback(self.viewers[op[1]].state, 'layers')
            cm.__enter__()
            self.lcm[op[1]] = cm
        elif k == 'lend':
            if op[1] not in self.lcm:
                raise InvalidHistory()
            self.lcm.pop(op[1]).__exit__(None, None, None)
        elif k == 'hbegin':
            if self.hcm is not None:
                raise InvalidHistory()
            self.hcm = self.dc.hub.delay_callbacks()
            self.hcm.__enter__()
        elif k == 'hend':
            if self.hcm is None:
                raise InvalidHistory()
            cm, self.hcm = self.hcm, None
            cm.__exit__(None, None, None)
        else:
            raise KeyError(k)
        return 0

    def restore(self):
        from glue.core.state import GlueSerializer, GlueUnSerializer
        text = GlueSerializer(self.app).dumps()
        app2 = GlueUnSerializer.loads(text).object('__main__')
        dc2 = app2.data_collection
        old_dc = list(self.dc)
        if len(dc2) != len(old_dc) or len(app2._viewers) != len(self.viewers):
            raise RuntimeError('restored session has %d datasets / %d viewers, saved %d / %d'
                               % (len(dc2), len(app2._viewers), len(old_dc), len(self.viewers)))
        new_groups = {}
        for gobj_old, gobj_new in zip(self.dc.subset_groups, dc2.subset_groups):
            new_groups[self.group_id(gobj_old)] = gobj_new
        new_data = {}
        for dold, dnew in zip(old_dc, dc2):
            new_data[self.data_id(dold)] = dnew
            for sold, snew in zip(dold.subsets, dnew.subsets):
                gid = self.group_id(getattr(sold, 'group', None))
                if gid not in new_groups and gid != -7:
                    new_groups[gid] = snew.group
        old_viewers = self.viewers
        self.app, self.dc = app2, dc2
        self.viewers = list(app2._viewers)
        for v in self.viewers:
            if not self.draw:
                stub_drawing(v)
        import matplotlib.pyplot as plt
        for v in old_viewers:
            try:
                v.cleanup()
            except Exception:
                pass
            if hasattr(v, 'figure'):
                plt.close(v.figure)
        # datasets outside the collection are not part of the session: fresh objects under the same harness id
        self.data = new_data
        dead = {k: v for k, v in self.groups.items() if k not in new_groups}
        self.groups = dict(new_groups)
        for k, v in dead.items():
            self.groups[k] = v       # removed groups: the old object stays a valid argument of remove_subset_group (no-op)

    # -- observations
    def observe(self, vi, known):
        v = self.viewers[vi]
        arts = [self.layer_key(a.layer) for a in v._layer_artist_container.artists]
        sls = [self.layer_key(ls.layer) for ls in v.state.layers]
        dcl = [self.data_id(d) for d in self.dc]
        grp = [self.group_id(g) for g in self.dc.subset_groups]
        per = []
        for d in known:
            if d in self.data:
                per.append((d, [(self.group_id(getattr(s, 'group', None)),
                                 1 if any(s is x for x in getattr(getattr(s, 'group', None), 'subsets', [])) else 0)
                                for s in self.data[d].subsets]))
            else:
                per.append((d, []))
        return {'arts': arts, 'sls': sls, 'dc': dcl, 'groups': grp, 'subs': per}

    # -- the property, evaluated on the real objects
    def oracle(self, vi, fixed):
        from glue.core import BaseData
        v = self.viewers[vi]
        problems = []
        arts = [a.layer for a in v._layer_artist_container.artists]
        by_z = [a.layer for a in v.layers]
        sls = [ls.layer for ls in v.state.layers]
        expected = []
        for d in self.given[vi]:
            data = self.data[d]
            if not any(data is x for x in self.dc):
                problems.append('harness ghost: given dataset d%d not in the collection' % d)
            expected.append(data)
            expected.extend(data.subsets)
        import collections
        have = collections.Counter(id(x) for x in arts)
        want = collections.Counter(id(x) for x in expected)
        # exactly one layer for every given dataset and each of its current subsets; no other dataset layer; nothing twice.
        # (a subset layer of a dataset that is not given - handed over with add_subset, or left behind by remove_layer(data) -
        #  is allowed as long as it is a current subset of a dataset in the collection: checked below)
        missing = [self.layer_key(x) for x in expected if have[id(x)] < want[id(x)]]
        extra = [self.layer_key(x) for x in arts if have[id(x)] > max(want[id(x)], 1) or (isinstance(x, BaseData) and want[id(x)] == 0)]
        if missing or extra:
            problems.append('layers differ from given datasets + their subsets: missing %r, extra or duplicated %r' % (missing, extra))
        if [id(x) for x in arts] != [id(x) for x in sls]:
            problems.append('layer artists %r and state.layers %r disagree' % ([self.layer_key(x) for x in arts], [self.layer_key(x) for x in sls]))
        if sorted(id(x) for x in by_z) != sorted(id(x) for x in arts):
            problems.append('viewer.layers differs from the container')
        for L in arts + sls:
            if isinstance(L, BaseData):
                if not any(L is x for x in self.dc):
                    problems.append('layer for a dataset that is not in the collection: %r' % (self.layer_key(L),))
            else:
                if getattr(L, 'data', None) is None:
                    problems.append('layer for a deleted subset (no dataset): %r' % (self.layer_key(L),))
                elif not any(L.data is x for x in self.dc):
                    problems.append('layer for a subset of a removed dataset: %r' % (self.layer_key(L),))
                elif not any(L is s for s in L.data.subsets):
                    problems.append('layer for a subset its dataset no longer has: %r' % (self.layer_key(L),))
                elif fixed and not any(getattr(L, 'group', None) is g for g in self.dc.subset_groups):
                    problems.append('layer for a subset of a removed group: %r' % (self.layer_key(L),))
        try:
            problems += state_picker_problems(v.state, self.dc, 'viewer.state')
            for ls in v.state.layers:
                problems += state_picker_problems(ls, self.dc, 'layer state')
            problems += viewer_helper_problems(v, self)
        except Exception as e:
            problems.append('the pickers of the viewer state could not be evaluated: %s: %s' % (type(e).__name__, e))
        return problems


def selection_props(state):
    from echo import SelectionCallbackProperty
    out = []
    for name in dir(type(state)):
        if isinstance(getattr(type(state), name, None), SelectionCallbackProperty):
            out.append(name)
    return out


def state_picker_problems(state, dc, where):
    """every SelectionCallbackProperty of a State: the selection is one of the (non-separator) choices, or None when there are none"""
    from echo import ChoiceSeparator
    out = []
    for name in selection_props(state):
        prop = getattr(type(state), name)
        choices = prop.get_choices(state)
        atts = [c for c in choices if not isinstance(c, ChoiceSeparator)]
        sel = getattr(state, name)
        if not atts:
            if sel is not None:
                out.append('%s.%s: no choices but selection %r' % (where, name, sel))
        else:
            ok = any(sel is c for c in atts) or any((np.isscalar(c) and isinstance(c, (str, int, float)) and sel == c) for c in atts)
            if not ok:
                out.append('%s.%s: selection %r is not among the choices %r' % (where, name, sel, atts))
    return out


def helper_spec(helper):
    """the filtered attributes of the helper's datasets, computed directly from the datasets"""
    out = []
    for data in helper._data:
        for cid in data.main_components:
            kind = data.get_kind(cid)
            if (kind == 'numerical' and helper.numeric) or (kind == 'datetime' and helper.datetime) or (kind == 'categorical' and helper.categorical):
                out.append(cid)
        if helper.numeric and helper.derived:
            out += [c for c in data.derived_components if c.parent is data]
        if helper.pixel_coord:
            out += list(data.pixel_component_ids)
        if helper.world_coord:
            out += list(data.world_component_ids)
    return out


def helper_problems(helper, where):
    from echo import ChoiceSeparator
    atts = [c for c in helper.choices if c is not None and not isinstance(c, ChoiceSeparator)]
    spec = helper_spec(helper)
    if [id(c) for c in atts] != [id(c) for c in spec]:
        return ['%s: choices %r are not the filtered attributes %r' % (where, [str(c) for c in atts], [str(c) for c in spec])]
    return []


def viewer_helper_problems(v, sess):
    """attribute pickers of the viewer state: exactly the attributes of the relevant datasets; image axes"""
    from glue.core.data_combo_helper import ComponentIDComboHelper, unique_data_iter
    out = []
    st = v.state
    layer_datasets = unique_data_iter([ls.layer for ls in st.layers])
    for name, h in sorted(vars(st).items()):
        if isinstance(h, ComponentIDComboHelper):
            out += helper_problems(h, 'viewer.state.' + name)
            for d in h._data:
                if not any(d is x for x in sess.dc):
                    out.append('viewer.state.%s still lists removed dataset %s' % (name, d.label))
                if not any(d is x for x in layer_datasets):
                    out.append('viewer.state.%s lists dataset %s that has no layer' % (name, d.label))
            kind = type(st).__name__
            if kind in ('ScatterViewerState', 'HistogramViewerState'):
                if [id(d) for d in h._data] != [id(d) for d in layer_datasets]:
                    out.append('viewer.state.%s datasets %r differ from the layer datasets %r'
                               % (name, [d.label for d in h._data], [d.label for d in layer_datasets]))
    if hasattr(st, 'reference_data'):
        ref = st.reference_data
        if layer_datasets and ref is None:
            out.append('reference_data is None although the viewer has layers')
        if ref is not None and not any(ref is d for d in layer_datasets):
            out.append('reference_data %s has no layer' % ref.label)
    if type(st).__name__ == 'ImageViewerState':
        out += image_axes_problems(st)
    return out


def image_axes_problems(st):
    ref = st.reference_data
    if ref is None:
        # no reference dataset: there are no axes the viewer could show (a stale x_att / y_att of a removed dataset
        # is what makes a saved session fail to load)
        if st.x_att is not None or st.y_att is not None:
            return ['no reference data but x_att = %s, y_att = %s (axes of a dataset the viewer no longer shows)' % (st.x_att, st.y_att)]
        return []
    if ref.ndim < 2:
        return []
    out = []
    pix = ref.pixel_component_ids
    wor = ref.world_component_ids if getattr(ref, 'coords', None) is not None else pix
    ix = [i for i, p in enumerate(pix) if p is st.x_att]
    iy = [i for i, p in enumerate(pix) if p is st.y_att]
    ixw = [i for i, p in enumerate(wor) if p is st.x_att_world]
    iyw = [i for i, p in enumerate(wor) if p is st.y_att_world]
    if not ix or not iy:
        out.append('x_att / y_att are not pixel axes of the reference data: %r %r' % (st.x_att, st.y_att))
    elif ix == iy:
        out.append('x_att and y_att are the same axis %r' % ix)
    if not ixw or not iyw:
        out.append('x_att_world / y_att_world are not axes of the reference data')
    elif ix != ixw or iy != iyw:
        out.append('pixel axes (%r, %r) and world axes (%r, %r) do not correspond' % (ix, iy, ixw, iyw))
    return out


# operations that only make the hub carry update messages (SubsetUpdateMessage, NumericalDataChangedMessage, ComponentsChangedMessage): invisible to the
# hand model; the translated machine receives the recorded messages (the concrete op carries them as its last element)
UPDATE_OPS = ('substyle', 'substate', 'addcomp', 'updcomp')


# ====================================================================== model side for viewers
def model_ops(ops, vi, gen=False):
    """project a harness history on viewer vi and encode it for the model"""
    out = []
    for op in ops:
        k = op[0]
        if k == 'append':
            out.append((1, [op[1]]))
        elif k == 'remove':
            out.append((2, [op[1]]))
        elif k == 'newgroup':
            out.append((3, [op[1]]))
        elif k == 'rmgroup':
            out.append((4, [op[1]]))
        elif k == 'add':
            out.append((5, [op[2]]) if op[1] == vi else None)
        elif k == 'rmdata':
            out.append((6, [op[2]]) if op[1] == vi else None)
        elif k == 'addsub':
            out.append((7, [op[2], op[3], op[4]]) if op[1] == vi else None)
        elif k == 'rmlayer':
            out.append((9, [op[2]]) if op[1] == vi else None)
        elif k == 'restore':
            out.append((8, []))
        elif k == 'lbegin':
            out.append((10, []) if op[1] == vi else None)
        elif k == 'lend':
            out.append((11, []) if op[1] == vi else None)
        elif k in UPDATE_OPS:
            msgs = op[-1] if (gen and isinstance(op[-1], (tuple, list))) else None
            out.append((12, [(m[0], [m[1], m[2], m[3], m[4], m[5]]) for m in msgs]) if msgs is not None else None)
        elif k in ('hbegin', 'hend'):
            raise ValueError('hub delay blocks around collection operations are not modelled (oracle-only stream)')
    return out


def model_line(fixed, known, mops, tag_=1):
    """tag 1: the hand model; tag 5: the functions translated from viewer.py / layer_artist.py (coq/gen/Gen_viewer.v)"""
    return enc((tag_, [1 if fixed else 0, Z(known), (0, [m for m in mops if m is not None])]))


def dec_layer(t):
    if tag(t) == 0:
        return (0, kids(t)[0][0])
    a = to_zs(t)
    return (1, a[0], a[1], a[2])


def dec_event(t):
    if tag(t) in (1, 5):
        return (tag(t),)
    a = to_zs(kids(t)[0])
    return (tag(t), a[0], a[1])


def dec_vobs(t):
    ks = kids(t)
    st, given = ks[0], ks[1]
    k = kids(st)
    extra = {}
    if len(ks) > 2:      # the translated machine also reports its error flag (fuel exhausted) and the opaque calls of the step
        extra = {'err': tag(ks[2]), 'events': [dec_event(x) for x in kids(ks[2])]}
    return dict(extra, **_dec_vobs_core(st, k, given))


def _dec_vobs_core(st, k, given):
    return {'status': tag(st),
            'arts': [dec_layer(x) for x in kids(k[0])], 'sls': [dec_layer(x) for x in kids(k[1])],
            'dc': to_zs(k[2]), 'groups': to_zs(k[3]),
            'subs': [(tag(x), [tuple(to_zs(y)) for y in kids(x)]) for x in kids(k[4])],
            'given': to_zs(given)}


def known_ids(ops):
    s = set()
    for op in ops:
        if op[0] in ('append', 'remove', 'addcomp', 'updcomp'):
            s.add(op[1])
        elif op[0] in ('add', 'rmdata', 'addsub', 'rmlayer'):
            s.add(op[2])
    return sorted(s)


def impl_history(kinds, ops, fixed, draw=False):
    """run one history on the implementation (all viewers of `kinds` on one collection), evaluating the oracle after every step.
    'addsub?' placeholders are resolved against the live state.  Returns (concrete ops, oracle failure or None, per-viewer observations)"""
    sess = Sess(kinds, draw=draw)
    known = known_ids(ops)
    impl = [[] for _ in kinds]
    orac = None
    crash = None
    conc = []
    restored = False
    try:
        for op in ops:
            if op[0] == 'addsub?':
                op = concretise_addsub(sess, rng_pick=len(conc))
                if op is None:
                    continue
            if op[0] in UPDATE_OPS and isinstance(op[-1], (tuple, list)):
                op = tuple(op[:-1])          # a stored case: the messages are recorded afresh
            i = len(conc)
            conc.append(op)
            del _EVENTS[:]
            del sess.msgs[:]
            try:
                status = sess.apply(op)
            except InvalidHistory:
                conc.pop()
                break
            except Exception as e:     # any exception other than the modelled one is itself a failure of the history
                crash = (i, '%s: %s' % (type(e).__name__, e))
                break
            if op[0] in UPDATE_OPS:
                conc[i] = tuple(op) + (tuple(sess.msg_key(m) for m in sess.msgs),)
                GEN_STATS['update_msgs'] += len(sess.msgs)
            for vi in range(len(kinds)):
                o = sess.observe(vi, known)
                mine = op[0] in ('add', 'rmdata', 'addsub', 'rmlayer') and op[1] == vi
                o['status'] = status if mine else 0
                o['given'] = list(sess.given[vi])
                # the opaque calls of this step (light viewer only; a restore builds new viewers with calls the model does not make)
                # after a restore the hub delivers DataCollectionDeleteMessage to the re-created subset groups before the viewer (subscription order
                # of the new session: the environment, not the viewer): the calls of a dc.remove are then compared by end state only
                restored = restored or op[0] == 'restore'
                o['events'] = [sess.event_key(e) for e in _EVENTS] if (kinds[vi] == 'light' and len(kinds) == 1 and op[0] != 'restore'
                                                                        and not (restored and op[0] == 'remove')) else None
                impl[vi].append((i, o))
                # inside an open delay block the held-back callbacks / messages have not run yet: the invariants are evaluated
                # when the block is left (and at every step outside blocks)
                if orac is None and not sess.in_block(vi):
                    pr = sess.oracle(vi, fixed)
                    if pr:
                        orac = {'step': i, 'viewer': kinds[vi], 'problems': pr[:4]}
    finally:
        sess.close()
    if crash is not None and orac is None:
        orac = {'step': crash[0], 'viewer': 'all', 'problems': ['operation raised ' + crash[1]]}
    return conc, orac, impl


def has_lone_subset(impl):
    """did some viewer, at some step, show a subset layer without its dataset's layer?"""
    for per in impl:
        for _, o in per:
            shown = set(x[1] for x in o['arts'] if x[0] == 0)
            if any(x[0] == 1 and x[1] not in shown for x in o['arts']):
                return True
    return False


def history_lines(kinds, ops, fixed, tag_=1):
    known = known_ids(ops)
    return [model_line(fixed, known, model_ops(ops, vi, gen=(tag_ == 5)), tag_) for vi in range(len(kinds))]


def cmp_history(kinds, ops, impl, outs, gen=False):
    """gen: `outs` come from the translated machine (tag 5): also its error flag and, for the light viewer, the opaque calls of each step"""
    known = known_ids(ops)
    corr = None
    for vi, out in enumerate(outs):
        mops = model_ops(ops, vi, gen=gen)
        idx = [i for i, m in enumerate(mops) if m is not None]
        steps = [dec_vobs(t) for t in kids(out)]
        pos = {i: n for n, i in enumerate(idx)}
        # the model is stepped only on the ops this viewer sees; the implementation is observed after every op
        last = None
        for (i, o) in impl[vi]:
            cmp_status = i in pos
            if cmp_status:
                last = steps[pos[i]]
            m = last if last is not None else {'arts': [], 'sls': [], 'dc': [], 'groups': [], 'subs': [(d, []) for d in known], 'given': [], 'status': 0}
            diff = []
            for key in ('arts', 'sls', 'dc', 'groups', 'given'):
                if [tuple(x) if isinstance(x, (list, tuple)) else x for x in o[key]] != [tuple(x) if isinstance(x, (list, tuple)) else x for x in m[key]]:
                    diff.append(key)
            if [(d, [tuple(y) for y in l]) for d, l in o['subs']] != [(d, [tuple(y) for y in l]) for d, l in m['subs']]:
                diff.append('subs')
            if cmp_status and o['status'] != m['status']:
                diff.append('status')
            if gen and cmp_status:
                if m.get('err'):
                    diff.append('err')
                    o = dict(o, err=0)
                if o.get('events') is not None and [tuple(x) for x in o['events']] != [tuple(x) for x in m.get('events', [])]:
                    diff.append('events')
            if diff and corr is None:
                corr = {'step': i, 'viewer': kinds[vi], 'fields': diff, 'machine': 'translated (Gen_viewer.v)' if gen else 'hand model',
                        'impl': {k: o[k] for k in diff}, 'model': {k: m[k] for k in diff}}
    return corr


def run_history(R, kinds, ops, fixed, stream, draw=False):
    """single history, model included: returns (oracle failure or None, correspondence failure or None)"""
    conc, orac, impl = impl_history(kinds, ops, fixed, draw=draw)
    if any(o[0] in ('hbegin', 'hend') for o in conc):
        return orac, None        # hub delay blocks around collection operations: oracle only
    outs = R.model(history_lines(kinds, conc, fixed) + history_lines(kinds, conc, fixed, 5))
    n = len(kinds)
    return orac, (cmp_history(kinds, conc, impl, outs[:n]) or cmp_history(kinds, conc, impl, outs[n:], gen=True))


def shrink_history(R, kinds, ops, fixed, stream, draw, pred):
    """drop operations one at a time while the failure persists"""
    cur = list(ops)
    budget = 60
    changed = True
    while changed and budget > 0:
        changed = False
        for i in range(len(cur) - 1, -1, -1):
            if budget <= 0:
                break
            cand = cur[:i] + cur[i + 1:]
            if not valid_history(cand):
                continue
            budget -= 1
            try:
                orac, corr = run_history(R, kinds, cand, fixed, stream, draw=draw)
            except Exception:
                continue
            if pred(orac, corr):
                cur = cand
                changed = True
    return cur


def valid_history(ops):
    """group ids must be created before they are used; addsub needs the group"""
    made = set()
    for op in ops:
        if op[0] == 'newgroup':
            if op[1] in made:
                return False
            made.add(op[1])
        elif op[0] == 'rmgroup' and op[1] not in made:
            return False
        elif op[0] == 'addsub' and op[3] not in made:
            return False
        elif op[0] in ('substyle', 'substate') and op[1] not in made:
            return False
    # delay blocks must stay balanced
    openl, openh = set(), False
    for op in ops:
        if op[0] == 'lbegin':
            if op[1] in openl:
                return False
            openl.add(op[1])
        elif op[0] == 'lend':
            if op[1] not in openl:
                return False
            openl.discard(op[1])
        elif op[0] == 'hbegin':
            if openh:
                return False
            openh = True
        elif op[0] == 'hend':
            if not openh:
                return False
            openh = False
        elif op[0] == 'restore' and (openl or openh):
            return False
    return not openl and not openh


def report_history(R, kinds, ops, fixed, stream, draw, orac, corr):
    case = {'stream': stream, 'kinds': list(kinds), 'fixed': bool(fixed), 'draw': bool(draw), 'ops': [list(o) for o in ops]}
    if orac is not None:
        small = shrink_history(R, kinds, ops, fixed, stream, draw, lambda o, c: o is not None)
        o2, c2 = run_history(R, kinds, small, fixed, stream, draw=draw)
        case['ops'] = [list(o) for o in small]
        R.fail('oracle', case, o2 if o2 is not None else orac, key=None)
    elif corr is not None:
        small = shrink_history(R, kinds, ops, fixed, stream, draw, lambda o, c: c is not None and o is None)
        o2, c2 = run_history(R, kinds, small, fixed, stream, draw=draw)
        case['ops'] = [list(o) for o in small]
        R.fail('correspondence', case, c2 if c2 is not None else corr)


GEN_STATS = {'cases': 0, 'random_cases': 0, 'steps': 0, 'update_msgs': 0}

# ---------------------------------------------------------------------- stream: light viewer, exhaustive
LIGHT_SYMS = ['app0', 'app1', 'rem0', 'rem1', 'newg', 'rmg_old', 'rmg_new', 'add0', 'add1', 'rmd0', 'rmd1', 'addsub', 'restore', 'rml0', 'rml1']


def resolve_symbols(prefix, syms):
    """turn symbolic ops into concrete harness ops (group ids allocated in order; rmg_* refer to live groups, or the last removed one)"""
    ops = list(prefix)
    live, dead, ng = [], [], 0
    for op in ops:
        if op[0] == 'newgroup':
            live.append(op[1])
            ng = max(ng, op[1] + 1)
        elif op[0] == 'rmgroup' and op[1] in live:
            live.remove(op[1])
            dead.append(op[1])
    for s in syms:
        if s in ('app0', 'app1'):
            ops.append(('append', int(s[-1])))
        elif s in ('rem0', 'rem1'):
            ops.append(('remove', int(s[-1])))
        elif s == 'newg':
            ops.append(('newgroup', ng))
            live.append(ng)
            ng += 1
        elif s in ('rmg_old', 'rmg_new'):
            if live:
                g = live[0] if s == 'rmg_old' else live[-1]
                live.remove(g)
                dead.append(g)
                ops.append(('rmgroup', g))
            elif dead:
                ops.append(('rmgroup', dead[-1]))
            else:
                return None
        elif s in ('add0', 'add1'):
            ops.append(('add', 0, int(s[-1])))
        elif s in ('rmd0', 'rmd1'):
            ops.append(('rmdata', 0, int(s[-1])))
        elif s in ('rml0', 'rml1'):
            ops.append(('rmlayer', 0, int(s[-1])))
        elif s == 'addsub':
            ops.append(('addsub?',))
        elif s == 'restore':
            ops.append(('restore',))
    return ops


def concretise_addsub(sess, rng_pick=0):
    """an in-domain add_subset: some current subset of a dataset of the collection, preferably one that has no layer yet in the
    chosen viewer (a lone subset layer, its dataset not shown); decided on the real state"""
    nv = len(sess.viewers)
    for prefer_lone in (True, False):
        for off in range(nv):
            vi = (rng_pick + off) % nv
            v = sess.viewers[vi]
            shown = [a.layer for a in v._layer_artist_container.artists]
            cands = []
            for data in sess.dc:
                for sub in data.subsets:
                    present = any(sub is x for x in shown)
                    if present != prefer_lone:
                        cands.append((data, sub))
            if not cands:
                continue
            data, sub = cands[rng_pick % len(cands)]
            d = sess.data_id(data)
            g = sess.group_id(getattr(sub, 'group', None))
            if d < 0 or g < 0:
                continue
            same = [x for x in data.subsets if getattr(x, 'group', None) is sub.group]
            r = [i for i, x in enumerate(same) if x is sub][0]
            return ('addsub', vi, d, g, r)
    return None


def stream_viewer_light(R, fixed):
    prefixes = [[],
                [('append', 0), ('append', 1), ('newgroup', 0), ('add', 0, 0)],
                [('append', 0), ('newgroup', 0), ('add', 0, 0), ('remove', 0), ('append', 0)],
                # a subset layer without its dataset's layer: left behind by remove_layer(data) / handed over alone
                [('append', 0), ('append', 1), ('newgroup', 0), ('add', 0, 0), ('rmlayer', 0, 0)],
                [('append', 0), ('newgroup', 0), ('newgroup', 1), ('addsub', 0, 0, 0, 0)]]
    depth = R.pick([3, 2, 2, 2, 2], [3, 3, 3, 3, 3])
    t0 = time.time()
    batch = []
    for prefix, k in zip(prefixes, depth):
        for ln in range(1, k + 1):
            for syms in itertools.product(LIGHT_SYMS, repeat=ln):
                ops = resolve_symbols(prefix, syms)
                if ops is None:
                    continue
                conc, orac, impl = impl_history(['light'], ops, fixed)
                batch.append((conc, orac, impl))
                R.count(('light', tuple(map(tuple, conc))), nontrivial=any(o[0] in ('add', 'addsub') for o in conc), stream='viewer_light', history_len=len(conc),
                        light_lone_subset_layer=has_lone_subset(impl))
                for o in conc:
                    R.hist['viewer_op'][o[0]] += 1
    lines = [history_lines(['light'], conc, fixed)[0] for conc, _, _ in batch]
    outs = R.model(lines)
    gouts = R.model([history_lines(['light'], conc, fixed, 5)[0] for conc, _, _ in batch])
    GEN_STATS['cases'] += len(batch)
    GEN_STATS['steps'] += sum(len(conc) for conc, _, _ in batch)
    nfail = 0
    for (conc, orac, impl), out, gout in zip(batch, outs, gouts):
        corr = cmp_history(['light'], conc, impl, [out]) or cmp_history(['light'], conc, impl, [gout], gen=True)
        if (orac or corr) and nfail < 3:
            nfail += 1
            report_history(R, ['light'], conc, fixed, 'viewer_light', False, orac, corr)
    R.sample({'viewer_light': [list(o) for o in resolve_symbols(prefixes[1], ('newg', 'rem0', 'app0')) if o[0] != 'addsub?']})
    R.stream('viewer_light', cases=len(batch), exhaustive=True, wall_s=round(time.time() - t0, 1),
             bound='all sequences over %d symbols (2 datasets, fresh groups, one viewer, save/restore, add_subset of any current subset, remove_layer of a dataset layer) of length <= %s after %d prefixes' % (len(LIGHT_SYMS), depth, len(prefixes)))


def stream_viewer_updates(R, fixed):
    """light viewer: histories in which the hub also carries update messages (subset style / state changes, added components, changed values).  They
    have no structural effect (hand model and oracle as usual); the translated _update_subset / _update_data / _update_data_numerical with their
    filters must make exactly the artist.update() / _on_components_changed calls the real viewer makes."""
    t0 = time.time()
    prefixes = [[('append', 0), ('append', 1), ('newgroup', 0), ('add', 0, 0)],
                [('append', 0), ('append', 1), ('newgroup', 0), ('newgroup', 1), ('addsub', 0, 1, 1, 0), ('add', 0, 0), ('rmlayer', 0, 0)]]
    syms = [('substyle', 0), ('substate', 0), ('substate', 1), ('addcomp', 0), ('addcomp', 1), ('updcomp', 0), ('updcomp', 1),
            ('add', 0, 1), ('rmdata', 0, 0), ('rmgroup', 0), ('remove', 1)]
    depth = R.pick(2, 3)
    batch = []
    for prefix in prefixes:
        for ln in range(1, depth + 1):
            for seq in itertools.product(syms, repeat=ln):
                if not any(o[0] in UPDATE_OPS for o in seq):
                    continue
                ops = list(prefix) + list(seq)
                if not valid_history(ops):
                    continue
                conc, orac, impl = impl_history(['light'], ops, fixed)
                batch.append((conc, orac, impl))
                R.count(('upd', tuple(map(tuple, [o[:-1] if o[0] in UPDATE_OPS else o for o in conc]))), nontrivial=True, stream='viewer_updates', history_len=len(conc))
    outs = R.model([history_lines(['light'], conc, fixed)[0] for conc, _, _ in batch])
    gouts = R.model([history_lines(['light'], conc, fixed, 5)[0] for conc, _, _ in batch])
    GEN_STATS['cases'] += len(batch)
    GEN_STATS['steps'] += sum(len(conc) for conc, _, _ in batch)
    nfail = 0
    for (conc, orac, impl), out, gout in zip(batch, outs, gouts):
        corr = cmp_history(['light'], conc, impl, [out]) or cmp_history(['light'], conc, impl, [gout], gen=True)
        if (orac or corr) and nfail < 3:
            nfail += 1
            report_history(R, ['light'], conc, fixed, 'viewer_updates', False, orac, corr)
    R.stream('viewer_updates', cases=len(batch), update_messages=GEN_STATS['update_msgs'], exhaustive=True, wall_s=round(time.time() - t0, 1),
             bound='light viewer, 2 prefixes (shown dataset with subset; lone subset layers of two groups): every sequence of length <= %d over %d operations that contains '
                   'at least one of subset style change / subset state change / add_component / update_components' % (depth, len(syms)))


def block_ok(syms):
    """inside one delay block no dataset is both removed (remove_data / remove_layer / dc.remove) and added, in either order,
    and no add_subset follows a removal (it could pick a subset of the removed dataset); see ASSUMPTIONS"""
    gone, added = set(), set()
    for s in syms:
        if s[:3] in ('rmd', 'rml', 'rem'):
            if s[-1] in added:
                return False
            gone.add(s[-1])
        elif s[:3] == 'add' and s != 'addsub':
            if s[-1] in gone:
                return False
            added.add(s[-1])
        elif s == 'addsub' and gone:
            return False
    if 'addsub' in syms and gone:
        return False
    return True


def stream_viewer_blocks(R, fixed):
    """delay blocks: (A) delay_callback(viewer.state, 'layers') around viewer and collection operations - modelled, compared step by
    step, invariants at block exit; (B) hub.delay_callbacks() around collection operations - oracle only, invariants at block exit"""
    t0 = time.time()
    prefixes = [[('append', 0), ('append', 1), ('newgroup', 0), ('add', 0, 0)],
                [('append', 0), ('append', 1), ('add', 0, 0), ('add', 0, 1)],
                [('append', 0), ('append', 1), ('newgroup', 0), ('add', 0, 0), ('rmlayer', 0, 0)]]
    inblock = ['add0', 'add1', 'rmd0', 'rmd1', 'rml0', 'rml1', 'rem0', 'rem1', 'newg', 'rmg_old', 'addsub']
    trailing = [(), ('add0',), ('rmd1',), ('newg',)]
    depth = R.pick(2, 3)
    batch = []
    for prefix in prefixes:
        for ln in range(1, depth + 1):
            for syms in itertools.product(inblock, repeat=ln):
                if not block_ok(syms):
                    continue
                for tr in (trailing if ln < 3 else trailing[:1] + trailing[3:]):
                    ops = resolve_symbols(prefix, tuple(syms) + tr)
                    if ops is None:
                        continue
                    k = len(prefix)
                    ops = ops[:k] + [('lbegin', 0)] + ops[k:k + ln] + [('lend', 0)] + ops[k + ln:]
                    conc, orac, impl = impl_history(['light'], ops, fixed)
                    batch.append((conc, orac, impl))
                    R.count(('lblock', tuple(map(tuple, conc))), nontrivial=True, stream='viewer_blocks_layers', history_len=len(conc))
    outs = R.model([history_lines(['light'], conc, fixed)[0] for conc, _, _ in batch])
    gouts = R.model([history_lines(['light'], conc, fixed, 5)[0] for conc, _, _ in batch])
    GEN_STATS['cases'] += len(batch)
    GEN_STATS['steps'] += sum(len(conc) for conc, _, _ in batch)
    nfail = 0
    for (conc, orac, impl), out, gout in zip(batch, outs, gouts):
        corr = cmp_history(['light'], conc, impl, [out]) or cmp_history(['light'], conc, impl, [gout], gen=True)
        if (orac or corr) and nfail < 3:
            nfail += 1
            report_history(R, ['light'], conc, fixed, 'viewer_blocks', False, orac, corr)
    na = len(batch)
    # (B) hub blocks around collection operations, oracle only
    coll = ['app0', 'app1', 'rem0', 'rem1', 'newg', 'rmg_old']
    nb = 0
    for prefix in prefixes[:2]:
        for ln in range(1, depth + 1):
            for syms in itertools.product(coll, repeat=ln):
                for tr in ((), ('add1',), ('newg',)):
                    ops = resolve_symbols(prefix, tuple(syms) + tr)
                    if ops is None:
                        continue
                    k = len(prefix)
                    ops = ops[:k] + [('hbegin',)] + ops[k:k + ln] + [('hend',)] + ops[k + ln:]
                    conc, orac, impl = impl_history(['light'], ops, fixed)
                    nb += 1
                    R.count(('hblock', tuple(map(tuple, conc))), nontrivial=True, stream='viewer_blocks_hub', history_len=len(conc))
                    if orac and nfail < 5:
                        nfail += 1
                        report_history(R, ['light'], conc, fixed, 'viewer_blocks', False, orac, None)
    R.sample({'viewer_blocks': [list(o) for o in prefixes[0]] + [['lbegin', 0], ['rmdata', 0, 0], ['add', 0, 1], ['lend', 0]]})
    R.stream('viewer_blocks', layers_block_cases=na, hub_block_cases=nb, exhaustive=True, wall_s=round(time.time() - t0, 1),
             bound='light viewer, 3 prefixes: every sequence of length <= %d over %d viewer/collection operations inside one delay_callback(state, "layers") block '
                   '(no re-adding of a dataset removed in the same block), then 4 trailing operations; 2 prefixes: every sequence of length <= %d over %d collection '
                   'operations inside one hub.delay_callbacks() block (oracle only), 3 trailing operations' % (depth, len(inblock), depth, len(coll)))


# ---------------------------------------------------------------------- stream: matplotlib viewers, random
def random_history(rng, nviewers, length, with_restore, ndata=3, lone=False, blocks=False, hub=False):
    ops = []
    in_dc, live, dead, ng = set(), [], [], 0
    shown = [set() for _ in range(nviewers)]
    if lone:
        # preamble that leaves subset layers without their dataset's layer: a subset handed over alone, or the dataset's
        # own layer removed afterwards; the random tail then deletes groups / datasets and re-adds
        a, b = rng.sample(range(ndata), 2)
        ops += [('append', a), ('append', b), ('newgroup', 0)]
        in_dc.update([a, b])
        live.append(0)
        ng = 1
        for vi in range(nviewers):
            if rng.random() < 0.5:
                ops.append(('addsub?',))
            else:
                d = rng.choice([a, b])
                ops += [('add', vi, d), ('rmlayer', vi, d)]
        if rng.random() < 0.5:
            ops.append(('newgroup', 1))
            live.append(1)
            ng = 2
    for _ in range(length):
        r = rng.random()
        if blocks and rng.random() < 0.18 and in_dc:
            # a delay_callback(viewer.state, 'layers') block around viewer / collection operations; inside one block a dataset
            # whose layers were removed is not added again (see ASSUMPTIONS)
            vi = rng.randrange(nviewers)
            ops.append(('lbegin', vi))
            gone, added = set(), set()
            if shown[vi] and (in_dc - shown[vi]) and rng.random() < 0.6:
                # the dataset swap: one dataset out, another one in, inside the same block
                a = rng.choice(sorted(shown[vi]))
                b = rng.choice(sorted(in_dc - shown[vi]))
                if rng.random() < 0.5:
                    ops += [('rmdata', vi, a), ('add', vi, b)]
                else:
                    ops += [('add', vi, b), ('rmdata', vi, a)]
                shown[vi].discard(a)
                shown[vi].add(b)
                gone.add(a)
                added.add(b)
            for _k in range(rng.randrange(0 if gone else 2, 3)):
                q = rng.random()
                if q < 0.35 and (shown[vi] - added):
                    a = rng.choice(sorted(shown[vi] - added))
                    ops.append(('rmdata', vi, a))
                    shown[vi].discard(a)
                    gone.add(a)
                elif q < 0.5 and (in_dc - added):
                    a = rng.choice(sorted(in_dc - added))
                    ops.append(('remove', a))
                    in_dc.discard(a)
                    gone.add(a)
                    for sh in shown:
                        sh.discard(a)
                elif q < 0.58 and (shown[vi] - added):
                    a = rng.choice(sorted(shown[vi] - added))
                    ops.append(('rmlayer', vi, a))
                    shown[vi].discard(a)
                    gone.add(a)
                elif q < 0.66:
                    ops.append(('newgroup', ng))
                    live.append(ng)
                    ng += 1
                else:
                    cand = sorted(in_dc - gone)
                    if cand:
                        b = rng.choice(cand)
                        ops.append(('add', vi, b))
                        shown[vi].add(b)
                        added.add(b)
            ops.append(('lend', vi))
            continue
        if hub and rng.random() < 0.2:
            # a hub.delay_callbacks() block around collection operations only
            ops.append(('hbegin',))
            for _k in range(rng.randrange(2, 4)):
                q = rng.random()
                d = rng.randrange(ndata)
                if q < 0.3:
                    ops.append(('append', d))
                    in_dc.add(d)
                elif q < 0.55 and in_dc:
                    d = rng.choice(sorted(in_dc))
                    ops.append(('remove', d))
                    in_dc.discard(d)
                    for sh in shown:
                        sh.discard(d)
                elif q < 0.8:
                    ops.append(('newgroup', ng))
                    live.append(ng)
                    ng += 1
                elif live:
                    g = rng.choice(live)
                    live.remove(g)
                    dead.append(g)
                    ops.append(('rmgroup', g))
            ops.append(('hend',))
            continue
        if lone and r < 0.12 and live:
            g = rng.choice(live)
            live.remove(g)
            dead.append(g)
            ops.append(('rmgroup', g))
            continue
        d = rng.randrange(ndata)
        vi = rng.randrange(nviewers)
        if r < 0.16:
            ops.append(('append', d))
            in_dc.add(d)
        elif r < 0.28:
            # prefer removing something that is there
            cand = sorted(in_dc) or [d]
            d = rng.choice(cand)
            ops.append(('remove', d))
            in_dc.discard(d)
            for s in shown:
                s.discard(d)
        elif r < 0.40:
            ops.append(('newgroup', ng))
            live.append(ng)
            ng += 1
        elif r < 0.50:
            if live and rng.random() < 0.85:
                g = rng.choice(live)
                live.remove(g)
                dead.append(g)
                ops.append(('rmgroup', g))
            elif dead:
                ops.append(('rmgroup', rng.choice(dead)))
            else:
                ops.append(('append', d))
                in_dc.add(d)
        elif r < 0.74:
            if in_dc and rng.random() < 0.9:
                d = rng.choice(sorted(in_dc))
            ops.append(('add', vi, d))
            if d in in_dc:
                shown[vi].add(d)
        elif r < 0.84:
            if shown[vi] and rng.random() < 0.8:
                d = rng.choice(sorted(shown[vi]))
            ops.append(('rmdata', vi, d))
            shown[vi].discard(d)
        elif r < 0.93:
            ops.append(('addsub?',))
        elif r < 0.96:
            if shown[vi] and rng.random() < 0.8:
                d = rng.choice(sorted(shown[vi]))
            ops.append(('rmlayer', vi, d))
            shown[vi].discard(d)
        else:
            ops.append(('restore',) if with_restore else ('add', vi, d))
            if not with_restore and d in in_dc:
                shown[vi].add(d)
    return ops


def probe_restorable(kinds):
    """which viewer kinds survive a headless save/restore (the others fail on a glue_qt import: C12's finding)"""
    ok = []
    for k in kinds:
        s = Sess([k])
        try:
            s.apply(('append', 0))
            s.apply(('newgroup', 0))
            s.apply(('add', 0, 0))
            s.restore()
            ok.append(k)
        except Exception as e:
            msg = '%s: %s' % (type(e).__name__, e)
            if 'glue_qt' not in msg:
                raise
        finally:
            s.close()
    return ok


def stream_viewer_mpl(R, fixed):
    all_kinds = ['scatter', 'image', 'histogram', 'profile']
    t0 = time.time()
    restorable = probe_restorable(all_kinds)
    R.note('viewer kinds that restore headlessly: %s' % restorable)
    budget = R.pick(30.0, 130.0)
    batch = []
    i = 0
    while time.time() - t0 < budget and i < R.pick(80, 600):
        rng = R.subrng('viewer_mpl', i)
        mode = i % 3
        if mode == 0:
            kinds, with_restore = all_kinds, False
        elif mode == 1:
            kinds, with_restore = restorable, True
        else:
            kinds, with_restore = [all_kinds[(i // 3) % 4]], False
        draw = (i % 10 == 9)
        length = rng.randrange(8, 21)
        i += 1
        if not kinds:
            continue
        hub = (i % 5 == 4)
        ops = random_history(rng, len(kinds), length if i % 2 else max(4, length - 8), with_restore, lone=(i % 2 == 0),
                             blocks=(i % 3 != 1) and not draw, hub=hub)     # no user-opened blocks in the histories that really draw (see ASSUMPTIONS)
        conc, orac, impl = impl_history(kinds, ops, fixed, draw=draw)
        batch.append((kinds, draw, conc, orac, impl))
        R.count(('mpl', tuple(kinds), tuple(map(tuple, conc))), nontrivial=any(o[0] in ('add', 'addsub') for o in conc), stream='viewer_mpl',
                history_len=len(conc), viewer_kinds='+'.join(kinds), drawing=('agg' if draw else 'stub'), mpl_lone_subset_layer=has_lone_subset(impl),
                mpl_blocks=('hub' if any(o[0] == 'hbegin' for o in conc) else 'layers' if any(o[0] == 'lbegin' for o in conc) else 'none'))
        for o in conc:
            R.hist['viewer_op'][o[0]] += 1
        if len(batch) <= 2:
            R.sample({'viewer_mpl': {'kinds': kinds, 'ops': [list(o) for o in conc]}})
    lines = []
    for kinds, draw, conc, orac, impl in batch:
        if not any(o[0] in ('hbegin', 'hend') for o in conc):
            lines += history_lines(kinds, conc, fixed)
    outs = R.model(lines)
    glines = []
    for kinds, draw, conc, orac, impl in batch:
        if not any(o[0] in ('hbegin', 'hend') for o in conc):
            glines += history_lines(kinds, conc, fixed, 5)
    gouts = R.model(glines)
    nfail = 0
    p = 0
    for kinds, draw, conc, orac, impl in batch:
        corr = None
        if not any(o[0] in ('hbegin', 'hend') for o in conc):       # hub blocks around collection operations: oracle only
            mine = outs[p:p + len(kinds)]
            gmine = gouts[p:p + len(kinds)]
            p += len(kinds)
            GEN_STATS['random_cases'] += len(kinds)
            GEN_STATS['steps'] += len(conc) * len(kinds)
            corr = cmp_history(kinds, conc, impl, mine) or cmp_history(kinds, conc, impl, gmine, gen=True)
        if (orac or corr) and nfail < 3:
            nfail += 1
            report_history(R, kinds, conc, fixed, 'viewer_mpl', draw, orac, corr)
    R.stream('viewer_mpl', cases=len(batch), exhaustive=False, wall_s=round(time.time() - t0, 1),
             bound='random histories of 8..20 ops over 3 datasets, fresh groups, 1-4 viewers on one collection; every second history starts with a preamble that leaves subset layers without their dataset layer (add_subset alone / remove_layer(data)) and removes groups more often; every 10th with real Agg drawing')


# ====================================================================== pickers
KIND_CODE = {'numerical': 0, 'datetime': 1, 'categorical': 2, 'extended': 3}     # 3: a kind none of the three filters admits
FLAG_NAMES = ['numeric', 'datetime', 'categorical', 'pixel_coord', 'world_coord', 'derived', 'none']
SEP_CODE = {'Main components': 2, 'Derived components': 3, 'Coordinate components': 4}

_PSTATE = {}


def pstate_cls(defidx):
    if defidx not in _PSTATE:
        from glue.core.state_objects import State
        from echo import SelectionCallbackProperty

        class PState(State):
            att = SelectionCallbackProperty(default_index=defidx)
            data = SelectionCallbackProperty()
        _PSTATE[defidx] = PState
    return _PSTATE[defidx]


def make_values(kind, shape, salt):
    n = int(np.prod(shape))
    if kind == 0:
        return (np.arange(n, dtype=float) + salt).reshape(shape)
    if kind == 1:
        return (np.datetime64('2020-01-01') + np.arange(n) + salt).reshape(shape)
    return np.array(['a%d' % ((i + salt) % 3) for i in range(n)]).reshape(shape)


class PickerWorld(object):
    """real datasets + a ComponentIDComboHelper on a plain State; integer ids for component ids"""

    def __init__(self, spec, flags, defidx, hasdc):
        from glue.core import Data, DataCollection
        from glue.core.coordinates import IdentityCoordinates
        from glue.core.data_combo_helper import ComponentIDComboHelper
        self.cids = {}
        self.objs = {}
        self.ncid = 0
        self.data = {}
        self.dinfo = []
        for (d, shape, coords, kinds) in spec:
            kw = {}
            if 3 in kinds:
                # RegionData: main components = the two centre components, the ExtendedComponent 'boundary' (kind 'extended'),
                # then the other columns; kinds must be [0, 0, 3, ...]
                import shapely
                from glue.core.data_region import RegionData
                assert kinds[:3] == [0, 0, 3] and len(shape) == 1
                for j, k in enumerate(kinds):
                    if j >= 3:
                        kw['c%d_%d' % (d, j)] = make_values(k, shape, d + j)
                geoms = np.array([shapely.Point(float(i), float(2 * i + d)).buffer(1.0 + i) for i in range(shape[0])])
                data = RegionData(label='d%d' % d, boundary=geoms, **kw)
                got = [KIND_CODE[data.get_kind(c)] for c in data.main_components]
                assert got == list(kinds), (got, kinds)
            else:
                for j, k in enumerate(kinds):
                    kw['c%d_%d' % (d, j)] = make_values(k, shape, d + j)
                data = Data(label='d%d' % d, coords=IdentityCoordinates(n_dim=len(shape)) if coords else None, **kw)
            self.data[d] = data
            main = [(self.cid_id(c), KIND_CODE[data.get_kind(c)]) for c in data.main_components]
            self.dinfo.append((0, [d, (0, [(0, [a, b]) for a, b in main]), (0, []),
                                   Z([self.cid_id(c) for c in data.pixel_component_ids]),
                                   Z([self.cid_id(c) for c in data.world_component_ids])]))
        self.dc = DataCollection([self.data[d] for d in sorted(self.data)])
        self.state = pstate_cls(defidx)()
        kw = dict(zip(FLAG_NAMES, flags))
        self.helper = ComponentIDComboHelper(self.state, 'att', data_collection=self.dc if hasdc else None, **kw)
        self.hub_cm = None
        self.echo_cm = None
        self.nlabel = 0

    def cid_id(self, c):
        k = id(c)
        if k not in self.cids:
            self.cids[k] = self.ncid
            self.objs[self.ncid] = c
            self.ncid += 1
        return self.cids[k]

    def apply(self, op):
        from echo import delay_callback
        k = op[0]
        if k == 'pappend':
            self.helper.append_data(self.data[op[1]])
        elif k == 'premove':
            self.helper.remove_data(self.data[op[1]])
        elif k == 'psetmulti':
            self.helper.set_multiple_data([self.data[d] for d in op[1]])
        elif k == 'pclear':
            self.helper.clear()
        elif k == 'pflag':
            setattr(self.helper, FLAG_NAMES[op[1]], bool(op[2]))
        elif k == 'pselect':
            try:
                self.state.att = self.objs[op[1]]
            except ValueError:
                return 1
        elif k == 'daddmain':
            d, c, kind = op[1:4]
            data = self.data[d]
            self.nlabel += 1
            cid = data.add_component(make_values(kind, data.shape, c), 'n%d' % self.nlabel)
            assert self.cid_id(cid) == c, (self.cid_id(cid), c)
        elif k == 'daddder':
            d, c, dep = op[1:4]
            data = self.data[d]
            self.nlabel += 1
            label = 'der%d' % self.nlabel
            data[label] = self.objs[dep] * 2
            cid = data.id[label]
            assert self.cid_id(cid) == c, (self.cid_id(cid), c)
        elif k == 'dremove':
            self.data[op[1]].remove_component(self.objs[op[2]])
        elif k == 'dreorder':
            # op[2] = the new order of the main components; every other component keeps its place
            data = self.data[op[1]]
            mains = [id(c) for c in data.main_components]
            it = iter(op[2])
            full = [self.objs[next(it)] if id(c) in mains else c for c in data.components]
            data.reorder_components(full)
        elif k == 'drename':
            self.nlabel += 1
            self.objs[op[2]].label = 'ren%d' % self.nlabel
        elif k == 'dcremove':
            self.dc.remove(self.data[op[1]])
        elif k == 'delaybegin':
            self.hub_cm = self.dc.hub.delay_callbacks()
            self.hub_cm.__enter__()
        elif k == 'delayend':
            cm, self.hub_cm = self.hub_cm, None
            cm.__exit__(None, None, None)
        elif k == 'echobegin':
            self.echo_cm = delay_callback(self.state, 'att')
            self.echo_cm.__enter__()
        elif k == 'echoend':
            cm, self.echo_cm = self.echo_cm, None
            cm.__exit__(None, None, None)
        else:
            raise KeyError(k)
        return 0

    def enc_choice(self, c):
        from echo import ChoiceSeparator
        if c is None:
            return (0,)
        if isinstance(c, ChoiceSeparator):
            s = str(c)
            if s in SEP_CODE:
                return (1, SEP_CODE[s], 0)
            return (1, 1, int(s[1:]) if s[1:].isdigit() else -1)
        return (2, self.cids.get(id(c), -1))

    def observe(self):
        sel = self.state.att
        return {'choices': [self.enc_choice(c) for c in self.helper.choices],
                'sel': None if sel is None else self.cids.get(id(sel), -1),
                'datas': [int(d.label[1:]) for d in self.helper._data]}

    def finish(self):
        for cm in (self.hub_cm, self.echo_cm):
            if cm is not None:
                try:
                    cm.__exit__(None, None, None)
                except Exception:
                    pass
        self.hub_cm = self.echo_cm = None

    def oracle(self):
        out = state_picker_problems(self.state, self.dc, 'state')
        if self.hub_cm is None:
            out += helper_problems(self.helper, 'helper')
        return out


def penc(op):
    k = op[0]
    if k == 'pappend':
        return (1, [op[1]])
    if k == 'premove':
        return (2, [op[1]])
    if k == 'psetmulti':
        return (3, [Z(op[1])])
    if k == 'pclear':
        return (4, [])
    if k == 'pflag':
        return (5, [op[1], 1 if op[2] else 0])
    if k == 'pselect':
        return (6, [op[1]])
    if k == 'daddmain':
        return (7, [op[1], op[2], op[3]])
    if k == 'daddder':
        return (8, [op[1], op[2], op[3]])
    if k == 'dremove':
        return (9, [op[1], op[2]])
    if k == 'dreorder':
        return (10, [op[1], Z(op[2])])
    if k == 'drename':
        return (11, [op[1], op[2]])
    if k == 'dcremove':
        return (12, [op[1]])
    if k == 'delaybegin':
        return (13, [])
    if k == 'delayend':
        return (14, [])
    return None


def dec_choice(t):
    if tag(t) == 0:
        return (0,)
    return (tag(t),) + tuple(to_zs(t))


def dec_pobs(t):
    k = kids(t)
    sel = k[1]
    return {'status': tag(t), 'choices': [dec_choice(x) for x in kids(k[0])],
            'sel': None if tag(sel) == 0 else kids(sel)[0][0], 'datas': to_zs(k[2])}


def impl_picker(spec, flags, defidx, hasdc, ops):
    """returns (oracle failure or None, observations, wire line)"""
    w = PickerWorld(spec, flags, defidx, hasdc)
    impl = []
    orac = None
    for i, op in enumerate(ops):
        try:
            status = w.apply(op)
        except Exception as e:
            orac = orac or {'step': i, 'problems': ['operation %r raised %s: %s' % (op, type(e).__name__, e)]}
            break
        o = w.observe()
        o['status'] = status
        impl.append((i, op, o))
        if orac is None:
            pr = w.oracle()
            if pr:
                orac = {'step': i, 'problems': pr[:4]}
    w.finish()
    mops = [penc(op) for op in ops]
    line = enc((2, [(0, w.dinfo), B(flags), defidx, 1 if hasdc else 0, (0, [m for m in mops if m is not None])]))
    return orac, impl, line


def cmp_picker(ops, impl, out):
    steps = [dec_pobs(t) for t in kids(out)]
    pos = {}
    n = 0
    for i, op in enumerate(ops):
        if penc(op) is not None:
            pos[i] = n
            n += 1
    corr = None
    last = {'status': 0, 'choices': [], 'sel': None, 'datas': []}
    for (i, op, o) in impl:
        if i in pos:
            last = steps[pos[i]]
        diff = []
        if [tuple(x) for x in o['choices']] != [tuple(x) for x in last['choices']]:
            diff.append('choices')
        if o['sel'] != last['sel']:
            diff.append('sel')
        if list(o['datas']) != list(last['datas']):
            diff.append('datas')
        if i in pos and o['status'] != last['status']:
            diff.append('status')
        if diff and corr is None:
            corr = {'step': i, 'op': list(op), 'fields': diff, 'impl': {k: o[k] for k in diff}, 'model': {k: last[k] for k in diff}}
    return corr


def gen_picker_line(line):
    assert line.startswith('(2 ')
    return '(6 ' + line[3:]


def gen_dpicker_line(line):
    assert line.startswith('(3 ')
    return '(7 ' + line[3:]


def run_picker_history(R, spec, flags, defidx, hasdc, ops):
    orac, impl, line = impl_picker(spec, flags, defidx, hasdc, ops)
    o1, o2 = R.model([line, gen_picker_line(line)])
    return orac, (cmp_picker(ops, impl, o1) or cmp_picker(ops, impl, o2))


class PickerGen(object):
    """generates mostly-valid picker histories while tracking a shadow of the data (ids only) to pick meaningful arguments"""

    def __init__(self, spec):
        # mirror PickerWorld's id allocation: per dataset main components, then pixel, then world ids
        self.ncid = 0
        self.main = {}
        self.der = {}
        self.coord = {}
        self.shape = {}
        for (d, shape, coords, kinds) in spec:
            self.main[d] = []
            for k in kinds:
                self.main[d].append((self.ncid, k))
                self.ncid += 1
            n = len(shape) * (2 if coords else 1)
            self.coord[d] = list(range(self.ncid, self.ncid + n))
            self.ncid += n
            self.der[d] = []
            self.shape[d] = shape
        self.region = set(d for (d, shape, coords, kinds) in spec if 3 in kinds)
        self.removed = []
        self.datas = []
        self.in_dc = set(self.main)
        self.delay = False
        self.echo = False

    def all_cids(self):
        out = []
        for d in self.main:
            out += [c for c, _ in self.main[d]] + [c for c, _ in self.der[d]] + self.coord[d]
        return out

    def gen(self, rng):
        ds = sorted(self.main)
        r = rng.random()
        d = rng.choice(ds)
        if r < 0.12:
            if d not in self.datas:
                self.datas.append(d)
            return ('pappend', d)
        if r < 0.18:
            if self.datas and rng.random() < 0.8:
                d = rng.choice(self.datas)
            if d in self.datas:
                self.datas.remove(d)
            return ('premove', d)
        if r < 0.23:
            l = [rng.choice(ds) for _ in range(rng.randrange(0, 4))]
            self.datas = []
            for x in l:
                if x not in self.datas:
                    self.datas.append(x)
            return ('psetmulti', l)
        if r < 0.25:
            self.datas = []
            return ('pclear',)
        if r < 0.38:
            return ('pflag', rng.randrange(7), rng.random() < 0.5)
        if r < 0.52:
            pool = self.all_cids()
            if self.removed and rng.random() < 0.15:
                return ('pselect', rng.choice(self.removed))
            return ('pselect', rng.choice(pool))
        if r < 0.64:
            k = rng.choice([0, 0, 2, 1])
            c = self.ncid
            self.ncid += 1
            self.main[d].append((c, k))
            return ('daddmain', d, c, k)
        if r < 0.73:
            nums = [c for c, k in self.main[d] if k == 0]
            if not nums or d in self.region:      # RegionData.add_component does not take a link (TypeError): no derived components there
                return ('pflag', rng.randrange(7), rng.random() < 0.5)
            dep = rng.choice(nums)
            c = self.ncid
            self.ncid += 1
            self.der[d].append((c, dep))
            return ('daddder', d, c, dep)
        if r < 0.82:
            pool = [c for c, _ in self.main[d]] + [c for c, _ in self.der[d]]
            if not pool:
                return ('pflag', rng.randrange(7), rng.random() < 0.5)
            c = rng.choice(pool)
            withdeps = sorted(set(dep for _, dep in self.der[d]))
            if withdeps and rng.random() < 0.5:
                c = rng.choice(withdeps)      # a component other derived components depend on: cascade of removals
            self.main[d] = [(a, k) for a, k in self.main[d] if a != c]
            gone = [a for a, dep in self.der[d] if a == c or dep == c]
            self.der[d] = [(a, dep) for a, dep in self.der[d] if a != c and dep != c]
            self.removed += [c] + gone
            return ('dremove', d, c)
        if r < 0.86:
            m = [c for c, _ in self.main[d]]
            if len(m) < 2:
                return ('drename', d, rng.choice(self.all_cids())) if self.all_cids() else ('pclear',)
            new = list(m)
            while new == m:
                rng.shuffle(new)
            km = dict(self.main[d])
            self.main[d] = [(c, km[c]) for c in new]
            return ('dreorder', d, new)
        if r < 0.89:
            pool = [c for c, _ in self.main[d]]
            if pool:
                return ('drename', d, rng.choice(pool))
            return ('pclear',)
        if r < 0.93:
            if d in self.in_dc:
                self.in_dc.discard(d)
            return ('dcremove', d)
        if r < 0.97:
            if self.delay:
                self.delay = False
                return ('delayend',)
            self.delay = True
            return ('delaybegin',)
        if self.echo:
            self.echo = False
            return ('echoend',)
        self.echo = True
        return ('echobegin',)

    def close(self):
        out = []
        if self.delay:
            out.append(('delayend',))
            self.delay = False
        if self.echo:
            out.append(('echoend',))
            self.echo = False
        return out


PICKER_SPECS = [
    [(0, (3,), False, [0, 2]), (1, (3,), False, [0, 0, 1])],
    [(0, (2, 2), True, [0, 2, 0]), (1, (2, 2), False, [2]), (2, (4,), True, [2])],
    [(0, (2, 3), True, [0]), (1, (2, 3), True, [0, 1, 2, 0])],
    # a dataset with a component of a fourth kind ('extended', glue.core.data_region.RegionData): never to be offered
    [(0, (3,), False, [0, 0, 3, 0, 2]), (1, (3,), False, [2, 0])],
]


def stream_picker(R):
    t0 = time.time()
    batch = []
    # (i) exhaustive short histories over a small alphabet on the first spec
    spec = PICKER_SPECS[0]
    flags0 = [True, True, True, False, False, True, False]
    alphabet = [('pappend', 0), ('pappend', 1), ('premove', 0), ('pflag', 0, False), ('pflag', 2, False), ('pflag', 0, True), ('pflag', 6, True),
                ('pflag', 3, True), ('pselect', 1), ('pselect', 2), ('dremove', 0, 0), ('dremove', 0, 1), ('daddmain', 0, 'new', 0),
                ('dcremove', 0), ('delaybegin',), ('delayend',), ('psetmulti', [1, 0])]
    depth = 3
    for hasdc in (True, False):
        # without a data collection only the reaction to dc.remove differs: one level less in the quick tier
        for ln in range(1, (depth if (hasdc or not R.quick()) else depth - 1) + 1):
            for seq in itertools.product(alphabet, repeat=ln):
                ops = []
                ok = True
                delay = False
                nxt = PickerGen(spec).ncid
                removed = set()
                for op in seq:
                    if op[0] == 'delaybegin':
                        if delay:
                            ok = False
                            break
                        delay = True
                    elif op[0] == 'delayend':
                        if not delay:
                            ok = False
                            break
                        delay = False
                    if op[0] == 'daddmain':
                        op = ('daddmain', 0, nxt, 0)
                        nxt += 1
                    if op[0] == 'dremove':
                        if op[2] in removed:
                            ok = False
                            break
                        removed.add(op[2])
                    ops.append(op)
                if not ok:
                    continue
                if delay:
                    ops.append(('delayend',))
                orac, impl, line = impl_picker(spec, flags0, 0, hasdc, ops)
                batch.append((spec, flags0, 0, hasdc, ops, orac, impl, line))
                R.count(('picker_exh', hasdc, tuple(map(str, ops))), nontrivial=any(o[0] in ('pappend', 'psetmulti') for o in ops),
                        stream='picker_exhaustive', history_len=len(ops))
    nexh = len(batch)
    # (ii) random long histories
    nrand = R.pick(1500, 12000)
    for i in range(nrand):
        rng = R.subrng('picker', i)
        spec = PICKER_SPECS[i % len(PICKER_SPECS)]
        flags = [rng.random() < p for p in (0.85, 0.7, 0.7, 0.3, 0.3, 0.7, 0.2)]
        defidx = rng.choice([0, 0, 1, -1, -2, 5])
        hasdc = rng.random() < 0.6
        g = PickerGen(spec)
        ops = [g.gen(rng) for _ in range(rng.randrange(5, 21))]
        ops += g.close()
        orac, impl, line = impl_picker(spec, flags, defidx, hasdc, ops)
        batch.append((spec, flags, defidx, hasdc, ops, orac, impl, line))
        R.count(('picker', i, tuple(map(str, ops))), nontrivial=any(o[0] in ('pappend', 'psetmulti') for o in ops), stream='picker_random',
                history_len=len(ops), default_index=defidx)
        for o in ops:
            R.hist['picker_op'][o[0]] += 1
        if i < 2:
            R.sample({'picker': {'spec': spec, 'flags': flags, 'default_index': defidx, 'data_collection': hasdc, 'ops': [list(o) for o in ops]}})
    outs = R.model([b[7] for b in batch])
    # the same histories through the functions translated from data_combo_helper.py (run_case tag 6, coq/gen/Gen_picker.v)
    gouts = R.model([gen_picker_line(b[7]) for b in batch])
    nfail = 0
    for (spec, flags, defidx, hasdc, ops, orac, impl, line), out, gout in zip(batch, outs, gouts):
        corr = cmp_picker(ops, impl, out)
        if corr is None:
            corr = cmp_picker(ops, impl, gout)
            if corr is not None:
                corr['machine'] = 'translated (Gen_picker.v)'
        if (orac or corr) and nfail < 3:
            nfail += 1
            report_picker(R, spec, flags, defidx, hasdc, ops, orac, corr)
    R.stream('picker_gen', exhaustive_cases=nexh, random_cases=nrand, exhaustive=True,
             bound='every history of the picker stream is also run through the translated ComponentIDComboHelper.refresh / _filter_msg / register_to_hub table '
                   '(run_case tag 6): choices, selection, datasets and status compared after every step')
    R.stream('picker', exhaustive_cases=nexh, random_cases=nrand, wall_s=round(time.time() - t0, 1),
             bound='exhaustive: all sequences of length <= %d over %d ops (2 datasets, helper with data_collection; without it one level less in the quick tier); random: 5..20 ops over 3 dataset '
                   'configurations (1-d/2-d, with/without coords, numerical/categorical/datetime), 7 filter flags, default_index in {0,1,-1,-2,5}, '
                   'hub delay blocks and echo delay blocks' % (depth, len(alphabet)))


def report_picker(R, spec, flags, defidx, hasdc, ops, orac, corr):
    def pred(o, c):
        return (o is not None) if orac is not None else (c is not None and o is None)
    cur = list(ops)
    # nothing after the failing step matters: cut there (closing any block left open)
    first = orac if orac is not None else corr
    if first is not None and isinstance(first.get('step'), int) and 0 <= first['step'] < len(cur) - 1:
        cut = cur[:first['step'] + 1]
        if sum(1 for o in cut if o[0] == 'delaybegin') > sum(1 for o in cut if o[0] == 'delayend'):
            cut.append(('delayend',))
        if sum(1 for o in cut if o[0] == 'echobegin') > sum(1 for o in cut if o[0] == 'echoend'):
            cut.append(('echoend',))
        try:
            o, c = run_picker_history(R, spec, flags, defidx, hasdc, cut)
            if pred(o, c):
                cur = cut
        except Exception:
            pass
    changed = True
    budget = 200
    while changed and budget > 0:
        changed = False
        for i in range(len(cur) - 1, -1, -1):
            if cur[i][0] in ('daddmain', 'daddder'):
                continue      # component ids are numbered by creation
            cand = cur[:i] + cur[i + 1:]
            if not picker_valid(cand):
                continue
            budget -= 1
            try:
                o, c = run_picker_history(R, spec, flags, defidx, hasdc, cand)
            except Exception:
                continue
            if pred(o, c):
                cur = cand
                changed = True
    o, c = run_picker_history(R, spec, flags, defidx, hasdc, cur)
    case = {'stream': 'picker', 'spec': spec, 'flags': flags, 'default_index': defidx, 'data_collection': hasdc, 'ops': [list(x) for x in cur]}
    if orac is not None:
        R.fail('oracle', case, o or orac, key=None)
    else:
        R.fail('correspondence', case, c or corr)


def picker_valid(ops):
    """dropping ops must keep delay blocks balanced"""
    delay = echo = False
    for op in ops:
        if op[0] == 'delaybegin':
            if delay:
                return False
            delay = True
        elif op[0] == 'delayend':
            if not delay:
                return False
            delay = False
        elif op[0] == 'echobegin':
            if echo:
                return False
            echo = True
        elif op[0] == 'echoend':
            if not echo:
                return False
            echo = False
    return not delay and not echo


# ---------------------------------------------------------------------- data pickers
def impl_dpicker(manual, ndata, ops):
    from glue.core import Data, DataCollection
    from glue.core.data_combo_helper import ManualDataComboHelper, DataCollectionComboHelper
    data = {d: Data(x=[1, 2, 3], label='d%d' % d) for d in range(ndata)}
    dc = DataCollection([data[0], data[1]])
    state = pstate_cls(0)()
    helper = ManualDataComboHelper(state, 'data', data_collection=dc) if manual else DataCollectionComboHelper(state, 'data', dc)
    impl = []
    orac = None
    for i, op in enumerate(ops):
        status = 0
        try:
            if op[0] == 'append':
                helper.append_data(data[op[1]])
            elif op[0] == 'remove':
                helper.remove_data(data[op[1]])
            elif op[0] == 'setmulti':
                helper.set_multiple_data([data[d] for d in op[1]])
            elif op[0] == 'select':
                try:
                    state.data = data[op[1]]
                except ValueError:
                    status = 1
            elif op[0] == 'dcadd':
                dc.append(data[op[1]])
            elif op[0] == 'dcremove':
                dc.remove(data[op[1]])
        except Exception as e:
            orac = orac or {'step': i, 'problems': ['operation %r raised %s: %s' % (op, type(e).__name__, e)]}
            break
        ch = [int(c.label[1:]) for c in helper.choices]
        sel = None if state.data is None else int(state.data.label[1:])
        impl.append((ch, sel, status))
        pr = state_picker_problems(state, dc, 'state')
        src = [int(d.label[1:]) for d in helper._datasets]
        if ch != src:
            pr.append('choices %r differ from the datasets %r' % (ch, src))
        if not manual and ch != [int(d.label[1:]) for d in dc]:
            pr.append('choices %r differ from the collection' % ch)
        if pr and orac is None:
            orac = {'step': i, 'problems': pr[:4]}
    mops = []
    code = {'append': 1, 'remove': 2, 'select': 4, 'dcadd': 5, 'dcremove': 6}
    for op in ops:
        if op[0] == 'setmulti':
            mops.append((3, [Z(op[1])]))
        else:
            mops.append((code[op[0]], [op[1]]))
    return orac, impl, enc((3, [1 if manual else 0, Z([0, 1]), (0, mops)]))


def cmp_dpicker(impl, out):
    corr = None
    for i, (t, (ch, sel, status)) in enumerate(zip(kids(out), impl)):
        k = kids(t)
        mch = [kids(x)[0][0] for x in kids(k[0])]
        msel = None if tag(k[1]) == 0 else kids(k[1])[0][0]
        if (mch, msel, tag(t)) != (ch, sel, status) and corr is None:
            corr = {'step': i, 'impl': [ch, sel, status], 'model': [mch, msel, tag(t)]}
    return corr


def run_dpicker_history(R, manual, ndata, ops):
    orac, impl, line = impl_dpicker(manual, ndata, ops)
    o1, o2 = R.model([line, gen_dpicker_line(line)])
    return orac, (cmp_dpicker(impl, o1) or cmp_dpicker(impl, o2))


def stream_data_picker(R):
    t0 = time.time()
    ndata = 3
    alpha_manual = [('append', 0), ('append', 1), ('append', 2), ('remove', 0), ('remove', 1), ('setmulti', [1, 0, 1]), ('setmulti', []),
                    ('select', 0), ('select', 1), ('dcremove', 0), ('dcremove', 1), ('dcadd', 2), ('dcadd', 0)]
    alpha_dc = [('select', 0), ('select', 1), ('select', 2), ('dcremove', 0), ('dcremove', 1), ('dcadd', 2), ('dcadd', 0), ('dcadd', 1)]
    depth = R.pick(3, 4)
    batch = []
    for manual, alpha in ((True, alpha_manual), (False, alpha_dc)):
        for ln in range(1, depth + 1):
            for seq in itertools.product(alpha, repeat=ln):
                ops = list(seq)
                orac, impl, line = impl_dpicker(manual, ndata, ops)
                batch.append((manual, ops, orac, impl, line))
                R.count(('dpicker', manual, tuple(map(str, ops))), nontrivial=True, stream='data_picker', history_len=len(ops))
    outs = R.model([b[4] for b in batch])
    # the same histories through the translated dataset pickers (run_case tag 7, coq/gen/Gen_picker.v second half)
    gouts = R.model([gen_dpicker_line(b[4]) for b in batch])
    R.stream('data_picker_gen', cases=len(batch), exhaustive=True,
             bound='every history of the data_picker stream also through the translated ManualDataComboHelper / DataCollectionComboHelper procedures and subscription tables (tag 7)')
    nfail = 0
    for (manual, ops, orac, impl, line), out, gout in zip(batch, outs, gouts):
        corr = cmp_dpicker(impl, out)
        if corr is None:
            corr = cmp_dpicker(impl, gout)
            if corr is not None:
                corr['machine'] = 'translated (Gen_picker.v)'
        if (orac or corr) and nfail < 3:
            nfail += 1
            case = {'stream': 'data_picker', 'manual': manual, 'ops': [list(o) for o in ops]}
            if orac:
                R.fail('oracle', case, orac, key=None)
            else:
                R.fail('correspondence', case, corr)
    R.sample({'data_picker': {'manual': True, 'ops': [['append', 0], ['append', 1], ['select', 1], ['dcremove', 1]]}})
    R.stream('data_picker', cases=len(batch), exhaustive=True, wall_s=round(time.time() - t0, 1),
             bound='all sequences of length <= %d over %d / %d ops for ManualDataComboHelper / DataCollectionComboHelper, 3 datasets' % (depth, len(alpha_manual), len(alpha_dc)))


# ---------------------------------------------------------------------- image axes
def impl_axes(n, world, ops):
    from glue.core import Data
    from glue.core.coordinates import IdentityCoordinates
    from glue.viewers.image.state import ImageViewerState, ImageLayerState

    def mk(nd, i):
        return Data(label='r%d_%d' % (nd, i), x=np.zeros((2,) * nd), coords=IdentityCoordinates(n_dim=nd) if world else None)
    data = mk(n, 0)
    state = ImageViewerState()
    state.layers.append(ImageLayerState(layer=data, viewer_state=state))
    cur = [data]
    impl = []
    orac = None

    def ids():
        d = cur[0]
        pix = d.pixel_component_ids
        wor = d.world_component_ids if world else pix
        return pix, wor

    def idx(lst, v):
        for i, x in enumerate(lst):
            if x is v:
                return i
        return -1

    def obs():
        pix, wor = ids()
        return [idx(pix, state.x_att), idx(pix, state.y_att), idx(wor, state.x_att_world), idx(wor, state.y_att_world)]
    pr = image_axes_problems(state)
    if pr:
        orac = {'step': -1, 'problems': pr}
    for i, op in enumerate(ops):
        pix, wor = ids()
        try:
            if op[0] == 'x':
                state.x_att = pix[op[1]]
            elif op[0] == 'y':
                state.y_att = pix[op[1]]
            elif op[0] == 'xw':
                state.x_att_world = wor[op[1]]
            elif op[0] == 'yw':
                state.y_att_world = wor[op[1]]
            elif op[0] == 'ref':
                d2 = mk(op[1], i + 1)
                state.layers.append(ImageLayerState(layer=d2, viewer_state=state))
                state.reference_data = d2
                cur[0] = d2
        except Exception as e:
            orac = orac or {'step': i, 'problems': ['assignment %r raised %s: %s' % (op, type(e).__name__, e)]}
            break
        impl.append((obs(), 0))
        pr = image_axes_problems(state)
        if state.reference_data is not cur[0]:
            pr.append('reference data is not the dataset just selected')
        if pr and orac is None:
            orac = {'step': i, 'problems': pr[:4]}
    code = {'x': 1, 'y': 2, 'xw': 3, 'yw': 4, 'ref': 5}
    return orac, impl, enc((4, [n, (0, [(code[o[0]], [o[1]]) for o in ops])]))


def cmp_axes(impl, out):
    corr = None
    for i, (t, (o, status)) in enumerate(zip(kids(out), impl)):
        m = to_zs(t)
        if (m, tag(t)) != (o, status) and corr is None:
            corr = {'step': i, 'impl': o, 'model': m, 'model_status': tag(t)}
    return corr


def run_axes_history(R, n, world, ops):
    orac, impl, line = impl_axes(n, world, ops)
    return orac, cmp_axes(impl, R.model([line])[0])


def stream_image_axes(R):
    t0 = time.time()
    batch = []

    def one(n, world, ops, stream):
        orac, impl, line = impl_axes(n, world, ops)
        batch.append((n, world, ops, orac, impl, line))
        R.count(('axes', n, world, tuple(ops)), nontrivial=True, stream=stream, ndim=n, history_len=len(ops))
    depth = R.pick({2: 3, 3: 2, 4: 2}, {2: 4, 3: 2, 4: 2})
    for world in (False, True):
        for n in (2, 3, 4):
            alpha = [(p, v) for p in ('x', 'y', 'xw', 'yw') for v in range(n)]
            for ln in range(1, depth[n] + 1):
                for seq in itertools.product(alpha, repeat=ln):
                    one(n, world, list(seq), 'image_axes_exhaustive')
    nexh = len(batch)
    for i in range(R.pick(150, 1500)):
        rng = R.subrng('axes', i)
        n = rng.choice([2, 3, 3, 4, 5])
        world = rng.random() < 0.5
        ops = []
        cur = n
        for _ in range(rng.randrange(4, 21)):
            if rng.random() < 0.1:
                cur = rng.choice([2, 3, 4])
                ops.append(('ref', cur))
            else:
                ops.append((rng.choice(['x', 'y', 'xw', 'yw']), rng.randrange(cur)))
        one(n, world, ops, 'image_axes_random')
    outs = R.model([b[5] for b in batch])
    nfail = 0
    for (n, world, ops, orac, impl, line), out in zip(batch, outs):
        corr = cmp_axes(impl, out)
        if (orac or corr) and nfail < 3:
            nfail += 1
            cur = list(ops)
            changed = True
            while changed:
                changed = False
                for i in range(len(cur) - 1, -1, -1):
                    cand = cur[:i] + cur[i + 1:]
                    o, c = run_axes_history(R, n, world, cand)
                    if (orac and o) or (not orac and c and not o):
                        cur = cand
                        changed = True
                        break
            o, c = run_axes_history(R, n, world, cur)
            case = {'stream': 'image_axes', 'ndim': n, 'world': world, 'ops': [list(x) for x in cur]}
            if orac:
                R.fail('oracle', case, o or orac, key=None)
            else:
                R.fail('correspondence', case, c or corr)
    R.sample({'image_axes': {'ndim': 3, 'world': True, 'ops': [['xw', 1], ['y', 1], ['ref', 2], ['x', 0]]}})
    R.stream('image_axes', exhaustive_cases=nexh, random_cases=len(batch) - nexh, wall_s=round(time.time() - t0, 1),
             bound='exhaustive: all assignment sequences of length <= %s (by ndim) to x_att/y_att/x_att_world/y_att_world, ndim 2..4, with and without world coordinates; '
                   'random: 4..20 assignments incl. changes of the reference data, ndim 2..5' % (depth,))


# ====================================================================== entry points
def run(R):
    import warnings
    warnings.filterwarnings('ignore')
    R.rule = ('operation histories: exhaustive short sequences over a small alphabet per stream plus seeded random histories of up to 20 operations; '
              'after EVERY operation the real objects are compared with the extracted model and the invariants of the property are evaluated on the real objects. '
              'A history is non-trivial when the viewer is given at least one dataset (viewer streams) / the picker is given at least one dataset (picker streams); '
              'distinct = distinct canonical (configuration, operation sequence) tuples')
    fixed = probe_fixed()
    R.note('collection behaviour probed: dc.remove detaches grouped subsets (C06 repair present) = %s' % fixed)
    stream_image_axes(R)
    stream_data_picker(R)
    stream_picker(R)
    stream_viewer_light(R, fixed)
    stream_viewer_blocks(R, fixed)
    stream_viewer_updates(R, fixed)
    stream_viewer_mpl(R, fixed)
    R.stream('viewer_gen', cases=GEN_STATS['cases'], random_cases=GEN_STATS['random_cases'], steps=GEN_STATS['steps'], exhaustive=True,
             bound='every history of viewer_light and viewer_blocks (exhaustive small scope) and every modelled history of viewer_mpl (seeded random) is also run '
                   'through the functions translated from viewer.py / layer_artist.py (run_case tag 5, coq/gen/Gen_viewer.v): artists, state.layers, status and error flag '
                   'compared after every step; for the light viewer also the sequence of opaque calls (draw_legend, artist.update / remove) of every step')


def replay(R, case):
    import warnings
    warnings.filterwarnings('ignore')
    if not isinstance(case, dict):
        return {'note': 'this replay file records a broken proof / correspondence without a failing input of the property; see its `broken` and `correspondence_cases` fields', 'violates': False}
    st = case.get('stream')
    out = {'case': case}
    if st in ('viewer_light', 'viewer_mpl', 'viewer_blocks', 'viewer_updates'):
        fixed = probe_fixed()
        ops = [tuple(o) for o in case['ops']]
        orac, corr = run_history(R, case['kinds'], ops, fixed, st, draw=case.get('draw', False))
        out.update(oracle=orac, correspondence=corr, violates=orac is not None)
    elif st == 'picker':
        ops = [tuple(tuple(x) if isinstance(x, list) and o[0] != 'psetmulti' and o[0] != 'dreorder' else x for x in o) for o in case['ops']]
        spec = [tuple(tuple(y) if i == 1 else y for i, y in enumerate(s)) for s in case['spec']]
        orac, corr = run_picker_history(R, spec, case['flags'], case['default_index'], case['data_collection'], ops)
        out.update(oracle=orac, correspondence=corr, violates=orac is not None)
    elif st == 'data_picker':
        orac, corr = run_dpicker_history(R, case['manual'], 3, [tuple(o) for o in case['ops']])
        out.update(oracle=orac, correspondence=corr, violates=orac is not None)
    elif st == 'image_axes':
        orac, corr = run_axes_history(R, case['ndim'], case['world'], [tuple(o) for o in case['ops']])
        out.update(oracle=orac, correspondence=corr, violates=orac is not None)
    else:
        out['note'] = 'unknown stream'
    return out
