"""C10 — statistics and histograms equal their definition regardless of chunking or views.

Implementation under test: Data.compute_statistic / Data.compute_histogram (glue/core/data.py),
utils.compute_statistic (glue/utils/array.py), ProfileLayerState.profile, HistogramLayerState.histogram.

Three things are compared on every case:
  * implementation  : the real call;
  * model           : coq/C10/Model.v run_case (extracted) -- for statistics it returns the result shape and, for every
                      output lane, the flat positions of the kept values that feed the reducer; the harness applies
                      numpy's plain reducer to exactly those values (correspondence of the index arithmetic);
  * oracle          : the textbook definition in plain numpy (mask and filters on the full array, then the view,
                      then np.nan* along the axes) -- independent of the model.
"""
import itertools
import math
import warnings
from fractions import Fraction

import numpy as np

from harness.common import enc, Z, B, opt, to_zs, is_err, err_code, kids, tag

PROP = 'C10'
GENERATORS = ['gen_array', 'gen_stat', 'gen_arraypure']   # gen_arraypure: C20.Model (imported through C20's lemma files) uses Gen_arraypure
TRUSTED = [
    'translator tools/py2gallina.py: Gen_array.iterate_chunks (called by the translated chunk loop) is regenerated from glue/utils/array.py on every run',
    'translator tools/gen/gen_stat.py (fail-closed, ast only): Data.compute_statistic and Data.compute_histogram of glue/core/data.py are regenerated statement by '
    'statement into coq/gen/Gen_stat.v on every run (numpy kernels = opaque named operations); proved equal to the hand model (coq/C10/GenEquiv*.v, GenHist.v) and run '
    'against the live code (streams stat_translated, hist_translated)',
    'the instantiation of the opaque operations in coq/C10/Model.v (Sections GenInst, HistInst: functional n-d arrays, boolean-mask indexing, any / where / min / max, '
    'item assignment of slice(lo, hi) boxes, exact-rational range ends with widening 0) is a hand-written model of numpy: tied to the code by correspondence only; '
    'not translated: the bodies of the random_subset and dask blocks (compared with template texts), glue.utils.compute_statistic (the opaque kernel)',
    'glue.utils.unbroadcast is a parameter `unb` of the translated model; the statistic theorems assume unb_sound (for the statistics the guard '
    "`statistic not in ('sum', 'percentile')` lets through, the overall result of the kernel is the same on the unbroadcast array: true for min/max/mean/median, "
    'refuted for the sum: unbroadcast_shortcut_sum_refuted); the executable instance uses bc_unbroadcast (stride-0 axes cut to length min(1, n)); tied by stream stat_broadcast',
    'numerical kernels are oracles: numpy nanmin/nanmax/nanmean/nanmedian/nansum/nanpercentile and fast_histogram; the model reducer R is abstract '
    '(assumed: depends only on the multiset of kept values of a lane, NaN for an empty lane)',
    'the masks of the selections are taken from a plain-numpy reference (ref_mask), not from the model (C04 covers mask/view agreement)',
    'Common.PyInt.slice_indices models CPython slice.indices (tied by C20 exhaustive stream)',
]
ASSUMPTIONS = [
    'view domain for statistics: None or tuples, possibly shorter than ndim, of positive-step slices and in-range integers (the axis argument then refers to '
    'the viewed array), selecting at least one element on every axis (numpy itself has no statistic of a zero-size lane)',
    'finite=False: lanes whose kept values contain NaN are not compared (NaN-aware vs NaN-propagating is not fixed by the statement)',
    'a data value exactly on an interior bin edge may be counted in either adjacent bin (the statement does not fix which side of a bin is open); '
    'values equal to the range ends must be counted (first / last bin)',
    'log histograms: ranges with a non-positive end are not compared with the definition (undefined); the model covers ranges whose bin edges are powers of two '
    '(pseudo-logarithm: a strictly monotone map that agrees with log2 on powers of two), other log cases are oracle-only with a 1e-9 edge band',
    'random_subset sampling and dask arrays are not covered',
]

STATS = ['minimum', 'maximum', 'mean', 'median', 'sum', 'percentile']
PLAIN = {'minimum': np.min, 'maximum': np.max, 'mean': np.mean, 'median': np.median, 'sum': np.sum}
NANF = {'minimum': np.nanmin, 'maximum': np.nanmax, 'mean': np.nanmean, 'median': np.nanmedian, 'sum': np.nansum}
NAN = float('nan')
INF = float('inf')


# ------------------------------------------------------------------ value coding (JSON-able cases)
def val_dec(v):
    if v == 'nan':
        return NAN
    if v == 'inf':
        return INF
    if v == '-inf':
        return -INF
    if isinstance(v, str):
        # 'm@e' = m * 2**e : exactly representable values across magnitudes
        m, e = v.split('@')
        return float(int(m)) * 2.0 ** int(e)
    return v / 4.0


def val_pool():
    return ['nan', 'nan', 'inf', '-inf'] + list(range(-8, 17))


def sl(t):
    return slice(*t)


def vent(e):
    """a view entry: an integer or a slice given as [start, stop, step]"""
    return e if isinstance(e, int) else slice(*e)


def vent_enc(e):
    return (1, [e]) if isinstance(e, int) else sl_enc(e)


def sl_enc(s):
    return (0, [opt(s[0]), opt(s[1]), opt(s[2])])


# ------------------------------------------------------------------ selections
def ref_mask(desc, shape, y):
    """plain-numpy definition of the membership mask of a selection description"""
    k = desc[0]
    if k == 'ineq':
        return y > desc[1]
    if k == 'mask':
        return np.array(desc[1], dtype=bool).reshape(shape)
    if k == 'slice':
        m = np.zeros(shape, dtype=bool)
        m[tuple(sl(t) for t in desc[1])] = True
        return m
    if k == 'range_pix':
        pix = np.indices(shape)[desc[1]]
        return (pix >= desc[2]) & (pix <= desc[3])
    if k == 'roi_pix':
        ix = np.indices(shape)
        px, py = ix[desc[1]], ix[desc[2]]
        # RectangularROI.contains is open: xmin < x < xmax ; the corners are at half-integers, never on a pixel centre
        return (px > desc[3]) & (px < desc[4]) & (py > desc[5]) & (py < desc[6])
    if k == 'empty':
        return np.zeros(shape, dtype=bool)
    if k == 'and':
        return ref_mask(desc[1], shape, y) & ref_mask(desc[2], shape, y)
    if k == 'or':
        return ref_mask(desc[1], shape, y) | ref_mask(desc[2], shape, y)
    if k == 'not':
        return ~ref_mask(desc[1], shape, y)
    raise ValueError(desc)


def build_state(desc, d, G):
    k = desc[0]
    if k == 'ineq':
        return d.id['y'] > desc[1]
    if k == 'mask':
        return G.MaskSubsetState(np.array(desc[1], dtype=bool).reshape(d.shape), d.pixel_component_ids)
    if k == 'slice':
        return G.SliceSubsetState(d, [sl(t) for t in desc[1]])
    if k == 'range_pix':
        return G.RangeSubsetState(desc[2], desc[3], d.pixel_component_ids[desc[1]])
    if k == 'roi_pix':
        return G.RoiSubsetState(d.pixel_component_ids[desc[1]], d.pixel_component_ids[desc[2]],
                                G.RectangularROI(desc[3], desc[4], desc[5], desc[6]))
    if k == 'empty':
        return G.SubsetState()
    if k == 'and':
        return build_state(desc[1], d, G) & build_state(desc[2], d, G)
    if k == 'or':
        return build_state(desc[1], d, G) | build_state(desc[2], d, G)
    if k == 'not':
        return ~build_state(desc[1], d, G)
    raise ValueError(desc)


class G:
    """lazily imported glue names"""
    ready = False

    @classmethod
    def load(cls):
        if cls.ready:
            return
        from glue.core import Data
        from glue.core.subset import SliceSubsetState, MaskSubsetState, SubsetState, RangeSubsetState, RoiSubsetState
        from glue.core.roi import RectangularROI
        cls.Data = Data
        cls.SliceSubsetState, cls.MaskSubsetState, cls.SubsetState = SliceSubsetState, MaskSubsetState, SubsetState
        cls.RangeSubsetState, cls.RoiSubsetState, cls.RectangularROI = RangeSubsetState, RoiSubsetState, RectangularROI
        cls.ready = True


def rand_slice(rng, n, strided=True):
    a = rng.choice([None, None, 0, 1, 2, n - 1])
    b = rng.choice([None, None, 1, 2, 3, n, n + 1])
    s = rng.choice([None, None, 1, 2, 3]) if strided else rng.choice([None, 1])
    return [a, b, s]


def rand_sel(rng, shape, depth=0):
    nd = len(shape)
    n = int(np.prod(shape))
    kinds = ['ineq', 'mask', 'mask1', 'slice', 'range_pix', 'roi_pix', 'empty']
    if depth == 0:
        kinds += ['none', 'none', 'and', 'or', 'not']
    k = rng.choice(kinds)
    if k == 'none':
        return None
    if k == 'ineq':
        return ['ineq', rng.randrange(0, 6)]
    if k == 'mask':
        p = rng.choice([.2, .5, .9])
        return ['mask', [int(rng.random() < p) for _ in range(n)]]
    if k == 'mask1':
        m = [0] * n
        m[rng.randrange(n)] = 1
        return ['mask', m]
    if k == 'slice':
        return ['slice', [rand_slice(rng, s) for s in shape[:rng.randrange(1, nd + 1)]]]
    if k == 'range_pix':
        a = rng.randrange(nd)
        lo = rng.randrange(-1, shape[a])
        return ['range_pix', a, lo, lo + rng.randrange(0, 3)]
    if k == 'roi_pix':
        if nd < 2:
            a = 0
            lo = rng.randrange(-1, shape[a])
            return ['range_pix', a, lo, lo + rng.randrange(0, 3)]
        a, b = rng.sample(range(nd), 2)
        x0, y0 = rng.randrange(-1, 3) - .5, rng.randrange(-1, 3) - .5
        return ['roi_pix', a, b, x0, x0 + rng.randrange(1, 4), y0, y0 + rng.randrange(1, 4)]
    if k == 'empty':
        return ['empty']
    if k in ('and', 'or'):
        return [k, rand_sel(rng, shape, 1), rand_sel(rng, shape, 1)]
    return ['not', rand_sel(rng, shape, 1)]


def sel_kind(desc):
    return 'none' if desc is None else desc[0]


# ------------------------------------------------------------------ textbook oracle
def textbook(x, mask, stat, axis, finite, positive, pct, view):
    """mask and filters on the full array, then the view, then the NaN-aware statistic along the axes.
    Returns (expected array, ambiguous lanes (NaN among the kept values))"""
    a = np.array(x, dtype=float)
    keep = np.ones(a.shape, dtype=bool)
    if finite:
        keep &= np.isfinite(a)
    if positive:
        keep &= a > 0
    if mask is not None:
        keep &= mask
    amb = keep & np.isnan(a)
    a = np.where(keep, a, np.nan)
    if view is not None:
        a, keep, amb = a[view], keep[view], amb[view]
    if axis is None:
        ax = tuple(range(a.ndim))
    elif isinstance(axis, int):
        ax = (axis,)
    else:
        ax = tuple(axis)
    if ax:
        cnt = keep.sum(axis=ax)
        ambl = amb.sum(axis=ax)
        with warnings.catch_warnings():
            warnings.simplefilter('ignore')
            if stat == 'percentile':
                res = np.nanpercentile(a, pct, axis=ax)
            else:
                res = NANF[stat](a, axis=ax)
    else:
        cnt, ambl, res = keep.astype(int), amb.astype(int), a
    res = np.where(cnt == 0, np.nan, res)
    return np.asarray(res, dtype=float), np.asarray(ambl) > 0


def same(got, exp, skip=None):
    ok = (got == exp) | (np.isnan(got) & np.isnan(exp))
    if skip is not None:
        ok = ok | skip
    return bool(np.all(ok))


def reducer(stat, pct, vals):
    """R : the plain numpy reducer on the kept values of one lane (NaN for an empty lane)"""
    if len(vals) == 0:
        return NAN
    with warnings.catch_warnings():
        warnings.simplefilter('ignore')
        if stat == 'percentile':
            return float(np.percentile(vals, pct))
        return float(PLAIN[stat](vals))


# ------------------------------------------------------------------ one statistic case
def case_key(c):
    return (tuple(c['shape']), tuple(c['values']), repr(c['sel']), repr(c['view']), repr(c['axis']), c['stat'], c['pct'],
            c['finite'], c['positive'], c['ncm'], c.get('viewform'), c.get('pix'), repr(c.get('bc')))


def make_data(c):
    G.load()
    shape = tuple(c['shape'])
    x = np.array([val_dec(v) for v in c['values']], dtype=float).reshape(shape)
    if c.get('pix') is not None:
        # the statistic is taken of the pixel coordinate component of axis `pix` (a broadcast array in glue)
        k = c['pix']
        x = np.broadcast_to(np.arange(shape[k], dtype=float).reshape([shape[k] if i == k else 1 for i in range(len(shape))]), shape)
    elif c.get('bc'):
        # a STORED broadcast array: stride 0 along the axes flagged in 'bc' (the values of index 0 are repeated)
        x = np.broadcast_to(x[tuple(slice(0, 1) if b else slice(None) for b in c['bc'])], shape)
    y = np.array(c['y'], dtype=int).reshape(shape)
    if c.get('z') is not None:
        z = np.array([val_dec(v) for v in c['z']], dtype=float).reshape(shape)
        return G.Data(x=x, y=y, z=z), x, y
    return G.Data(x=x, y=y), x, y


def view_of(c):
    return None if c['view'] is None else tuple(vent(t) for t in c['view'])


def impl_view(c):
    """the view as it is handed to the implementation: a tuple, or (field 'viewform') the same entries as a list, or Ellipsis for None"""
    v = view_of(c)
    form = c.get('viewform')
    if form == 'list' and v is not None:
        return list(v)
    if form == 'ellipsis' and v is None:
        return Ellipsis
    return v


def axis_of(c):
    ax = c['axis']
    return tuple(ax) if isinstance(ax, list) else ax


def run_impl_stat(c, d=None):
    if d is None:
        d, _, _ = make_data(c)
    st = None if c['sel'] is None else build_state(c['sel'], d, G)
    try:
        with warnings.catch_warnings():
            warnings.simplefilter('ignore')
            cid = d.id['x'] if c.get('pix') is None else d.pixel_component_ids[c['pix']]
            r = d.compute_statistic(c['stat'], cid, subset_state=st, axis=axis_of(c), finite=c['finite'],
                                    positive=c['positive'], percentile=c['pct'], view=impl_view(c), n_chunk_max=c['ncm'])
        return ('ok', np.asarray(r, dtype=float))
    except Exception as e:  # noqa
        return ('err', type(e).__name__, str(e)[:120])


def model_line_stat(c, x, mask):
    shape = c['shape']
    keep = np.ones(x.shape, dtype=bool)
    if c['finite']:
        keep &= np.isfinite(x)
    if c['positive']:
        keep &= x > 0
    view = (0, []) if c['view'] is None else (1, [vent_enc(t) for t in c['view']])
    if c['sel'] is None:
        selt = (0, [])
    elif c['sel'][0] == 'slice':
        selt = (2, [sl_enc(t) for t in c['sel'][1]])
    else:
        selt = (1, [B(mask.ravel().tolist())])
    ax = c['axis']
    axt = (0, []) if ax is None else (1, [ax] if isinstance(ax, int) else list(ax))
    return enc((1, [Z(shape), view, selt, B(keep.ravel().tolist()), axt, c['ncm']]))


def gen_line_stat(c, x, mask):
    """the same case for the TRANSLATED skeleton (run_case tag 6, coq/gen/Gen_stat.v instantiated in Model.v): the model receives the
    per-cell facts isfinite(x), x > 0 and the finite / positive flags themselves, the axis in its Python form (None | int | tuple)"""
    if c['view'] is None:
        view = (3, []) if c.get('viewform') == 'ellipsis' else (0, [])
    else:
        view = (2 if c.get('viewform') == 'list' else 1, [vent_enc(t) for t in c['view']])
    if c['sel'] is None:
        selt = (0, [])
    elif c['sel'][0] == 'slice':
        selt = (2, [sl_enc(t) for t in c['sel'][1]])
    else:
        selt = (1, [B(mask.ravel().tolist())])
    ax = c['axis']
    axt = (0, []) if ax is None else (2, [ax]) if isinstance(ax, int) else (1, list(ax))
    return enc((6, [Z(c['shape']), view, selt, B(np.isfinite(x).ravel().tolist()), B((x > 0).ravel().tolist()),
                    int(bool(c['finite'])), int(bool(c['positive'])), axt, c['ncm'], STATS.index(c['stat']), B(bc_flags(c))]))


GEN_STATS = {'cases': 0, 'disagree': 0}


def run_model(R, lines):
    """R.model, or None for every line when the extracted model could not be built (the check reports the broken build itself;
    the oracle streams still run, so that a breaking change that also breaks the build of the model gets a concrete replay)"""
    if not R.model_available:
        if not getattr(R, '_noted_no_model', False):
            R._noted_no_model = True
            R.note('the extracted model is not available (build broken): correspondence skipped, oracle streams run')
        return [None] * len(lines)
    return R.model(lines)


def model_both(R, cases, ctx):
    """hand model and translated skeleton on the same cases, one batch"""
    lines = [model_line_stat(c, x, mask) for c, (d, x, mask) in zip(cases, ctx)]
    glines = [gen_line_stat(c, x, mask) for c, (d, x, mask) in zip(cases, ctx)]
    outs = run_model(R, lines + glines)
    return outs[:len(lines)], outs[len(lines):]


def check_stat(R, c, impl, mout, x, mask, count=True, gout=None):
    """compare implementation with model (correspondence) and with the textbook (oracle)"""
    exp, amb = textbook(x, mask, c['stat'], axis_of(c), c['finite'], c['positive'], c['pct'], view_of(c))
    nontrivial = bool(exp.size and not np.all(np.isnan(exp)))
    if count:
        chunked = (c['view'] is None and isinstance(c['axis'], list) and len(c['axis']) > 0 and len(c['axis']) == len(c['shape']) - 1
                   and int(np.prod(c['shape'])) > c['ncm'] and sel_kind(c['sel']) != 'slice')
        R.count(case_key(c), nontrivial=nontrivial, stream=c['stream'], sel=sel_kind(c['sel']), ndim=len(c['shape']),
                view=view_class(c),
                axis=('none' if c['axis'] is None else 'int' if isinstance(c['axis'], int) else 'tuple%d' % len(c['axis'])),
                stat=c['stat'], chunked=chunked, filters='%s%s' % ('F' if c['finite'] else '-', 'P' if c['positive'] else '-'))
    bad = None
    # ---- oracle: the property itself on the implementation
    if impl[0] == 'err':
        bad = {'raises': impl[1], 'message': impl[2], 'expected_shape': list(exp.shape)}
        R.fail('oracle', c, bad, key=None)
    else:
        got = impl[1]
        if got.shape != exp.shape:
            bad = {'shape': list(got.shape), 'expected_shape': list(exp.shape)}
            R.fail('oracle', c, bad, key=None)
        elif not same(got, exp, amb):
            bad = {'result': got.tolist(), 'expected': exp.tolist()}
            R.fail('oracle', c, bad, key='sum-over-broadcast-component' if sum_over_broadcast(c) else None)
    # ---- correspondence: the hand model, and the skeleton translated from the source
    for which, mo in (('model', mout), ('translated', gout)):
        if mo is None:
            continue
        if which == 'translated':
            GEN_STATS['cases'] += 1
        nf = len(R.failures)
        if is_err(mo):
            if not (impl[0] == 'err' and impl[1] == 'ValueError'):
                R.fail('correspondence', c, {which: 'error %s' % err_code(mo), 'impl': impl[:2]})
        elif impl[0] == 'ok':
            osh = to_zs(kids(mo)[0])
            lanes = [to_zs(l) for l in kids(kids(mo)[1])]
            flat = x.ravel()
            if c['axis'] == []:
                # no axis is collapsed: utils.compute_statistic returns the (masked) data itself
                mres = np.array([flat[l[0]] if len(l) else NAN for l in lanes], dtype=float).reshape(osh)
            else:
                mres = np.array([reducer(c['stat'], c['pct'], flat[l]) for l in lanes], dtype=float).reshape(osh)
            mamb = np.array([bool(np.isnan(flat[l]).any()) if len(l) else False for l in lanes], dtype=bool).reshape(osh)
            got = impl[1]
            if tuple(osh) != got.shape or not same(got, mres, mamb):
                R.fail('correspondence', c, {'which': which, 'model_shape': osh, 'impl_shape': list(got.shape),
                                             'model': mres.tolist(), 'impl': got.tolist()})
        if which == 'translated' and len(R.failures) > nf:
            GEN_STATS['disagree'] += 1
    return bad


# ------------------------------------------------------------------ streams: statistics
VIEW_ALPHABET = [[None, None, None], [1, None, None], [0, None, 2], [1, 3, None]]


def nonempty_view(shape, view):
    if view is None:
        return True
    return 0 not in np.broadcast_to(0, shape)[tuple(vent(t) for t in view)].shape


def view_class(c):
    v = c['view']
    if v is None:
        return 'none'
    k = 'int+' if any(isinstance(t, int) for t in v) else ''
    if any(not isinstance(t, int) and t[2] not in (None, 1) for t in v):
        return k + 'strided'
    if any(not isinstance(t, int) and t[0] not in (None, 0) for t in v):
        return k + 'offset'
    return k + ('short' if len(v) < len(c['shape']) else 'full')


def all_axes(nd):
    out = [None] + list(range(nd))
    for k in range(nd + 1):
        for ax in itertools.combinations(range(nd), k):
            out.append(list(ax))
    return out


def fixed_sels(rng, shape):
    nd = len(shape)
    n = int(np.prod(shape))
    corner = [0] * n
    corner[-1] = 1
    one = [0] * n
    one[rng.randrange(n)] = 1
    sels = [None, ['ineq', 2], ['mask', corner], ['mask', one], ['mask', [int(rng.random() < .5) for _ in range(n)]],
            ['slice', [[1, None, None]] + [[None, None, 2]] * (nd - 1)], ['slice', [[0, None, 2]]],
            ['range_pix', nd - 1, 1, 1], ['empty'], ['not', ['range_pix', 0, 0, 0]],
            ['and', ['ineq', 1], ['range_pix', 0, 0, 1]]]
    if nd >= 2:
        sels.append(['roi_pix', 0, nd - 1, -.5, 1.5, .5, 2.5])
    return sels


def stream_stat_exhaustive(R):
    """all (shape, selection, view, axis subset) over a small scope; statistic / filters / chunk limit rotate"""
    G.load()
    sizes = R.pick([1, 2, 3], [1, 2, 3])
    shapes = [sh for nd in (1, 2, 3) for sh in itertools.product(sizes, repeat=nd)]
    if R.quick():
        # every other 3-d shape in the quick tier (all of them in the thorough tier)
        shapes = [sh for k, sh in enumerate(shapes) if len(sh) < 3 or k % 2 == 0]
    n3 = len(shapes)
    shapes += R.pick([(2, 1, 2, 2), (1, 3, 2, 2)], [(2, 1, 2, 2), (1, 3, 2, 2), (2, 2, 2, 2), (3, 2, 1, 2), (2, 2, 3, 2)])
    pool = val_pool()
    cases, lines, ctx = [], [], []
    for si, shape in enumerate(shapes):
        rng = R.subrng('exh', shape)
        nd = len(shape)
        n = int(np.prod(shape))
        base = {'stream': 'stat_exhaustive', 'shape': list(shape), 'values': [rng.choice(pool) for _ in range(n)],
                'y': [rng.randrange(0, 6) for _ in range(n)]}
        d, x, y = make_data(base)
        views = [None]
        maxlen = nd if nd <= 2 else R.pick(2, 3)
        for ln in range(1, maxlen + 1):
            for v in itertools.product(VIEW_ALPHABET, repeat=ln):
                views.append([list(t) for t in v])
        if nd == 4:
            views = [None] + rng.sample(views[1:], 8)
        views = [v for v in views if nonempty_view(shape, v)]
        axes = all_axes(nd)
        sels = fixed_sels(rng, shape)
        masks = [None if s is None else ref_mask(s, shape, y) for s in sels]
        k = 0
        for sel, mask in zip(sels, masks):
            for view in views:
                for ax in axes:
                    k += 1
                    stat = STATS[k % 6]
                    c = dict(base, sel=sel, view=view, axis=ax, stat=stat, pct=[0, 25, 50, 75, 100, 30][(k // 6) % 6] if stat == 'percentile' else None,
                             finite=(k % 5 != 0), positive=(k % 7 == 0), ncm=40000000)
                    chunkable = view is None and isinstance(ax, list) and len(ax) == nd - 1 and len(ax) > 0
                    for ncm in ([40000000] + list(range(1, n + 1)) if chunkable else [40000000]):
                        cc = dict(c, ncm=ncm)
                        cases.append(cc)
                        ctx.append((d, x, mask))
    mouts, gouts = model_both(R, cases, ctx)
    for c, (d, x, mask), mo, go in zip(cases, ctx, mouts, gouts):
        impl = run_impl_stat(c, d)
        check_stat(R, c, impl, mo, x, mask, gout=go)
    if cases:
        R.sample({k: v for k, v in cases[len(cases) // 2].items()})
    R.stream('stat_exhaustive', cases=len(cases), exhaustive=True,
             bound='shapes: all of 1..3 dims over sizes %s + %d 4-d shapes; 12 selections per shape (all kinds); views: None + all tuples over '
                   '{[:],[1:],[0::2],[1:3]} of length <= min(ndim,%d) that select something; every axis argument (None, each int, every subset); '
                   'n_chunk_max = every value 1..size whenever the chunk loop is reachable; statistic/filters rotate; quick tier: every other 3-d shape' % (sizes, len(shapes) - n3, R.pick(2, 3)))


def rand_case(R, i):
    rng = R.subrng('rand', i)
    nd = rng.choice([1, 2, 2, 3, 3, 3, 4, 4])
    shape = [rng.choice([1, 2, 3, 4, 5] if nd < 3 else [1, 2, 3, 4] if nd == 3 else [1, 2, 3]) for _ in range(nd)]
    n = int(np.prod(shape))
    pool = val_pool()
    sel = rand_sel(rng, shape)
    vk = rng.choice(['none', 'none', 'full', 'short', 'strided'])
    for _ in range(20):
        if vk == 'none':
            view = None
        elif vk == 'full':
            view = []
            for s in shape:
                a = rng.randrange(0, s)
                view.append([a, rng.randrange(a + 1, s + 2), None] if rng.random() < .7 else [None, None, None])
        elif vk == 'short':
            view = [rand_slice(rng, s, strided=False) for s in shape[:rng.randrange(1, nd + 1)]]
        else:
            view = [rand_slice(rng, s) for s in shape[:rng.randrange(1, nd + 1)]]
        if nonempty_view(shape, view):
            break
    else:
        view = None
    stat = rng.choice(STATS)
    axk = rng.choice(['none', 'int', 'tuple', 'tuple', 'nm1', 'nm1'])
    if axk == 'none':
        axis = None
    elif axk == 'int':
        axis = rng.randrange(nd)
    elif axk == 'nm1':
        axis = sorted(rng.sample(range(nd), nd - 1))
    else:
        axis = sorted(rng.sample(range(nd), rng.randrange(0, nd + 1)))
    return {'stream': 'stat_random', 'sub': i, 'shape': shape, 'values': [rng.choice(pool) for _ in range(n)],
            'y': [rng.randrange(0, 6) for _ in range(n)], 'sel': sel, 'view': view, 'axis': axis, 'stat': stat,
            'pct': rng.choice([0, 25, 50, 75, 100, 30, 90]) if stat == 'percentile' else None,
            'finite': rng.random() < .8, 'positive': rng.random() < .25,
            'ncm': rng.choice([40000000, 1, 2, 3, 4, 5, 7, 8, 13, 24]),
            # the view as a list of entries (converted to a tuple by the first statement) / Ellipsis instead of None
            'viewform': ('list' if i % 7 == 3 else 'ellipsis' if i % 7 == 5 else None)}


def intview_case(R, i):
    """views mixing integers and slices with explicit starts on non-cubic shapes (dimension lengths all different, so that
    clipping a start against the wrong dimension shows), with a selection and an axis of the viewed array"""
    rng = R.subrng('intview', i)
    nd = rng.choice([2, 3, 3, 3, 4])
    while True:
        shape = rng.sample([2, 3, 4, 5, 7, 9, 12], nd)
        if int(np.prod(shape)) <= 260:
            break
    n = int(np.prod(shape))
    pool = val_pool()
    for _ in range(50):
        ln = rng.randrange(1, nd + 1)
        view = []
        for s in shape[:ln]:
            k = rng.random()
            if k < .4:
                view.append(rng.randrange(-s, s))
            else:
                a = rng.choice([None, rng.randrange(0, s), rng.randrange(0, s), rng.randrange(-s, 0)])
                lo = 0 if a is None else a % s
                b = rng.choice([None, rng.randrange(lo + 1, s + 1), rng.randrange(lo + 1, s + 3), -1 if lo + 1 < s else None])
                view.append([a, b, rng.choice([None, None, None, 1, 1, 2])])
        if not any(isinstance(e, int) for e in view):
            pidx = rng.randrange(ln)
            view[pidx] = rng.randrange(-shape[pidx], shape[pidx])
        if any(isinstance(e, int) for e in view) and nonempty_view(shape, view):
            break
    else:
        view = [0]
    vnd = nd - sum(1 for e in view if isinstance(e, int))
    k = rng.random()
    if k < .45:
        # a box-shaped selection: its bounding box is a proper sub-array
        m = np.zeros(shape, dtype=bool)
        box = []
        for s in shape:
            a = rng.randrange(0, s)
            box.append(slice(a, rng.randrange(a + 1, s + 1)))
        m[tuple(box)] = True
        if rng.random() < .3:
            m &= np.array([rng.random() < .7 for _ in range(n)]).reshape(shape)
        sel = ['mask', m.astype(int).ravel().tolist()]
    else:
        sel = rand_sel(rng, shape)
        if sel is None:
            sel = ['ineq', rng.randrange(0, 5)]
    axk = rng.choice(['none', 'int', 'tuple', 'tuple', 'all'])
    if vnd == 0:
        axis = rng.choice([None, []])
    elif axk == 'none':
        axis = None
    elif axk == 'int':
        axis = rng.randrange(vnd)
    elif axk == 'all':
        axis = list(range(vnd))
    else:
        axis = sorted(rng.sample(range(vnd), rng.randrange(0, vnd + 1)))
    stat = rng.choice(STATS)
    return {'stream': 'stat_intviews', 'sub': i, 'shape': shape, 'values': [rng.choice(pool) for _ in range(n)],
            'y': [rng.randrange(0, 6) for _ in range(n)], 'sel': sel, 'view': view, 'axis': axis, 'stat': stat,
            'pct': rng.choice([0, 25, 50, 75, 100, 30]) if stat == 'percentile' else None,
            'finite': rng.random() < .85, 'positive': rng.random() < .15, 'ncm': rng.choice([40000000, 40000000, 7, 24])}


def stream_stat_intviews(R):
    G.load()
    N = R.pick(5000, 40000)
    # the shape of the seeded change C10-1 and close relatives first, then the random ones
    fixed = []
    for shape, view, ax in [([3, 12, 4], [1, [6, 11, None]], None), ([3, 12, 4], [1, [6, 11, None]], [0]), ([3, 12, 4], [2, [5, 12, None], [0, 3, None]], [1]),
                            ([3, 12, 4], [-1, [-4, None, None]], None), ([2, 9, 5], [[1, 2, None], 7, [3, None, None]], [0]),
                            ([4, 2, 7], [3, 1, [4, 7, None]], None), ([2, 5, 3, 7], [1, [3, 5, None], 2, [4, None, None]], [1])]:
        n = int(np.prod(shape))
        y = np.zeros(shape, dtype=int)
        y[tuple(slice(s // 2, s) for s in shape)] = 5
        fixed.append({'stream': 'stat_intviews', 'sub': -1, 'shape': shape, 'values': [(k % 25) - 8 for k in range(n)], 'y': y.ravel().tolist(),
                      'sel': ['ineq', 2], 'view': view, 'axis': ax, 'stat': 'sum', 'pct': None, 'finite': True, 'positive': False, 'ncm': 40000000})
    cases = fixed + [intview_case(R, i) for i in range(N)]
    ctx, lines = [], []
    for c in cases:
        d, x, y = make_data(c)
        mask = None if c['sel'] is None else ref_mask(c['sel'], tuple(c['shape']), y)
        ctx.append((d, x, mask))
    mouts, gouts = model_both(R, cases, ctx)
    shrunk = 0
    for c, (d, x, mask), mo, go in zip(cases, ctx, mouts, gouts):
        impl = run_impl_stat(c, d)
        nfail = len(R.failures)
        bad = check_stat(R, c, impl, mo, x, mask, gout=go)
        if bad is not None and shrunk < 3:
            shrunk += 1
            small = shrink_stat(R, c)
            for f in R.failures[nfail:]:
                if f['kind'] == 'oracle':
                    f['case'] = small
    R.sample(cases[0])
    R.stream('stat_intviews', cases=len(cases), exhaustive=False,
             bound='2..4-d shapes with pairwise different lengths from {2,3,4,5,7,9,12} (<= 260 cells); views of length 1..ndim with at least one integer '
                   '(negative allowed) mixed with slices that have explicit (also negative) starts/stops, sometimes a step; box-shaped masks and all other '
                   'selection kinds; axis arguments of the viewed array; 7 fixed cases around shape (3,12,4), view (1, slice(6,11))')


def bc_flags(c):
    """the stride-0 axes of the component the statistic is taken of"""
    nd = len(c['shape'])
    if c.get('pix') is not None:
        return [i != c['pix'] for i in range(nd)]
    return [bool(b) for b in c['bc']] if c.get('bc') else [False] * nd


def sum_over_broadcast(c):
    """the failure class of the finding `sum-over-broadcast-component`"""
    return (c['stat'] in ('sum', 'percentile') and c['axis'] is None and (c['sel'] is None or c['sel'][0] == 'slice' and c['view'] is None)
            and any(bc_flags(c)))


def stream_stat_broadcast(R):
    """statistics of BROADCAST components (pixel coordinate components; stored np.broadcast_to arrays): every statistic, axis None / int /
    tuple (chunked and not), with and without selection and view; oracle = the textbook statistic of the full broadcast values"""
    G.load()
    N = R.pick(2600, 20000)
    cases = []
    # fixed: the reported input first
    cases.append({'stream': 'stat_broadcast', 'sub': -1, 'shape': [3, 4], 'values': [0] * 12, 'y': [0] * 12, 'sel': None, 'view': None, 'axis': None,
                  'stat': 'sum', 'pct': None, 'finite': True, 'positive': False, 'ncm': 40000000, 'pix': 1})
    for i in range(N):
        rng = R.subrng('bcast', i)
        c = rand_case(R, 1000003 + i)
        c['stream'], c['sub'] = 'stat_broadcast', i
        nd = len(c['shape'])
        c['values'] = [v if isinstance(v, int) else 4 for v in c['values']] if rng.random() < .7 else c['values']
        if rng.random() < .4:
            c['pix'] = rng.randrange(nd)
        else:
            bc = [rng.random() < .5 for _ in range(nd)]
            if not any(bc):
                bc[rng.randrange(nd)] = True
            c['bc'] = bc
        k = i % 12
        c['stat'] = STATS[k % 6]
        c['pct'] = rng.choice([0, 25, 50, 75, 100, 30]) if c['stat'] == 'percentile' else None
        if k < 6 and rng.random() < .6:
            c['axis'] = None
        if rng.random() < .35:
            c['sel'] = None
        cases.append(c)
    ctx = []
    for c in cases:
        d, x, y = make_data(c)
        mask = None if c['sel'] is None else ref_mask(c['sel'], tuple(c['shape']), y)
        ctx.append((d, x, mask))
    mouts, gouts = model_both(R, cases, ctx)
    for c, (d, x, mask), mo, go in zip(cases, ctx, mouts, gouts):
        impl = run_impl_stat(c, d)
        check_stat(R, c, impl, mo, x, mask, gout=go)
    R.sample(cases[0])
    R.stream('stat_broadcast', cases=len(cases), exhaustive=False,
             bound='1..4-d, sizes <= 5; component = pixel coordinate of a random axis (40%) or a stored np.broadcast_to array with random stride-0 axes; all six '
                   'statistics in rotation, axis None in about a third, selections of every kind or none, views none / full / short / strided / list / Ellipsis, '
                   'n_chunk_max small so that the chunk loop runs; oracle = textbook statistic of the full broadcast values; first case = the reported input')


def shrink_stat(R, c):
    """greedy reduction of a failing statistic case (oracle failure must persist)"""
    def fails(cc):
        try:
            d, x, y = make_data(cc)
            mask = None if cc['sel'] is None else ref_mask(cc['sel'], tuple(cc['shape']), y)
            exp, amb = textbook(x, mask, cc['stat'], axis_of(cc), cc['finite'], cc['positive'], cc['pct'], view_of(cc))
            impl = run_impl_stat(cc, d)
            if impl[0] == 'err':
                return True
            return impl[1].shape != exp.shape or not same(impl[1], exp, amb)
        except Exception:  # noqa
            return False
    cur = dict(c)
    for key, val in [('ncm', 40000000), ('positive', False), ('finite', True), ('stat', 'sum'), ('view', None)]:
        t = dict(cur)
        t[key] = val
        if key == 'stat':
            t['pct'] = None
        if t != cur and fails(t):
            cur = t
    vals = list(cur['values'])
    for i in range(len(vals)):
        if vals[i] != 4:
            t = dict(cur, values=vals[:i] + [4] + vals[i + 1:])
            if fails(t):
                cur = t
                vals = list(cur['values'])
    return cur


def stream_stat_random(R):
    G.load()
    N = R.pick(9000, 90000)
    cases = [rand_case(R, i) for i in range(N)]
    ctx, lines = [], []
    for c in cases:
        d, x, y = make_data(c)
        mask = None if c['sel'] is None else ref_mask(c['sel'], tuple(c['shape']), y)
        ctx.append((d, x, mask))
    mouts, gouts = model_both(R, cases, ctx)
    shrunk = 0
    for c, (d, x, mask), mo, go in zip(cases, ctx, mouts, gouts):
        impl = run_impl_stat(c, d)
        nfail = len(R.failures)
        bad = check_stat(R, c, impl, mo, x, mask, gout=go)
        if bad is not None and shrunk < 3:
            shrunk += 1
            small = shrink_stat(R, c)
            for f in R.failures[nfail:]:
                if f['kind'] == 'oracle':
                    f['case'] = small
    R.sample(cases[0])
    R.sample(cases[1])
    R.stream('stat_random', cases=N, exhaustive=False,
             bound='1..4-d, sizes <= 5 (<= 3 in 4-d), values NaN/+-inf/k/4 for k in -8..16, selections incl. composites, '
                   'views none/full/short/strided, n_chunk_max in {default,1,2,3,4,5,7,8,13,24}')


# ------------------------------------------------------------------ histograms
def fr(v):
    return Fraction(v).limit_denominator(1 << 20) if isinstance(v, float) else Fraction(v)


def q_enc(f):
    f = Fraction(f)
    return (0, [f.numerator, f.denominator])


def optq_enc(f):
    return (0, []) if f is None else (1, [Fraction(f).numerator, Fraction(f).denominator])


def plog(x):
    """pseudo-logarithm: strictly increasing on x > 0, equals log2 on powers of two"""
    x = Fraction(x)
    e = 0
    while Fraction(2) ** (e + 1) <= x:
        e += 1
    while Fraction(2) ** e > x:
        e -= 1
    return e + (x / Fraction(2) ** e - 1)


def is_pow2(f):
    f = Fraction(f)
    return f > 0 and (f.numerator == 1 or f.denominator == 1) and (f.numerator & (f.numerator - 1)) == 0 and (f.denominator & (f.denominator - 1)) == 0


def finite_fr(v):
    x = val_dec(v)
    if x != x or x in (INF, -INF):
        return None
    return Fraction(x)


def bin_positions(c, dim):
    """per point: None (not counted), ('bin', k) or ('edge', k) (between k-1 and k); exact for linear, banded for log"""
    lo, hi = sorted((Fraction(c['range'][dim][0]), Fraction(c['range'][dim][1])))
    n = c['bins'][dim]
    log = bool(c['log'] and c['log'][dim])
    out = []
    for v in c['x' if dim == 0 else 'y']:
        x = finite_fr(v)
        if x is None or x < lo or x > hi:
            out.append(None)
            continue
        if lo == hi:
            out.append(('bin', 0))
            continue
        if not log:
            t = (x - lo) * n / (hi - lo)
            if t == n:
                out.append(('bin', n - 1))
            elif t.denominator == 1 and t > 0:
                out.append(('edge', int(t)))
            else:
                out.append(('bin', int(math.floor(t))))
        else:
            tf = (math.log10(x) - math.log10(lo)) * n / (math.log10(hi) - math.log10(lo))
            r = round(tf)
            if abs(tf - r) < 1e-9:
                if r <= 0:
                    out.append(('bin', 0))
                elif r >= n:
                    out.append(('bin', n - 1))
                else:
                    out.append(('edge', r))
            else:
                out.append(('bin', min(max(int(math.floor(tf)), 0), n - 1)))
    return out


def hist_expected_ok(c, H):
    """is H an admissible histogram of case c?  values on an interior edge may go to either neighbour
    (one choice per edge and dimension); everything else is determined.  Returns (ok, textbook counts)"""
    ndim = len(c['bins'])
    pos = [bin_positions(c, dmn) for dmn in range(ndim)]
    npts = len(c['x'])
    w = [Fraction(1)] * npts if c['w'] is None else [Fraction(v) / 4 for v in c['w']]
    sel = [True] * npts if c['sel'] is None else [bool(s) for s in c['sel']]
    edges = sorted({(dmn, p[1]) for dmn in range(ndim) for p in pos[dmn] if p is not None and p[0] == 'edge'})
    shape = tuple(c['bins'])
    H = np.asarray(H, dtype=float).reshape(shape)

    def counts(choice):
        out = np.zeros(shape, dtype=object)
        out[...] = Fraction(0)
        for i in range(npts):
            if not sel[i]:
                continue
            ks = []
            for dmn in range(ndim):
                p = pos[dmn][i]
                if p is None:
                    ks = None
                    break
                ks.append(p[1] if p[0] == 'bin' else p[1] - choice[(dmn, p[1])])
            if ks is None:
                continue
            out[tuple(ks)] += w[i]
        return out
    first = None
    combos = itertools.product([0, 1], repeat=len(edges)) if len(edges) <= 10 else [tuple([0] * len(edges)), tuple([1] * len(edges))]
    for ch in combos:
        cnt = counts(dict(zip(edges, ch)))
        if first is None:
            first = cnt
        if all(Fraction(float(h)) == e for h, e in zip(H.ravel().tolist(), cnt.ravel().tolist())):
            return True, first
    return False, first


def hist_case_key(c):
    return (tuple(c['x']), tuple(c['y']) if c['y'] else None, tuple(c['w']) if c['w'] else None, tuple(c['sel']) if c['sel'] else None,
            repr(c['range']), tuple(c['bins']), repr(c['log']))


def run_impl_hist(c):
    G.load()
    x = np.array([val_dec(v) for v in c['x']], dtype=float)
    comps = {'x': x}
    if c['y'] is not None:
        comps['y'] = np.array([val_dec(v) for v in c['y']], dtype=float)
    if c['w'] is not None:
        comps['w'] = np.array(c['w'], dtype=float) / 4
    d = G.Data(**comps)
    st = None if c['sel'] is None else G.MaskSubsetState(np.array(c['sel'], dtype=bool), d.pixel_component_ids)
    cids = [d.id['x']] + ([d.id['y']] if c['y'] is not None else [])
    try:
        with warnings.catch_warnings():
            warnings.simplefilter('ignore')
            r = d.compute_histogram(cids, weights=None if c['w'] is None else d.id['w'],
                                    range=[tuple(float(Fraction(v)) for v in rg) for rg in c['range']],
                                    bins=list(c['bins']), log=c['log'], subset_state=st)
        return ('ok', np.asarray(r, dtype=float))
    except Exception as e:  # noqa
        return ('err', type(e).__name__, str(e)[:120])


def model_line_hist(c):
    """None when the case is outside what the model covers (log with non power-of-two edges)"""
    npts = len(c['x'])
    w = [Fraction(1)] * npts if c['w'] is None else [Fraction(v) / 4 for v in c['w']]
    sel = [True] * npts if c['sel'] is None else [bool(s) for s in c['sel']]
    xs = [finite_fr(v) for v in c['x']]
    if len(c['bins']) == 1:
        lo, hi = Fraction(c['range'][0][0]), Fraction(c['range'][0][1])
        n = c['bins'][0]
        log = bool(c['log'] and c['log'][0])
        if log:
            slo, shi = sorted((lo, hi))
            if slo > 0:
                if not (is_pow2(slo) and is_pow2(shi)):
                    return None
                if slo != shi and (plog(shi) - plog(slo)) % n != 0:
                    return None
                llo, lhi = plog(lo), plog(hi)
            else:
                llo, lhi = Fraction(0), Fraction(0)
            lxs = [None if (x is None or x <= 0) else plog(x) for x in xs]
        else:
            llo, lhi, lxs = lo, hi, xs
        pts = [(0, [optq_enc(x), optq_enc(lx), int(s), q_enc(ww)]) for x, lx, s, ww in zip(xs, lxs, sel, w)]
        return enc((2, [int(log), q_enc(lo), q_enc(hi), q_enc(llo), q_enc(lhi), n, (0, pts)]))
    if c['log'] and any(c['log']):
        return None
    ys = [finite_fr(v) for v in c['y']]
    (xlo, xhi), (ylo, yhi) = c['range']
    pts = [(0, [optq_enc(x), optq_enc(y), int(s), q_enc(ww)]) for x, y, s, ww in zip(xs, ys, sel, w)]
    return enc((3, [q_enc(xlo), q_enc(xhi), q_enc(ylo), q_enc(yhi), c['bins'][0], c['bins'][1], (0, pts)]))


def gen_line_hist(c):
    """the same case for the TRANSLATED compute_histogram (run_case tags 7 / 8); same coverage as model_line_hist"""
    ln = model_line_hist(c)
    if ln is None:
        return None
    npts = len(c['x'])
    w = [Fraction(1)] * npts if c['w'] is None else [Fraction(v) / 4 for v in c['w']]
    sel = [True] * npts if c['sel'] is None else [bool(s) for s in c['sel']]
    xs = [finite_fr(v) for v in c['x']]
    hasw, hassel = int(c['w'] is not None), int(c['sel'] is not None)
    if len(c['bins']) == 1:
        lo, hi = Fraction(c['range'][0][0]), Fraction(c['range'][0][1])
        log = bool(c['log'] and c['log'][0])
        if log:
            slo, shi = sorted((lo, hi))
            llo, lhi = (plog(lo), plog(hi)) if slo > 0 else (Fraction(0), Fraction(0))
            lxs = [None if (x is None or x <= 0) else plog(x) for x in xs]
        else:
            llo, lhi, lxs = lo, hi, xs
        pts = [(0, [optq_enc(x), optq_enc(lx), int(s), q_enc(ww)]) for x, lx, s, ww in zip(xs, lxs, sel, w)]
        return enc((7, [int(log), int(c['log'] is not None), q_enc(lo), q_enc(hi), q_enc(llo), q_enc(lhi), c['bins'][0], hasw, hassel, (0, pts)]))
    ys = [finite_fr(v) for v in c['y']]
    (xlo, xhi), (ylo, yhi) = c['range']
    pts = [(0, [optq_enc(x), optq_enc(y), int(s), q_enc(ww)]) for x, y, s, ww in zip(xs, ys, sel, w)]
    return enc((8, [q_enc(xlo), q_enc(xhi), q_enc(ylo), q_enc(yhi), c['bins'][0], c['bins'][1], hasw, hassel, (0, pts)]))


GEN_HIST = {'cases': 0, 'disagree': 0}


def hist_model_both(R, cases):
    """hand model and translated skeleton, one batch; dicts case index -> output"""
    lines, idx, glines = [], [], []
    for k, c in enumerate(cases):
        ln = model_line_hist(c)
        if ln is not None:
            idx.append(k)
            lines.append(ln)
            glines.append(gen_line_hist(c))
    outs = run_model(R, lines + glines)
    return dict(zip(idx, outs[:len(lines)])), dict(zip(idx, outs[len(lines):])), len(lines)


def q_dec(t):
    return Fraction(kids(t)[0][0], kids(t)[1][0])


def hist_defined(c):
    """is the textbook histogram defined? (log over a range with a non-positive end is not)"""
    for dmn in range(len(c['bins'])):
        if c['log'] and c['log'][dmn] and min(Fraction(c['range'][dmn][0]), Fraction(c['range'][dmn][1])) <= 0:
            return False
    return True


def check_hist(R, c, impl, mo, count=True, gout=None):
    defined = hist_defined(c)
    ok, first = (True, None)
    bad = None
    if defined:
        if impl[0] == 'err':
            bad = {'raises': impl[1], 'message': impl[2]}
        elif impl[1].shape != tuple(c['bins']):
            bad = {'shape': list(impl[1].shape), 'expected_shape': list(c['bins'])}
        else:
            ok, first = hist_expected_ok(c, impl[1])
            if not ok:
                bad = {'histogram': impl[1].tolist(), 'expected(one admissible)': np.asarray(first, dtype=float).tolist()}
        if bad is not None:
            R.fail('oracle', c, bad, key=None)
    if count:
        tot = 0.0 if impl[0] == 'err' else float(np.sum(impl[1]))
        R.count(hist_case_key(c), nontrivial=defined and tot != 0, stream=c['stream'], hist_bins='x'.join(map(str, c['bins'])),
                hist_kind=('log' if c['log'] and any(c['log']) else 'lin') + ('+w' if c['w'] is not None else '') + ('+sel' if c['sel'] is not None else ''),
                hist_range=('reversed' if any(Fraction(a) > Fraction(b) for a, b in c['range']) else 'point' if any(Fraction(a) == Fraction(b) for a, b in c['range']) else 'normal'))
    for which, m_ in (('model', mo), ('translated', gout)):
        if m_ is None:
            continue
        nf = len(R.failures)
        hist_corr(R, c, impl, m_, which)
        if which == 'translated':
            GEN_HIST['cases'] += 1
            GEN_HIST['disagree'] += int(len(R.failures) > nf)
    return bad


def hist_corr(R, c, impl, mo, which):
    """correspondence of one model output (hand model or translated skeleton) with the implementation"""
    if is_err(mo):
        if not (impl[0] == 'err' and impl[1] == 'ValueError'):
            R.fail('correspondence', c, {which: 'error', 'impl': impl[:2] if impl[0] == 'err' else impl[1].tolist()})
    elif tag(mo) == 2:
        if not (impl[0] == 'ok' and impl[1].shape == tuple(c['bins']) and not impl[1].any()):
            R.fail('correspondence', c, {which: 'zeros', 'impl': impl[:2] if impl[0] == 'err' else impl[1].tolist()})
    else:
        D = [q_dec(t) for t in kids(kids(mo)[0])]
        if impl[0] != 'ok' or impl[1].size != len(D):
            R.fail('correspondence', c, {which: [float(v) for v in D], 'impl': impl[:2] if impl[0] == 'err' else impl[1].tolist()})
            return
        H = [Fraction(float(h)) for h in impl[1].ravel().tolist()]
        if len(kids(mo)) > 1:
            E = [q_dec(t) for t in kids(kids(mo)[1])]
            n = len(D)
            good = False
            nz = [k for k in range(n) if E[k] != 0]
            for ch in itertools.product([0, 1], repeat=len(nz)):
                cur = list(D)
                for k, b in zip(nz, ch):
                    if b:
                        cur[k] -= E[k]
                        cur[k - 1] += E[k]
                if cur == H:
                    good = True
                    break
        else:
            # 2-d model: textbook convention only; compare when no point sits on an interior edge
            good = True
            amb = any(p is not None and p[0] == 'edge' for dmn in range(2) for p in bin_positions(c, dmn))
            if not amb:
                good = (D == H)
        if not good:
            R.fail('correspondence', c, {which: [float(v) for v in D], 'impl': [float(v) for v in H]})


RANGES = [(0, 4), (4, 0), (-2, 2), (1, 3), (0, 1), (1, 1), (-1, 4), (0, 3), ('1/2', 4), (2, '1/4'), (1, 8), (-2, 0), (0, 16), (3, 3), ('-1/2', '7/2'),
          # upper end negative in bin space and equal to data values: linear below zero (also reversed), log below one
          (-2, -1), ('-1/2', -2), (-2, '-1/2'), ('1/4', '1/2'), ('1/2', '1/4'), (-1, -1)]


CRASH_PROBE = r'''
import numpy as np
from glue.core import Data
d = Data(x=np.array([0., 1., 1.]))
d.compute_histogram([d.id['x']], range=[(0, 0)], bins=[3])
d.compute_histogram([d.id['x']], range=[(1, 1)], bins=[3], log=[True])
d.compute_histogram([d.id['x'], d.id['x']], range=[(0, 1), (0, 0)], bins=[2, 2])
'''


def zero_point_range(c):
    """zero-width range whose (log-)image is 0: the input class that used to crash the interpreter"""
    for dmn, rg in enumerate(c['range']):
        a, b = Fraction(rg[0]), Fraction(rg[1])
        if a == b and (a == 0 or (c['log'] and c['log'][dmn] and a == 1)):
            return True
    return False


def crash_probe(R):
    """run the zero-width-range-at-zero calls in a child process first: a segmentation fault there must become a
    reported violation, not the death of the harness"""
    import subprocess
    import sys
    p = subprocess.run([sys.executable, '-W', 'ignore', '-c', CRASH_PROBE], stdout=subprocess.PIPE, stderr=subprocess.PIPE)
    R.count(('crash_probe',), nontrivial=True, stream='hist_crash_probe')
    if p.returncode != 0:
        case = {'stream': 'hist_exhaustive', 'x': [0, 4, 4], 'y': None, 'w': None, 'sel': None, 'range': [['0', '0']], 'bins': [3], 'log': [False],
                'in_subprocess': True}
        R.fail('oracle', case, {'child_returncode': p.returncode, 'stderr': p.stderr.decode(errors='replace')[-300:],
                                'what': 'compute_histogram with a zero-width range at zero (or at one in log mode) kills the interpreter'}, key=None)
        return False
    return True


def stream_hist(R, safe=True):
    pool = val_pool()
    cases = []
    # (i) small-scope exhaustive: a fixed point set that sits on range ends, interior edges and inside bins
    xs = [-8, -4, -2, 0, 1, 2, 3, 4, 6, 8, 12, 16, 5, 16, 'nan', 'inf', '-inf', 0, 7, 2]
    ws = [4, 8, -4, 2, 4, 12, 1, 4, 4, 6, 4, 2, 4, 4, 4, 4, 4, 8, 4, 4]
    sels = [None, [i % 3 != 0 for i in range(len(xs))], [False] * len(xs)]
    for rg in RANGES:
        for n in range(1, 8):
            for lg in (False, True):
                for wi in (None, ws):
                    for s in sels:
                        cases.append({'stream': 'hist_exhaustive', 'x': xs, 'y': None, 'w': wi, 'sel': s, 'range': [list(map(str, rg))],
                                      'bins': [n], 'log': [lg]})
    nexh = len(cases)
    # (ii) random 1-d and 2-d
    N = R.pick(2500, 25000)
    for i in range(N):
        rng = R.subrng('hist', i)
        npts = rng.randrange(1, 14)
        two = rng.random() < .35
        c = {'stream': 'hist_random', 'sub': i, 'x': [rng.choice(pool) for _ in range(npts)], 'y': [rng.choice(pool) for _ in range(npts)] if two else None,
             'w': [rng.randrange(-4, 13) for _ in range(npts)] if rng.random() < .4 else None,
             'sel': [int(rng.random() < .7) for _ in range(npts)] if rng.random() < .5 else None}

        def rr():
            k = rng.random()
            if k < .25:
                a, b = rng.choice(RANGES)
                return [str(a), str(b)]
            a = Fraction(rng.randrange(-8, 17), 4)
            b = a + Fraction(rng.randrange(0, 17), rng.choice([1, 2, 4]))
            return [str(b), str(a)] if rng.random() < .25 else [str(a), str(b)]
        if two:
            c.update(range=[rr(), rr()], bins=[rng.randrange(1, 5), rng.randrange(1, 5)], log=rng.choice([None, [False, False], [True, False], [False, True], [True, True]]))
        else:
            c.update(range=[rr()], bins=[rng.randrange(1, 8)], log=rng.choice([None, [False], [True]]))
        cases.append(c)
    if not safe:
        cases = [c for c in cases if not zero_point_range(c)]
        R.note('zero-width ranges at zero skipped in-process: the child-process probe crashed')
    mouts, gouts, nlines = hist_model_both(R, cases)
    for k, c in enumerate(cases):
        impl = run_impl_hist(c)
        check_hist(R, c, impl, mouts.get(k), gout=gouts.get(k))
    R.sample(cases[nexh])
    R.stream('hist', exhaustive_cases=nexh, random_cases=N, model_cases=nlines, exhaustive=False,
             bound='exhaustive: 15 ranges (reversed, point, ends on data values, interior edges on data values) x bins 1..7 x lin/log x weights x 3 selections '
                   'over a 20-point set with NaN/+-inf; random: 1..13 points, 1-d and 2-d (bins <= 4x4), ranges with dyadic ends, log per axis')


def p2(m, e):
    return str(Fraction(m) * Fraction(2) ** e)


def stream_hist_magnitude(R):
    """range ends that coincide with data values across magnitudes 2**-40 .. 2**48 (1e-12 .. 1e14), linear and log;
    all values are m * 2**e with a small mantissa, so Fraction and float arithmetic agree exactly"""
    cases = []
    exps = R.pick([-40, -30, -20, -7, 0, 10, 20, 27, 30, 40], [-40, -34, -30, -27, -20, -14, -7, 0, 7, 10, 14, 20, 24, 27, 30, 34, 40])
    k = 0
    for e in exps:
        for d in (1, 2, 3, 4, 6, 8):
            xs = ['%d@%d' % (m, e + j) for j in range(-1, d + 2) for m in (1, 3, 5, 7)]
            xs += ['1@%d' % (e + d)] * 2 + ['1@%d' % e, 'nan', 'inf', '-inf']
            for n in range(1, 8):
                for lg in (False, True):
                    k += 1
                    for (mlo, mhi) in ([(1, 1)] if lg else [(1, 1), (3, 5)]):
                        rg = [p2(mlo, e), p2(mhi, e + d)]
                        if k % 3 == 0:
                            rg = rg[::-1]
                        cases.append({'stream': 'hist_magnitude', 'x': xs, 'y': None, 'w': ([((i * 7) % 9) - 2 for i in range(len(xs))] if k % 4 == 0 else None),
                                      'sel': ([int(i % 5 != 0) for i in range(len(xs))] if k % 2 == 0 else None), 'range': [rg], 'bins': [n], 'log': [lg]})
    # 2-d: ordinary x, y across magnitudes, log on y
    for e in exps:
        for d in (2, 4):
            ys = ['%d@%d' % (m, e + j) for j in range(0, d + 1) for m in (1, 3)] + ['1@%d' % (e + d), 'nan']
            xs = [(i * 5) % 17 - 4 for i in range(len(ys))]
            for lgy in (False, True):
                cases.append({'stream': 'hist_magnitude', 'x': xs, 'y': ys, 'w': None, 'sel': None, 'range': [['-1', '3'], [p2(1, e), p2(1, e + d)]],
                              'bins': [2, d], 'log': [False, lgy]})
    mouts, gouts, nlines = hist_model_both(R, cases)
    for i, c in enumerate(cases):
        impl = run_impl_hist(c)
        check_hist(R, c, impl, mouts.get(i), gout=gouts.get(i))
    R.sample(cases[len(cases) // 2])
    R.stream('hist_magnitude', cases=len(cases), model_cases=nlines, exhaustive=True,
             bound='lower end m*2**e, upper end m\'*2**(e+d) for e in %s, d in {1,2,3,4,6,8}; data = {1,3,5,7}*2**(e-1..e+d+1) plus both range ends (the upper one three '
                   'times), NaN, +-inf; bins 1..7; linear and log; reversed ranges, weights and selections rotate; 2-d with the y axis across the same magnitudes' % (exps,))


# ------------------------------------------------------------------ state reuse: one subset-state object, many calls
MEMO_KINDS = ['ineq', 'and', 'or', 'not', 'range_pix', 'mask', 'xor_like']


def reuse_sel(rng, shape):
    nd = len(shape)
    n = int(np.prod(shape))
    k = rng.choice(MEMO_KINDS)
    ineq = ['ineq', rng.randrange(0, 4)]
    a = rng.randrange(nd)
    rp = ['range_pix', a, rng.randrange(0, shape[a]), shape[a]]
    if k == 'ineq':
        return ineq
    if k == 'and':
        return ['and', ineq, rp]
    if k == 'or':
        return ['or', ineq, ['range_pix', a, 0, 0]]
    if k == 'not':
        return ['not', ineq]
    if k == 'range_pix':
        return rp
    if k == 'mask':
        return ['mask', [int(rng.random() < .7) for _ in range(n)]]
    return ['and', ['not', ['ineq', 4]], ['or', ineq, rp]]


def reuse_case(R, i):
    """a sequence of calls that all use the SAME subset-state object: statistics on different attributes / filters / views,
    histograms, masks; x has NaN / +-inf / negatives inside the selection, z is finite and positive"""
    rng = R.subrng('reuse', i)
    nd = rng.choice([1, 2, 2, 3])
    shape = [rng.choice([2, 3, 4, 5]) for _ in range(nd)]
    n = int(np.prod(shape))
    pool = ['nan', 'nan', 'inf', '-inf'] + list(range(-8, 17))
    views = [None]
    for _ in range(2):
        for _ in range(20):
            v = [rand_slice(rng, s, strided=rng.random() < .3) for s in shape[:rng.randrange(1, nd + 1)]]
            if nonempty_view(shape, v):
                views.append(v)
                break
    ops = []
    for k in range(rng.randrange(3, 8)):
        kind = rng.choice(['stat', 'stat', 'stat', 'stat', 'hist', 'mask'])
        view = rng.choice(views) if rng.random() < .5 else None
        if kind == 'stat':
            axk = rng.choice(['none', 'int', 'tuple', 'all'])
            axis = None if axk == 'none' else rng.randrange(nd) if axk == 'int' else list(range(nd)) if axk == 'all' else sorted(rng.sample(range(nd), rng.randrange(0, nd + 1)))
            stat = rng.choice(STATS)
            # the first call is on the attribute with non-finite / negative values, with a filter that removes some of the selection
            att = 'x' if k == 0 else rng.choice(['x', 'z', 'z'])
            ops.append({'op': 'stat', 'att': att, 'stat': stat, 'pct': rng.choice([0, 25, 50, 100]) if stat == 'percentile' else None, 'axis': axis,
                        'finite': True if k == 0 else rng.random() < .7, 'positive': rng.random() < (.5 if k == 0 else .25), 'view': view})
        elif kind == 'hist':
            lo = rng.randrange(-8, 8)
            ops.append({'op': 'hist', 'att': rng.choice(['x', 'z']), 'range': [str(Fraction(lo, 4)), str(Fraction(lo + rng.randrange(1, 24), 4))], 'bins': rng.randrange(1, 6)})
        else:
            ops.append({'op': 'mask', 'view': view})
    return {'stream': 'state_reuse', 'sub': i, 'shape': shape, 'values': [rng.choice(pool) for _ in range(n)], 'z': [rng.randrange(1, 17) for _ in range(n)],
            'y': [rng.randrange(0, 6) for _ in range(n)], 'sel': reuse_sel(rng, shape), 'ops': ops}


def run_reuse(c):
    """run the sequence on ONE state object; returns None or the description of the first step that deviates
    (a wrong result, or a mask that is no longer what it was)"""
    d, x, y = make_data(c)
    shape = tuple(c['shape'])
    arrs = {'x': x, 'z': np.array([val_dec(v) for v in c['z']], dtype=float).reshape(shape)}
    ref = ref_mask(c['sel'], shape, y)
    state = build_state(c['sel'], d, G)
    seen_views = []
    for k, op in enumerate(c['ops']):
        bad = None
        v = None if op.get('view') is None else tuple(vent(t) for t in op['view'])
        try:
            with warnings.catch_warnings():
                warnings.simplefilter('ignore')
                if op['op'] == 'stat':
                    ax = tuple(op['axis']) if isinstance(op['axis'], list) else op['axis']
                    exp, amb = textbook(arrs[op['att']], ref, op['stat'], ax, op['finite'], op['positive'], op['pct'], v)
                    got = np.asarray(d.compute_statistic(op['stat'], d.id[op['att']], subset_state=state, axis=ax, finite=op['finite'],
                                                         positive=op['positive'], percentile=op['pct'], view=v), dtype=float)
                    if got.shape != exp.shape or not same(got, exp, amb):
                        bad = {'result': got.tolist(), 'expected': exp.tolist()}
                elif op['op'] == 'hist':
                    a = arrs[op['att']].ravel()
                    hc = {'x': [('nan' if t != t else 'inf' if t == INF else '-inf' if t == -INF else int(round(t * 4))) for t in a.tolist()], 'y': None, 'w': None,
                          'sel': ref.ravel().astype(int).tolist(), 'range': [op['range']], 'bins': [op['bins']], 'log': None}
                    H = np.asarray(d.compute_histogram([d.id[op['att']]], range=[tuple(float(Fraction(t)) for t in op['range'])], bins=[op['bins']],
                                                       subset_state=state), dtype=float)
                    ok, first = hist_expected_ok(hc, H) if H.shape == (op['bins'],) else (False, None)
                    if not ok:
                        bad = {'histogram': H.tolist(), 'expected(one admissible)': None if first is None else np.asarray(first, dtype=float).tolist()}
                else:
                    got = np.asarray(d.get_mask(state, view=v))
                    exp = ref if v is None else ref[v]
                    if got.shape != exp.shape or not np.array_equal(got, exp):
                        bad = {'mask': got.astype(int).tolist(), 'expected': exp.astype(int).tolist()}
        except Exception as e:  # noqa
            bad = {'raises': type(e).__name__, 'message': str(e)[:120]}
        if bad is not None:
            return dict(bad, step=k, op=op, what='result of step %d differs from the definition' % k)
        # operands must not be altered: re-read the mask for every view used so far
        if op.get('view') not in seen_views:
            seen_views.append(op.get('view'))
        for vv in seen_views + [None]:
            vo = None if vv is None else tuple(vent(t) for t in vv)
            m = np.asarray(d.get_mask(state, view=vo))
            e = ref if vo is None else ref[vo]
            if m.shape != e.shape or not np.array_equal(m, e):
                return {'step': k, 'op': op, 'what': 'after step %d the mask of the same state object (view %r) is no longer what it was' % (k, vv),
                        'mask': m.astype(int).tolist(), 'expected': e.astype(int).tolist()}
    return None


def shrink_reuse(c, bad):
    cur = dict(c, ops=c['ops'][:bad['step'] + 1])
    i = 0
    while i < len(cur['ops']) - 1 and len(cur['ops']) > 2:
        t = dict(cur, ops=cur['ops'][:i] + cur['ops'][i + 1:])
        if run_reuse(t) is not None:
            cur = t
        else:
            i += 1
    return cur


def check_reuse(R, c, count=True):
    bad = run_reuse(c)
    if count:
        R.count((tuple(c['shape']), tuple(c['values']), repr(c['sel']), repr(c['ops'])), nontrivial=True, stream=c['stream'], sel=sel_kind(c['sel']),
                reuse_ops=len(c['ops']))
    if bad is not None:
        small = shrink_reuse(c, bad)
        R.fail('oracle', small, run_reuse(small) or bad, key=None)
    return bad


def stream_state_reuse(R):
    G.load()
    N = R.pick(1500, 12000)
    cases = [reuse_case(R, i) for i in range(N)]
    for c in cases:
        check_reuse(R, c)
    R.sample(cases[0])
    R.stream('state_reuse', cases=N, exhaustive=False,
             bound='1..3-d, sizes 2..5; one subset-state object (inequality, And, Or, Invert, nested composite, pixel range, mask) used for 3..7 calls in a row: '
                   'statistics on x (NaN/+-inf/negatives) and z (finite, positive) with varying statistic / axis / finite / positive / view (views repeat), '
                   'histograms, masks; every result against the definition and the mask re-read after every step (oracle only)')


# ------------------------------------------------------------------ corpus of the historic defect inputs (always first)
def corpus():
    """the inputs of the five repaired defects and of the seeded changes C10-1..4, as ordinary cases"""
    st, hi, ru = [], [], []
    vals24 = [(k * 7) % 25 - 8 for k in range(24)]
    y24 = [(k * 5) % 6 for k in range(24)]
    b = {'stream': 'corpus', 'shape': [2, 3, 4], 'values': vals24, 'y': y24, 'stat': 'sum', 'pct': None, 'finite': True, 'positive': False, 'ncm': 40000000}
    # F-C10: strided view + subset + axis
    m = np.zeros((2, 3, 4), dtype=int)
    m[1, 2, 1:3] = 1
    st.append(dict(b, sel=['mask', m.ravel().tolist()], view=[[None, None, None], [0, None, 2]], axis=[0], what='F-C10 strided view + subset + axis'))
    st.append(dict(b, sel=['mask', m.ravel().tolist()], view=[[None, None, 2]], axis=1, what='F-C10 strided view + subset + axis'))
    # subset + all axes
    st.append(dict(b, sel=['ineq', 1], view=None, axis=[0, 1, 2], what='subset + all axes'))
    st.append(dict(b, shape=[6], values=vals24[:6], y=y24[:6], sel=['ineq', 1], view=None, axis=0, what='subset + axis 0 of a 1-d dataset'))
    # SliceSubsetState + axis
    st.append(dict(b, sel=['slice', [[None, None, None], [1, 2, None], [1, 3, None]]], view=None, axis=[0, 1], what='SliceSubsetState + axis: full-size result'))
    # seeded C10-1
    n = 3 * 12 * 4
    yy = np.zeros((3, 12, 4), dtype=int)
    yy[:, 7:10, 1:3] = 5
    for view, ax in (([1, [6, 11, None]], None), ([1, [6, 11, None]], [0]), ([2, [5, 12, None], [0, 3, None]], [1]), ([-1, [-4, None, None]], None)):
        st.append(dict(b, shape=[3, 12, 4], values=[(k % 25) - 8 for k in range(n)], y=yy.ravel().tolist(), sel=['ineq', 2], view=view, axis=ax,
                       what='seeded C10-1: integer entry before an offset slice'))
    # histograms: negative upper edge in bin space that coincides with data values (fix f645358 / seeded C10-4)
    xs = [-12, -12, -10, -8, -4, -4, -4, -4, -6, 0, 4, -16, 'nan']           # /4: -3 -3 -2.5 -2 -1 -1 -1 -1 -1.5 0 1 -4
    hb = {'stream': 'corpus', 'x': xs, 'y': None, 'w': None, 'sel': None, 'log': None}
    hi.append(dict(hb, range=[['-3', '-1']], bins=[4], what='negative upper edge'))
    hi.append(dict(hb, range=[['-1', '-3']], bins=[2], sel=[int(i % 4 != 1) for i in range(len(xs))], what='negative upper edge, reversed, subset'))
    hi.append(dict(hb, range=[['-9/2', '-1']], bins=[3], w=[i + 1 for i in range(len(xs))], what='negative upper edge, weighted'))
    ps = ['1@-1', '1@-1', '1@-1', '1@-6', '3@-5', '3@-4', '5@-4', '1@-3', '3@-3', '1@0', 'nan', 'inf']
    hi.append(dict(hb, x=ps, range=[['1/64', '1/2']], bins=[5], log=[True], what='log range ending below one (model)'))
    hi.append(dict(hb, x=ps, range=[['1/100', '1/2']], bins=[3], log=[True], what='log range ending below one'))
    xpos = [0, 4, 8, 12, 2, 6, 10, 1, 3, 5, 7, 9, 11]
    hi.append(dict(hb, x=xpos, y=xs, range=[['0', '3'], ['-3', '-1']], bins=[2, 2], what='2-d, negative upper edge on the second axis'))
    hi.append(dict(hb, x=xs, y=xpos, range=[['-3', '-1'], ['0', '3']], bins=[2, 3], w=[i + 1 for i in range(len(xs))], what='2-d, negative upper edge on the first axis, weighted'))
    hi.append(dict(hb, x=[4] * len(ps), y=ps, range=[['0', '2'], ['1/64', '1/2']], bins=[1, 5], log=[False, True], what='2-d, log axis ending below one'))
    # seeded C10-2: log, upper end = data value at large / small magnitude
    for e in (30, -34):
        big = ['1@%d' % (e + 4)] * 3 + ['1@%d' % e, '3@%d' % (e + 1), '5@%d' % (e + 1), '3@%d' % (e + 2), '7@%d' % e]
        hi.append(dict(hb, x=big, range=[[p2(1, e), p2(1, e + 4)]], bins=[4], log=[True], what='seeded C10-2: log, upper end = data value, magnitude 2**%d' % (e + 4)))
    # zero-width ranges away from zero (the ones at zero are probed in a child process)
    hi.append(dict(hb, range=[['-1', '-1']], bins=[3], what='zero-width range'))
    # seeded C10-3: the same state object for two statistics
    ru.append({'stream': 'corpus', 'shape': [8], 'values': [4, 'nan', 12, 'inf', 20, 24, 28, 32], 'z': [40, 80, 120, 160, 200, 240, 280, 320],
               'y': [0, 5, 5, 5, 5, 5, 0, 0], 'sel': ['ineq', 2],
               'ops': [{'op': 'stat', 'att': 'x', 'stat': 'mean', 'pct': None, 'axis': None, 'finite': True, 'positive': False, 'view': None},
                       {'op': 'stat', 'att': 'z', 'stat': 'sum', 'pct': None, 'axis': None, 'finite': True, 'positive': False, 'view': None},
                       {'op': 'hist', 'att': 'z', 'range': ['0', '100'], 'bins': 4}],
               'what': 'seeded C10-3: same state object, second statistic after a filtering first one'})
    ru.append({'stream': 'corpus', 'shape': [3, 4], 'values': [-4, 4, -8, 8, 12, -12, 16, -16, 4, 4, -4, -4], 'z': list(range(1, 13)),
               'y': [5, 5, 5, 0, 5, 5, 5, 0, 0, 5, 5, 5], 'sel': ['and', ['ineq', 2], ['range_pix', 1, 0, 3]],
               'ops': [{'op': 'stat', 'att': 'x', 'stat': 'maximum', 'pct': None, 'axis': 0, 'finite': True, 'positive': True, 'view': None},
                       {'op': 'stat', 'att': 'z', 'stat': 'mean', 'pct': None, 'axis': 0, 'finite': True, 'positive': False, 'view': None},
                       {'op': 'stat', 'att': 'x', 'stat': 'minimum', 'pct': None, 'axis': 1, 'finite': True, 'positive': False, 'view': None},
                       {'op': 'mask', 'view': None}],
               'what': 'seeded C10-3: positive filter, with axes, composite state'})
    return st, hi, ru


def stream_corpus(R):
    G.load()
    safe = crash_probe(R)          # zero-width range at zero (fix bd4449f), in a child process
    st, hi, ru = corpus()
    ctx, lines = [], []
    for c in st:
        d, x, y = make_data(c)
        mask = None if c['sel'] is None else ref_mask(c['sel'], tuple(c['shape']), y)
        ctx.append((d, x, mask))
        lines.append(model_line_stat(c, x, mask))
    glines = [gen_line_stat(c, x, mask) for c, (d, x, mask) in zip(st, ctx)]
    hl, hidx = [], []
    for i, c in enumerate(hi):
        ln = model_line_hist(c)
        if ln is not None:
            hidx.append(i)
            hl.append(ln)
    outs = run_model(R, lines + hl + glines)
    gouts = outs[len(lines) + len(hl):]
    outs = outs[:len(lines) + len(hl)]
    for c, (d, x, mask), mo, go in zip(st, ctx, outs[:len(lines)], gouts):
        check_stat(R, c, run_impl_stat(c, d), mo, x, mask, gout=go)
    hm = dict(zip(hidx, outs[len(lines):]))
    for i, c in enumerate(hi):
        check_hist(R, c, run_impl_hist(c), hm.get(i))
    for c in ru:
        check_reuse(R, c)
    R.stream('corpus', cases=len(st) + len(hi) + len(ru) + 1, exhaustive=True,
             bound='fixed inputs of the five repaired defects (3d0c683, 1865215, 41cd7c3, bd4449f in a child process, f645358) and of the seeded changes C10-1..C10-4')
    return safe


# ------------------------------------------------------------------ what the viewers plot
def stream_viewers(R):
    """ProfileLayerState.profile and HistogramLayerState.histogram against the definition (oracle only)"""
    G.load()
    from glue.core.data_collection import DataCollection
    from glue.viewers.profile.state import ProfileViewerState, ProfileLayerState
    from glue.viewers.histogram.state import HistogramViewerState, HistogramLayerState
    N = R.pick(40, 300)
    nprof = nhist = 0
    for i in range(N):
        rng = R.subrng('viewer', i)
        nd = rng.choice([2, 3])
        shape = [rng.choice([2, 3, 4]) for _ in range(nd)]
        n = int(np.prod(shape))
        c = {'stream': 'viewer_profile', 'sub': i, 'shape': shape, 'values': [rng.choice(val_pool()) for _ in range(n)],
             'y': [rng.randrange(0, 6) for _ in range(n)], 'sel': rng.choice([['ineq', 2], ['range_pix', 0, 1, 1], ['slice', [[1, None, None]]],
                                                                              ['mask', [int(rng.random() < .5) for _ in range(n)]]]),
             'function': rng.choice(['maximum', 'minimum', 'mean', 'median', 'sum']), 'x_axis': rng.randrange(nd)}
        bad = viewer_profile_case(c)
        R.count(('vp', repr(c)), nontrivial=True, stream='viewer_profile')
        nprof += 1
        if bad:
            R.fail('oracle', c, bad, key=None)
        npts = rng.randrange(3, 12)
        h = {'stream': 'viewer_hist', 'sub': i, 'x': [rng.choice(val_pool()) for _ in range(npts)], 'y': None, 'w': None,
             'sel': [int(rng.random() < .6) for _ in range(npts)], 'range': [[str(rng.randrange(-2, 2)), str(rng.randrange(2, 5))]],
             'bins': [rng.randrange(1, 8)], 'log': [False]}
        bad = viewer_hist_case(h)
        R.count(('vh', repr(h)), nontrivial=True, stream='viewer_hist')
        nhist += 1
        if bad:
            R.fail('oracle', h, bad, key=None)
    R.stream('viewers', profile_cases=nprof, histogram_cases=nhist, exhaustive=False,
             bound='2..3-d cubes with a subset layer, every x axis, 5 functions; 1-d histograms with a subset layer')


def viewer_profile_case(c):
    from glue.core.data_collection import DataCollection
    from glue.viewers.profile.state import ProfileViewerState, ProfileLayerState
    d, x, y = make_data(c)
    dc = DataCollection([d])
    st = build_state(c['sel'], d, G)
    dc.new_subset_group(subset_state=st, label='s')
    vs = ProfileViewerState()
    ls_d = ProfileLayerState(viewer_state=vs, layer=d)
    vs.layers.append(ls_d)
    ls_s = ProfileLayerState(viewer_state=vs, layer=d.subsets[0])
    vs.layers.append(ls_s)
    vs.function = c['function']
    vs.x_att = d.pixel_component_ids[c['x_axis']]
    nd = len(c['shape'])
    axes = tuple(a for a in range(nd) if a != c['x_axis'])
    mask = ref_mask(c['sel'], tuple(c['shape']), y)
    try:
        with warnings.catch_warnings():
            warnings.simplefilter('ignore')
            for layer, m in ((ls_d, None), (ls_s, mask)):
                exp, amb = textbook(x, m, c['function'], axes, True, False, None, None)
                prof = layer.profile
                if prof is None:
                    # the first access may find the cache reset by the limits update it triggers itself
                    # (viewer-level cache protocol, not what C10 is about): ask again
                    prof = layer.profile
                px, py = prof
                if np.all(np.isnan(exp)):
                    if len(px) != 0 or len(py) != 0:
                        return {'profile': [list(px), list(py)], 'expected': 'empty'}
                    continue
                if list(px) != list(range(c['shape'][c['x_axis']])) or np.asarray(py).shape != exp.shape or not same(np.asarray(py, dtype=float), exp):
                    return {'profile_x': list(px), 'profile_y': np.asarray(py).tolist(), 'expected_y': exp.tolist()}
    except Exception as e:  # noqa
        return {'raises': type(e).__name__, 'message': str(e)[:120]}
    return None


def viewer_hist_case(h):
    from glue.core.data_collection import DataCollection
    from glue.viewers.histogram.state import HistogramViewerState, HistogramLayerState
    x = np.array([val_dec(v) for v in h['x']], dtype=float)
    d = G.Data(x=x)
    dc = DataCollection([d])
    dc.new_subset_group(subset_state=G.MaskSubsetState(np.array(h['sel'], dtype=bool), d.pixel_component_ids), label='s')
    vs = HistogramViewerState()
    ls_d = HistogramLayerState(viewer_state=vs, layer=d)
    vs.layers.append(ls_d)
    ls_s = HistogramLayerState(viewer_state=vs, layer=d.subsets[0])
    vs.layers.append(ls_s)
    try:
        with warnings.catch_warnings():
            warnings.simplefilter('ignore')
            vs.x_att = d.id['x']
            lo, hi = [float(Fraction(v)) for v in h['range'][0]]
            vs.hist_x_min, vs.hist_x_max, vs.hist_n_bin = lo, hi, h['bins'][0]
            vs.cumulative = False
            vs.normalize = False
            for layer, s in ((ls_d, None), (ls_s, h['sel'])):
                edges, vals = layer.histogram
                hh = dict(h, sel=s)
                ok, first = hist_expected_ok(hh, vals)
                if len(edges) != h['bins'][0] + 1 or edges[0] != lo or edges[-1] != hi or not ok:
                    return {'edges': list(map(float, edges)), 'values': list(map(float, vals)), 'expected(one admissible)': [float(v) for v in first.tolist()]}
    except Exception as e:  # noqa
        return {'raises': type(e).__name__, 'message': str(e)[:120]}
    return None


# ------------------------------------------------------------------ malformed
def stream_malformed(R):
    G.load()
    d = G.Data(x=np.arange(6.).reshape(2, 3))
    n = 0
    for label, f, want in [
        ('unknown statistic', lambda: d.compute_statistic('mode', d.id['x']), 'ValueError'),
        ('axis out of range', lambda: d.compute_statistic('sum', d.id['x'], axis=2), ('AxisError', 'IndexError', 'ValueError')),
        ('three attributes', lambda: d.compute_histogram([d.id['x']] * 3, range=[(0, 1)] * 3, bins=[2] * 3), 'NotImplementedError'),
        ('zero bins', lambda: d.compute_histogram([d.id['x']], range=[(0, 4)], bins=[0]), 'ValueError'),
        ('infinite range', lambda: d.compute_histogram([d.id['x']], range=[(0, INF)], bins=[2]), 'ValueError'),
    ]:
        n += 1
        try:
            f()
            got = 'no error'
        except Exception as e:  # noqa
            got = type(e).__name__
        R.count(('malformed', label), nontrivial=False, stream='malformed', error=got)
        if got not in (want if isinstance(want, tuple) else (want,)):
            R.fail('correspondence', {'stream': 'malformed', 'what': label}, {'impl': got, 'expected': want})
    # model side: malformed wire input gives the explicit error value
    if not R.model_available:
        R.stream('malformed', cases=n, exhaustive=True, bound='model not available')
        return
    out = R.model(['(9 1 2)', '(1 (0 1) (0) (0))'])
    for o in out:
        n += 1
        if not is_err(o):
            R.fail('correspondence', {'stream': 'malformed', 'what': 'wire'}, {'model': o})
    R.stream('malformed', cases=n, exhaustive=True, bound='unknown statistic, axis out of range, 3-d histogram, zero bins, infinite range, malformed wire')


def run(R):
    R.rule = ('statistics: exhaustive small-scope stream over (shape, selection, view, axis argument) with rotating statistic / filters and every chunk '
              'limit where the chunk loop is reachable, plus a seeded random stream of larger cases; histograms: exhaustive grid of ranges x bins x log x '
              'weights x selections over a fixed point set, plus random 1-d/2-d cases; a case is non-trivial when the expected result has a non-NaN lane '
              '(statistics) or a non-zero bin (histograms); distinct = distinct canonical inputs')
    safe = stream_corpus(R)
    stream_state_reuse(R)
    stream_stat_exhaustive(R)
    stream_stat_random(R)
    stream_stat_intviews(R)
    stream_stat_broadcast(R)
    R.stream('stat_translated', cases=GEN_STATS['cases'], disagreements=GEN_STATS['disagree'], exhaustive=True,
             bound='every case of the streams corpus, stat_exhaustive (exhaustive small scope), stat_random and stat_intviews (seeded random) is also run '
                   'through the skeleton TRANSLATED from the current source (coq/gen/Gen_stat.v: compute_statistic, instantiated in coq/C10/Model.v, '
                   'run_case tag 6) and compared with the live result: shape and, per output lane, the reducer applied to exactly the kept cells')
    stream_hist(R, safe)
    stream_hist_magnitude(R)
    R.stream('hist_translated', cases=GEN_HIST['cases'], disagreements=GEN_HIST['disagree'], exhaustive=True,
             bound='every histogram case the hand model covers (streams hist: exhaustive grid + seeded random, hist_magnitude) is also run through the '
                   'skeleton TRANSLATED from the current source (coq/gen/Gen_stat.v: compute_histogram, instantiated in coq/C10/Model.v, run_case tags 7 / 8: '
                   '1-d incl. log, weights, selections, reversed and zero-width ranges; 2-d linear) and compared with the live result')
    stream_viewers(R)
    stream_malformed(R)


def replay(R, case):
    G.load()
    st = case.get('stream', '')
    out = {'case': case}
    if 'ops' in case:
        bad = run_reuse(case)
        out.update(detail=bad, violates=bad is not None)
    elif st.startswith('stat') or (st == 'corpus' and 'values' in case):
        d, x, y = make_data(case)
        mask = None if case['sel'] is None else ref_mask(case['sel'], tuple(case['shape']), y)
        impl = run_impl_stat(case, d)
        exp, amb = textbook(x, mask, case['stat'], axis_of(case), case['finite'], case['positive'], case['pct'], view_of(case))
        mo = None
        if R.model_available:
            mo = R.model([model_line_stat(case, x, mask)])[0]
        out['implementation'] = impl[1].tolist() if impl[0] == 'ok' else list(impl)
        out['textbook'] = exp.tolist()
        out['model'] = None if mo is None else (mo if is_err(mo) else {'shape': to_zs(kids(mo)[0]), 'lanes': [to_zs(l) for l in kids(kids(mo)[1])]})
        out['violates'] = bool(impl[0] == 'err' or impl[1].shape != exp.shape or not same(impl[1], exp, amb))
    elif st.startswith('hist') and case.get('in_subprocess'):
        import subprocess
        import sys
        p = subprocess.run([sys.executable, '-W', 'ignore', '-c', CRASH_PROBE], stdout=subprocess.PIPE, stderr=subprocess.PIPE)
        out.update(child_returncode=p.returncode, violates=p.returncode != 0)
    elif st.startswith('hist') or (st == 'corpus' and 'bins' in case):
        impl = run_impl_hist(case)
        out['implementation'] = impl[1].tolist() if impl[0] == 'ok' else list(impl)
        if hist_defined(case):
            if impl[0] == 'err' or impl[1].shape != tuple(case['bins']):
                out['violates'] = True
            else:
                ok, first = hist_expected_ok(case, impl[1])
                out['textbook(one admissible)'] = np.asarray(first, dtype=float).tolist()
                out['violates'] = not ok
        else:
            out['violates'] = False
        ln = model_line_hist(case)
        if ln is not None and R.model_available:
            out['model'] = R.model([ln])[0]
    elif st == 'viewer_profile':
        bad = viewer_profile_case(case)
        out.update(detail=bad, violates=bad is not None)
    elif st == 'viewer_hist':
        bad = viewer_hist_case(case)
        out.update(detail=bad, violates=bad is not None)
    else:
        out['note'] = 'replay by re-running the stream: ./check C10 --tier quick'
        out['violates'] = False
    return out
