"""C20 — chunk, slice and broadcast helpers are exact (glue/utils/array.py)."""
import itertools

import numpy as np

from harness.common import enc, Z, B, opt, to_zs, is_err, err_code, kids, tag
from harness import c20_history as H

PROP = 'C20'
GENERATORS = ['gen_array', 'gen_arraypure']
TRUSTED = [
    'translator tools/py2gallina.py (find_chunk_shape, iterate_chunks, combine_slices are regenerated from glue/utils/array.py on every run)',
    'tools/gen/gen_arraypure.py: ast analysis of the helper module (decorators, module state, aliasing; flow-insensitive may-alias) and the translation of the two lines of view_shape; the numpy indexing under view_shape is the opaque operation np_index_shape of the model, tied to numpy by the exhaustive stream view_shape_scalar',
    'hand models of round 4: np_index_shape (numpy reading of scalar index items incl. scalar booleans, None, Ellipsis), the categorical object heap (cstep: buffers, views, lazily cached categories / codes); the categories setter is NOT in the model (known finding categories-setter-keeps-stale-codes)',
    'history stream: "in isolation" = the dependency chain of the call on a freshly executed copy of glue/utils/array.py (state kept outside that module, e.g. inside numpy / pandas, is shared)',
    'Common.PyInt.slice_indices models CPython slice.indices: tied by the exhaustive correspondence stream `slice_indices`',
    'hand models: view_shape (basic indexing), unbroadcast/broadcast_back (stride flags), categories/codes (values mapped to their rank in Python sort order)',
    'numpy indexing / broadcasting and pandas.factorize are the platform (oracle side)',
]
ASSUMPTIONS = ['0-d shapes are outside the stated domain (iterate_chunks(()) raises IndexError)',
               'view_shape model covers scalar index items (ints, scalar booleans, None, Ellipsis, slices, tuples of them); index-array, list and boolean-mask views are checked by the numpy oracle only']


def sl_enc(s):
    return (0, [opt(s.start), opt(s.stop), opt(s.step)])


def sl_key(s):
    return (s.start, s.stop, s.step)


def all_slices(L, steps, pad=1):
    vals = [None] + list(range(-L - pad, L + pad + 1))
    return [slice(a, b, s) for a in vals for b in vals for s in steps]


# ------------------------------------------------------------------ streams
def stream_slice_indices(R):
    Lmax = R.pick(5, 8)
    cases = []
    for n in range(0, Lmax + 1):
        for s in all_slices(n, [None, 1, 2, 3, -1, -2, -3], pad=2):
            cases.append((s, n))
    lines = [enc((4, [sl_enc(s), n])) for s, n in cases]
    outs = R.model(lines)
    for (s, n), o in zip(cases, outs):
        exp = s.indices(n)
        R.count(('si', sl_key(s), n), nontrivial=True, stream='slice_indices')
        got = tuple(to_zs(kids(o)[0])) if tag(o) == 1 else None
        if got != exp:
            R.fail('correspondence', {'stream': 'slice_indices', 'slice': sl_key(s), 'n': n},
                   {'model': got, 'impl': exp})
    R.stream('slice_indices', cases=len(cases), exhaustive=True, bound='lengths 0..%d, start/stop None or in [-n-2,n+2], steps None,+-1,+-2,+-3' % Lmax)


def stream_combine(R, combine_slices):
    Lmax = R.pick(5, 7)
    steps = R.pick([None, 1, 2, 3], [None, 1, 2, 3, 4])
    cases = []
    for n in range(0, Lmax + 1):
        sls = all_slices(n, steps)
        for s1 in sls:
            for s2 in sls:
                cases.append((s1, s2, n))
    # a separate malformed stream: negative / zero steps -> ValueError
    bad = []
    for n in (0, 3, 5):
        for s1, s2 in [(slice(None, None, -1), slice(None)), (slice(None), slice(4, 0, -2)), (slice(0, 3, 0), slice(None)),
                       (slice(None), slice(None, None, 0)), (slice(1, None, -1), slice(None, 2, -3))]:
            bad.append((s1, s2, n))
    allc = cases + bad
    lines = [enc((3, [sl_enc(s1), sl_enc(s2), n])) for s1, s2, n in allc]
    outs = R.model(lines)
    base = {n: np.arange(n) for n in range(Lmax + 1)}
    for (s1, s2, n), o in zip(allc, outs):
        try:
            r = combine_slices(s1, s2, n)
            impl = ('ok', (r.start, r.stop, r.step))
        except ValueError:
            impl = ('err', 1)
            r = None
        model = ('err', err_code(o)) if is_err(o) else ('ok', tuple(to_zs(kids(o)[0])))
        a1 = base[n][s1] if (s1.step is None or s1.step > 0) and (s2.step is None or s2.step > 0) else None
        nontriv = a1 is not None and r is not None and len(a1[r]) > 0
        R.count(('cs', sl_key(s1), sl_key(s2), n), nontrivial=nontriv, stream='combine_slices',
                combine_result=('error' if r is None else 'empty' if not nontriv else 'len%d' % min(len(a1[r]), 4)))
        if impl != model:
            R.fail('correspondence', {'stream': 'combine_slices', 's1': sl_key(s1), 's2': sl_key(s2), 'n': n},
                   {'model': model, 'impl': impl})
        if r is not None and a1 is not None:
            # oracle: positions within the view slice1 of the elements chosen by both
            a2 = set(base[n][s2].tolist())
            want = [i for i, v in enumerate(a1.tolist()) if v in a2]
            got = np.arange(len(a1))[r].tolist()
            if got != want:
                R.fail('oracle', {'stream': 'combine_slices', 's1': sl_key(s1), 's2': sl_key(s2), 'n': n},
                       {'positions': got, 'expected': want})
    R.sample({'combine_slices': {'slice1': [1, None, 2], 'slice2': [None, 4, None], 'length': 5}})
    R.stream('combine_slices', cases=len(cases), malformed=len(bad), exhaustive=True,
             bound='all pairs of slices over lengths 0..%d, start/stop None or in [-n-1,n+1], steps %s' % (Lmax, steps))


def shapes(maxdim, sizes):
    for d in range(1, maxdim + 1):
        for sh in itertools.product(sizes, repeat=d):
            yield sh


def stream_chunks(R, find_chunk_shape, iterate_chunks):
    maxdim = 3
    sizes = R.pick([1, 2, 3, 4], [1, 2, 3, 4, 5])
    nmaxes = list(range(1, R.pick(24, 40))) + [64, 200]
    fc_cases = []
    for sh in shapes(maxdim, sizes):
        for nm in [None] + nmaxes:
            fc_cases.append((sh, nm))
    outs = R.model([enc((1, [Z(sh), opt(nm)])) for sh, nm in fc_cases])
    for (sh, nm), o in zip(fc_cases, outs):
        impl = tuple(int(x) for x in find_chunk_shape(sh, nm))
        model = tuple(to_zs(o))
        R.count(('fc', sh, nm), nontrivial=nm is not None and impl != tuple(sh), stream='find_chunk_shape')
        if impl != model:
            R.fail('correspondence', {'stream': 'find_chunk_shape', 'shape': sh, 'n_max': nm}, {'model': model, 'impl': impl})
        if nm is not None:
            if len(impl) != len(sh) or any(not (1 <= c <= s) for c, s in zip(impl, sh)) or int(np.prod(impl)) > nm:
                R.fail('oracle', {'stream': 'find_chunk_shape', 'shape': sh, 'n_max': nm}, {'chunk_shape': impl})
    # iterate_chunks: n_max form and chunk_shape form (valid and invalid), shapes with zeros too
    it_cases = []
    sizes0 = [0] + sizes
    for sh in shapes(maxdim, sizes0):
        if len(sh) == 3 and max(sh) > R.pick(3, 4):
            continue
        for nm in R.pick([1, 2, 3, 4, 5, 7, 8, 12, 100], [1, 2, 3, 4, 5, 6, 7, 8, 9, 12, 16, 27, 100]):
            it_cases.append((sh, None, nm))
        for cs in itertools.product(*[range(1, max(s, 1) + 1) for s in sh]):
            it_cases.append((sh, cs, None))
    # malformed: chunk too large, wrong length, both / neither argument
    for sh in [(2,), (2, 3), (3, 2, 2), (0, 2)]:
        it_cases.append((sh, tuple(s + 1 for s in sh), None))
        it_cases.append((sh, (1,) * (len(sh) + 1), None))
        it_cases.append((sh, None, None))
        it_cases.append((sh, (1,) * len(sh), 3))
    lines = [enc((2, [Z(sh), ((0, []) if cs is None else (1, list(cs))), opt(nm)])) for sh, cs, nm in it_cases]
    outs = R.model(lines)
    ref_lines, ref_idx = [], []
    impl_res = []
    for k, (sh, cs, nm) in enumerate(it_cases):
        try:
            chunks = list(iterate_chunks(sh, chunk_shape=cs, n_max=nm))
            impl = ('ok', tuple(tuple((int(s.start), int(s.stop)) for s in ch) for ch in chunks))
        except ValueError:
            impl = ('err', 1)
        impl_res.append(impl)
        if impl[0] == 'ok' and 0 not in sh:
            use = cs if cs is not None else tuple(int(x) for x in find_chunk_shape(sh, nm))
            ref_lines.append(enc((12, [Z(sh), Z(use)])))
            ref_idx.append(k)
    refs = dict(zip(ref_idx, R.model(ref_lines)))
    for k, ((sh, cs, nm), o) in enumerate(zip(it_cases, outs)):
        impl = impl_res[k]
        if is_err(o):
            model = ('err', err_code(o))
        else:
            model = ('ok', tuple(tuple(tuple(to_zs(p)) for p in kids(ch)) for ch in kids(kids(o)[0])))
        nontriv = impl[0] == 'ok' and len(impl[1]) > 1
        R.count(('it', sh, cs, nm), nontrivial=nontriv, stream='iterate_chunks',
                chunks=('error' if impl[0] == 'err' else min(len(impl[1]), 9)), ndim=len(sh))
        if impl != model:
            R.fail('correspondence', {'stream': 'iterate_chunks', 'shape': sh, 'chunk_shape': cs, 'n_max': nm},
                   {'model': model, 'impl': impl})
        if k in refs:
            ref = tuple(tuple(tuple(to_zs(p)) for p in kids(ch)) for ch in kids(refs[k]))
            if model[0] == 'ok' and ref != model[1]:
                R.fail('correspondence', {'stream': 'iterate_chunks(Gen vs Model.m_chunks)', 'shape': sh, 'chunk_shape': cs, 'n_max': nm},
                       {'gen': model, 'm_chunks': ref})
        if impl[0] == 'ok':
            cover = np.zeros(sh, dtype=int)
            limit = nm if nm is not None else (int(np.prod(cs)) if cs is not None else 0)
            bad = None
            for ch in impl[1]:
                slc = tuple(slice(a, b) for a, b in ch)
                cover[slc] += 1
                size = int(np.prod([b - a for a, b in ch]))
                if size > limit or size == 0:
                    bad = 'chunk %r has %d elements (limit %d)' % (ch, size, limit)
            if bad is None and cover.size and not (cover == 1).all():
                bad = 'coverage counts %r' % cover.tolist()
            if bad:
                R.fail('oracle', {'stream': 'iterate_chunks', 'shape': sh, 'chunk_shape': cs, 'n_max': nm}, {'why': bad})
    R.sample({'iterate_chunks': {'shape': [3, 4], 'n_max': 5}})
    R.stream('chunks', find_chunk_shape_cases=len(fc_cases), iterate_chunks_cases=len(it_cases), exhaustive=True,
             bound='all shapes of 1..3 dims over sizes %s (0 included for iterate_chunks), n_max %s.., every valid chunk_shape' % (sizes, nmaxes[:3]))


def stream_view_shape(R, view_shape):
    sizes = R.pick([0, 1, 2, 3], [0, 1, 2, 3, 4])
    entries = {}
    cases = []
    for sh in shapes(3, sizes):
        if len(sh) == 3 and max(sh) > 3:
            continue
        per_axis = []
        for n in sh:
            es = [('i', i) for i in range(-n - 1, n + 1)]
            es += [('s', slice(None)), ('s', slice(1, None)), ('s', slice(0, None, 2)), ('s', slice(1, 3)),
                   ('s', slice(None, -1)), ('s', slice(-2, None, 3)), ('s', slice(None, None, -1)), ('s', slice(5, 1, -2))]
            per_axis.append(es)
        for ln in range(0, len(sh) + 2):
            axes = per_axis[:ln] + [[('i', 0), ('s', slice(None))]] * max(0, ln - len(sh))
            for v in itertools.product(*axes):
                cases.append((sh, v))
    if R.quick() and len(cases) > 60000:
        cases = R.subrng('vs').sample(cases, 60000)
        R.note('view_shape stream sampled to 60000 of the enumerated cases in the quick tier')

    def e_enc(e):
        return (1, [e[1]]) if e[0] == 'i' else sl_enc(e[1])
    outs = R.model([enc((5, [Z(sh), (0, [e_enc(e) for e in v])])) for sh, v in cases])
    for (sh, v), o in zip(cases, outs):
        view = tuple(e[1] for e in v)
        try:
            real = np.zeros(sh)[view].shape
        except IndexError:
            real = 'IndexError'
        try:
            impl = tuple(view_shape(sh, view))
        except IndexError:
            impl = 'IndexError'
        model = 'IndexError' if is_err(o) else tuple(to_zs(kids(o)[0]))
        R.count(('vs', sh, tuple((k, sl_key(x) if k == 's' else x) for k, x in v)), nontrivial=real != 'IndexError' and real != sh,
                stream='view_shape', view_len=len(v))
        if impl != model:
            R.fail('correspondence', {'stream': 'view_shape', 'shape': sh, 'view': [sl_key(x) if k == 's' else x for k, x in v]},
                   {'model': model, 'impl': impl})
        if impl != real:
            R.fail('oracle', {'stream': 'view_shape', 'shape': sh, 'view': [sl_key(x) if k == 's' else x for k, x in v]},
                   {'view_shape': impl, 'numpy': real})
    # oracle-only: None, Ellipsis, index arrays, boolean masks
    rng = R.subrng('vs2')
    nadv = 0
    for sh in shapes(3, [1, 2, 3]):
        views = [None, Ellipsis, (Ellipsis, 0), (0, Ellipsis)]
        views.append(tuple(np.array([rng.randrange(n) for _ in range(4)]) for n in sh))
        views.append(np.array([rng.random() < 0.5 for _ in range(int(np.prod(sh)))]).reshape(sh))
        views.append((np.array([rng.randrange(sh[0]) for _ in range(3)]),))
        # plain Python lists are index arrays too ([0, 2] selects two entries along axis 0; it is NOT the tuple (0, 2))
        views.append([rng.randrange(sh[0]) for _ in range(2)])
        views.append([0] * 3)
        views.append([[rng.randrange(sh[0]) for _ in range(2)] for _ in range(2)])
        if len(sh) >= 2:
            views.append(([rng.randrange(sh[0]) for _ in range(2)], slice(None)))
            views.append((slice(None), [rng.randrange(sh[1]) for _ in range(3)]))
        views.append([rng.random() < 0.5 for _ in range(sh[0])])
        for view in views:
            nadv += 1
            real = np.zeros(sh)[view].shape if view is not None else tuple(sh)
            try:
                impl = tuple(view_shape(sh, view))
            except Exception as exc:        # numpy accepts the view: an exception is a wrong prediction, not a crash of the check
                impl = 'raises %s' % type(exc).__name__
            R.count(('vsadv', sh, repr(view)), nontrivial=True, stream='view_shape_advanced')
            if impl != real:
                R.fail('oracle', {'stream': 'view_shape_advanced', 'shape': sh, 'view': repr(view)}, {'view_shape': impl, 'numpy': real})
    R.stream('view_shape', basic_cases=len(cases), advanced_cases=nadv,
             bound='shapes of 1..3 dims over sizes %s; every int in [-n-1,n], 8 slice forms, tuples shorter/longer than ndim' % sizes)


def stream_view_shape_scalar(R, view_shape):
    """every tuple view of up to 3/4 scalar items of EVERY kind (ints in and out of range, True / False, None, Ellipsis, slices)
    on a few shapes: model np_index_shape (through the translated view_shape) vs view_shape vs numpy itself"""
    items = [0, 1, -1, 3, True, False, None, Ellipsis, slice(None), slice(1, None), slice(None, None, -2)]
    shs = R.pick([(3,), (2, 3), (0, 2), (2, 1, 3)], [(3,), (1,), (2, 3), (0, 2), (3, 4), (2, 1, 3), (2, 2, 2)])
    maxlen = R.pick(4, 5)

    def e_enc(x):
        if x is None:
            return (3, [])
        if x is Ellipsis:
            return (4, [])
        if isinstance(x, bool):
            return (2, [1 if x else 0])
        if isinstance(x, int):
            return (1, [x])
        return sl_enc(x)
    cases = []
    for sh in shs:
        for ln in range(0, maxlen + 1):
            for v in itertools.product(items, repeat=ln):
                cases.append((sh, v))
        for x in items:
            cases.append((sh, x))          # the bare item, not wrapped in a tuple
    outs = R.model([enc((20, [Z(sh), ((0, []) if v is None else (1, [e_enc(x) for x in (v if isinstance(v, tuple) else (v,))]))])) for sh, v in cases])
    for (sh, v), o in zip(cases, outs):
        if v is None:
            real = tuple(sh)
        else:
            try:
                real = np.zeros(sh)[v].shape
            except IndexError:
                real = 'IndexError'
        try:
            impl = tuple(view_shape(sh, v))
        except IndexError:
            impl = 'IndexError'
        model = 'IndexError' if is_err(o) else tuple(to_zs(kids(o)[0]))
        hasbool = isinstance(v, bool) or (isinstance(v, tuple) and any(isinstance(x, bool) for x in v))
        R.count(('vsx', sh, repr(v)), nontrivial=real != 'IndexError', stream='view_shape_scalar', scalar_bool=hasbool)
        if impl != model:
            R.fail('correspondence', {'stream': 'view_shape_scalar', 'shape': sh, 'view': repr(v)}, {'model': model, 'impl': impl})
        if impl != real:
            R.fail('oracle', {'stream': 'view_shape_scalar', 'shape': sh, 'view': repr(v)}, {'view_shape': impl, 'numpy': real})
    R.stream('view_shape_scalar', cases=len(cases), exhaustive=True,
             bound='shapes %s; every tuple of <= %d items over %d scalar items (ints in / out of range, True, False, None, Ellipsis, 3 slices) and every bare item' % (shs, maxlen, len(items)))


def stream_unbroadcast(R, unbroadcast, broadcast_arrays_minimal):
    cases = []
    for sh in shapes(3, R.pick([1, 2, 3], [1, 2, 3, 4])):
        for flags in itertools.product([False, True], repeat=len(sh)):
            cases.append((sh, flags))
    lines = []
    arrs = []
    for sh, flags in cases:
        small_shape = tuple(1 if f else n for n, f in zip(sh, flags))
        small = (np.arange(int(np.prod(small_shape))) * 7 + 3).reshape(small_shape)
        a = np.broadcast_to(small, sh)
        sflags = [st == 0 for st in a.strides]     # what the implementation looks at
        arrs.append((a, small, sflags))
        lines.append(enc((6, [Z(sh), B(sflags), Z(small.ravel().tolist())])))
    outs = R.model(lines)
    for (sh, flags), (a, small, sflags), o in zip(cases, arrs, outs):
        u = unbroadcast(a)
        m_shape, m_back = to_zs(kids(o)[0]), to_zs(kids(o)[1])
        R.count(('ub', sh, flags), nontrivial=any(sflags), stream='unbroadcast')
        if list(u.shape) != m_shape or np.broadcast_to(u, a.shape).ravel().tolist() != m_back:
            R.fail('correspondence', {'stream': 'unbroadcast', 'shape': sh, 'flags': flags},
                   {'model_shape': m_shape, 'impl_shape': list(u.shape)})
        if not np.array_equal(np.broadcast_to(u, a.shape), a) or u.size > small.size:
            R.fail('oracle', {'stream': 'unbroadcast', 'shape': sh, 'flags': flags}, {'unbroadcast_shape': list(u.shape)})
        b1, b2 = broadcast_arrays_minimal(a, np.broadcast_to(small.ravel()[0], sh))
        if not np.array_equal(np.broadcast_to(b1, sh), a):
            R.fail('oracle', {'stream': 'broadcast_arrays_minimal', 'shape': sh, 'flags': flags}, {'shape': list(b1.shape)})
    R.stream('unbroadcast', cases=len(cases), exhaustive=True, bound='all stride patterns on shapes of 1..3 axes')


def stream_broadcast_minimal(R, broadcast_arrays_minimal):
    """broadcast_arrays_minimal on 2 or 3 inputs of DIFFERENT shapes (mutually broadcastable: length-1 axes, missing leading axes)
    and independent stride-0 patterns (round 6, seeded change C20-10: the first input's shape imposed on the others).
    Oracle = the statement: all results share one shape, each is a view that broadcasts back to what numpy's own
    broadcast_arrays gives for the original inputs, and an axis is kept only if some input really varies along it."""
    rng = R.subrng('bmin')
    full_shapes = [sh for sh in shapes(3, R.pick([1, 2, 3], [1, 2, 3, 4]))]
    cases = []
    for full in full_shapes:
        for _ in range(R.pick(6, 30)):
            k = rng.choice([2, 2, 3])
            ins = []
            for j in range(k):
                drop = rng.randrange(0, len(full)) if rng.random() < 0.3 else 0          # missing leading axes
                shp = [1 if rng.random() < 0.35 else n for n in full[drop:]]               # genuine length-1 axes
                bro = [rng.random() < 0.35 for _ in shp]                                    # stride-0 axes (broadcast_to)
                ins.append((tuple(shp), tuple(bro)))
            cases.append((full, tuple(ins)))
    nbad = 0
    for full, ins in cases:
        arrs = []
        for j, (shp, bro) in enumerate(ins):
            small_shape = tuple(1 if b else n for n, b in zip(shp, bro))
            small = (np.arange(int(np.prod(small_shape)), dtype=float) * (j + 2) + 10 * j + 1).reshape(small_shape)
            arrs.append(np.broadcast_to(small, shp))
        R.count(('bmin', full, ins), nontrivial=len(set(a.shape for a in arrs)) > 1, stream='broadcast_minimal')
        try:
            want = np.broadcast_arrays(*arrs)
        except ValueError:
            continue
        target = want[0].shape
        case = {'stream': 'broadcast_minimal', 'shapes': [list(a.shape) for a in arrs], 'strides0': [[st == 0 for st in a.strides] for a in arrs]}
        try:
            got = broadcast_arrays_minimal(*arrs)
        except Exception as e:
            if nbad < 5:
                nbad += 1
                R.fail('oracle', case, {'raised': '%s: %s' % (type(e).__name__, str(e)[:200])})
            continue
        problems = []
        if len(got) != len(arrs):
            problems.append('returns %d arrays for %d inputs' % (len(got), len(arrs)))
        elif len(set(tuple(g.shape) for g in got)) != 1:
            problems.append('results have different shapes %r' % [list(g.shape) for g in got])
        else:
            for g, w in zip(got, want):
                try:
                    back = np.broadcast_to(g, target)
                except ValueError:
                    problems.append('result of shape %r does not broadcast back to %r' % (list(g.shape), list(target)))
                    break
                if not np.array_equal(back, w):
                    problems.append('broadcasting the result back does not reproduce the input: %r vs %r' % (back.ravel().tolist()[:8], w.ravel().tolist()[:8]))
                    break
            else:
                # minimal: an axis of the common shape is longer than 1 only if some input really varies along it
                gs = got[0].shape
                nd = len(target)
                for ax in range(nd):
                    varies = False
                    for a in arrs:
                        k_ = ax - (nd - a.ndim)
                        if k_ >= 0 and a.shape[k_] > 1 and a.strides[k_] != 0:
                            varies = True
                    ax_g = ax - (nd - len(gs))
                    length = gs[ax_g] if ax_g >= 0 else 1
                    if length > 1 and not varies:
                        problems.append('axis %d kept with length %d although no input varies along it' % (ax, length))
                        break
        if problems and nbad < 5:
            nbad += 1
            R.fail('oracle', case, {'problems': problems})
    R.stream('broadcast_minimal', cases=len(cases), exhaustive=False,
             bound='2-3 inputs per call, common shapes of 1..3 axes, per input: missing leading axes, length-1 axes, stride-0 axes (sampled)')


def stream_categorical(R, categorical_ndarray):
    alphabets = [['a', 'b', 'c'], ['b', 'aa', 'a'], [3, 1, 2], ['x', 'xy', 'xyz'], [-1, 10, 2]]
    Lmax = R.pick(5, 6)
    cases = []
    for al in alphabets:
        for n in range(1, Lmax + 1):
            for vals in itertools.product(range(3), repeat=n):
                cases.append((al, vals))
    lines = []
    for al, vals in cases:
        rank = {v: i for i, v in enumerate(sorted(al))}
        lines.append(enc((7, [Z([rank[al[v]] for v in vals])])))
    outs = R.model(lines)
    for (al, vals), o in zip(cases, outs):
        values = [al[v] for v in vals]
        arr = categorical_ndarray(values)
        cats = arr.categories.tolist()
        codes = arr.codes
        srt = sorted(al)
        m_cats = [srt[i] for i in to_zs(kids(o)[0])]
        m_codes = to_zs(kids(o)[1])
        R.count(('cat', tuple(map(str, al)), vals), nontrivial=len(set(vals)) > 1, stream='categorical')
        if cats != m_cats or [int(c) for c in codes] != m_codes:
            R.fail('correspondence', {'stream': 'categorical', 'values': values}, {'model': [m_cats, m_codes], 'impl': [cats, codes.tolist()]})
        ok = cats == sorted(set(values)) and [cats[int(c)] for c in codes] == values
        if not ok:
            R.fail('oracle', {'stream': 'categorical', 'values': values}, {'categories': cats, 'codes': codes.tolist()})
    # derived arrays (views, reorderings, copies) made AFTER the parent's codes were read keep the parent's
    # categories and must still satisfy categories[codes] == values
    rng = R.subrng('catderived')
    dcases = []
    for al, vals in cases:
        if len(vals) < 3 or rng.random() > R.pick(0.25, 0.6):
            continue
        values = [al[v] for v in vals]
        parent = categorical_ndarray(values)
        parent.codes, parent.categories   # cached on the parent
        n = len(values)
        perm = list(range(n))
        rng.shuffle(perm)
        derived = {'reverse': parent[::-1], 'perm': parent[np.array(perm)], 'roll': np.roll(parent, 1), 'tail': parent[1:],
                   'stride': parent[::2], 'copy': parent.copy(), 'full': parent[:], 'sorted': np.sort(parent)}
        for how, d in derived.items():
            dcases.append((al, values, how, d))
    lines = []
    for al, values, how, d in dcases:
        rank = {v: i for i, v in enumerate(sorted(al))}
        dvals = [x for x in np.asarray(d).ravel().tolist()]
        lines.append(enc((8, [Z([rank[c] for c in d.categories.tolist()]), Z([rank[v] for v in dvals])])))
    outs = R.model(lines)
    for (al, values, how, d), o in zip(dcases, outs):
        dvals = np.asarray(d).ravel().tolist()
        cats = d.categories.tolist()
        codes = np.asarray(d.codes).ravel()
        R.count(('catd', tuple(map(str, al)), tuple(map(str, values)), how), nontrivial=True, stream='categorical_derived', derived=how)
        if [int(c) for c in codes] != to_zs(o):
            R.fail('correspondence', {'stream': 'categorical_derived', 'values': values, 'derived': how},
                   {'model_codes': to_zs(o), 'impl_codes': codes.tolist()})
        ok = cats == sorted(set(cats)) and all(c == c for c in codes) and [cats[int(c)] for c in codes] == dvals \
            and np.asarray(d.codes).shape == np.asarray(d).shape
        if not ok:
            R.fail('oracle', {'stream': 'categorical_derived', 'values': values, 'derived': how},
                   {'derived_values': dvals, 'categories': cats, 'codes': codes.tolist()})
    # n-d arrays in C and Fortran memory order (and transposed / strided views of them): categories[codes] == values
    # must hold element-wise whatever the memory layout
    ncases = []
    for al in alphabets[:3]:
        for (r, c) in [(2, 2), (2, 3), (3, 2)]:
            for vals in itertools.product(range(3), repeat=r * c):
                if rng.random() > R.pick(0.05, 0.25):
                    continue
                base = np.array([al[v] for v in vals]).reshape(r, c)
                for how, arr in (('C', base), ('F', np.asfortranarray(base)), ('T', base.T), ('T-of-F', np.asfortranarray(base).T),
                                 ('strided', np.array([al[v] for v in vals + vals]).reshape(r, 2 * c)[:, ::2])):
                    ncases.append((al, how, arr))
    lines = []
    for al, how, arr in ncases:
        rank = {v: i for i, v in enumerate(sorted(al))}
        lines.append(enc((7, [Z([rank[v] for v in arr.ravel().tolist()])])))
    outs = R.model(lines)
    for (al, how, arr), o in zip(ncases, outs):
        c = categorical_ndarray(arr)
        cats = c.categories.tolist()
        codes = np.asarray(c.codes)
        srt = sorted(al)
        vals2 = np.asarray(arr)
        R.count(('catnd', tuple(map(str, al)), how, tuple(vals2.ravel().tolist()), vals2.shape), nontrivial=True,
                stream='categorical_nd', layout=how)
        m_cats = [srt[i] for i in to_zs(kids(o)[0])]
        m_codes = to_zs(kids(o)[1])
        if cats != m_cats or codes.shape != vals2.shape or [int(x) for x in codes.ravel()] != m_codes:
            R.fail('correspondence', {'stream': 'categorical_nd', 'layout': how, 'values': vals2.tolist()},
                   {'model': [m_cats, m_codes], 'impl': [cats, codes.tolist()]})
        ok = cats == sorted(set(vals2.ravel().tolist())) and codes.shape == vals2.shape and \
            all(cats[int(codes[idx])] == vals2[idx] for idx in np.ndindex(vals2.shape))
        if not ok:
            R.fail('oracle', {'stream': 'categorical_nd', 'layout': how, 'values': vals2.tolist()},
                   {'categories': cats, 'codes': codes.tolist()})
    R.stream('categorical_nd', cases=len(ncases), bound='2x2, 2x3, 3x2 arrays over 3 alphabets (sampled), in C / Fortran order, transposed and strided views')
    R.stream('categorical', cases=len(cases), exhaustive=True, derived_cases=len(dcases),
             bound='all arrays of length 1..%d over 5 three-letter alphabets (str, int, mixed width); derived arrays '
                   '(reverse, permutation, roll, slice, stride, copy, sort; 1-d only: a reshaped 2-d array with preset categories raises in index_lookup, outside the stated domain) after the parent codes were read' % Lmax)


def stream_index_lookup(R, categorical_ndarray):
    """index_lookup / codes with explicit categories: a finite code points at the element's own value; values that are
    missing (None / NaN) or not among the categories get NaN"""
    from glue.utils.array import index_lookup
    rng = R.subrng('index_lookup')
    alphabets = [['a', 'b', 'c'], ['b', 'aa', 'a'], ['x', 'xy', 'xyz']]
    cases = []
    for al in alphabets:
        for n in range(1, R.pick(5, 6)):
            for vals in itertools.product(range(5), repeat=n):      # 0..2 letters, 3 = None, 4 = a value outside the items
                if rng.random() > R.pick(0.12, 0.4):
                    continue
                for items in ([0, 1, 2], [0, 2], [2, 1], [1]):
                    cases.append((al, vals, items))
    lines = []
    for al, vals, items in cases:
        # model: ranks within the alphabet; None -> 98, outsider -> 99 (never among the items)
        lines.append(enc((8, [Z(items), Z([v if v < 3 else 95 + v for v in vals])])))
    outs = R.model(lines)
    for (al, vals, items), o in zip(cases, outs):
        data = np.array([al[v] if v < 3 else (None if v == 3 else 'zz-not-an-item') for v in vals], dtype=object)
        its = [al[i] for i in items]
        want = to_zs(o)
        R.count(('il', tuple(al), vals, tuple(items)), nontrivial=any(v >= 3 for v in vals), stream='index_lookup')
        for how in ('direct', 'codes'):
            try:
                if how == 'direct':
                    got = index_lookup(data, its)
                else:
                    got = np.asarray(categorical_ndarray(data, categories=np.array(its, dtype=object)).codes)
                got = [-1 if c != c else int(c) for c in got]
            except Exception as exc:
                got = 'raises %s' % type(exc).__name__
            if got != want:
                R.fail('correspondence', {'stream': 'index_lookup', 'how': how, 'data': data.tolist(), 'items': its}, {'model': want, 'impl': got})
            ok = isinstance(got, list) and len(got) == len(data) and all(
                (c == -1 and (data[i] is None or data[i] not in its)) or (c >= 0 and c < len(its) and its[c] == data[i])
                for i, c in enumerate(got))
            if not ok:
                R.fail('oracle', {'stream': 'index_lookup', 'how': how, 'data': data.tolist(), 'items': its}, {'codes': got})
    R.stream('index_lookup', cases=len(cases), bound='arrays of length <= 4/5 over 3 letters + None + a value outside the items, 4 item lists, 3 alphabets (sampled)')


def _hist_report(R, calls, eager, fails, stream, do_shrink=True):
    """one oracle failure per failing history (the first problem; known-finding failures only when nothing else failed)"""
    fresh = [f for f in fails if f['key'] is None]
    f = (fresh or fails)[0]
    if do_shrink and len(calls) > 2:
        want_key = f['key']
        small = H.shrink(calls, eager, lambda fs: any(x['key'] == want_key for x in fs))
        if len(small) < len(calls):
            fs2 = [x for x in H.check_history(small, eager) if x['key'] == want_key]
            if fs2:
                calls, f = small, fs2[0]
    R.fail('oracle', {'stream': stream, 'history': calls, 'eager_observation': eager, 'at_call': f['at']},
           {'why': f['why'], 'detail': f['detail']}, key=f['key'])


def stream_history(R):
    """call histories: every ordered pair of distinct calls over the alphabet + random longer sequences; categorical
    object histories (construction / codes / categories / re-wrapping / slicing / views / categories setter)"""
    rng = R.subrng('history')
    vs = H.view_shape_calls()
    others = H.other_helper_calls()
    npairs = 0
    # the model's answer for every view_shape call of the alphabet the model covers (scalar items of every kind); it is
    # compared with what the call returns INSIDE every history
    vs_model = {}
    encs = [(H.call_key(c), H.enc_view_call(c)) for c in vs]
    encs = [(k, e) for k, e in encs if e is not None]
    for (k, e), o in zip(encs, R.model([enc(e) for k, e in encs])):
        vs_model[k] = ['raise', 'IndexError'] if is_err(o) else ['ok', tuple(to_zs(kids(o)[0]))]

    def corr_view_shape(hist, info, stream):
        for k, c in enumerate(hist):
            if c['fn'] != 'view_shape':
                continue
            want = vs_model.get(H.call_key(c))
            if want is None:
                continue
            got = info['outcomes'][k]
            got = ['ok', tuple(int(x) for x in info['results'][k])] if got[0] == 'ok' else got
            if got != want:
                R.fail('correspondence', {'stream': stream, 'history': hist, 'at_call': k}, {'model': want, 'impl': got})
    # --- every ordered pair of distinct view_shape calls on the same shape value (tuple, list and np.int64 spellings of
    #     (3, 4) are the same shape), and every ordered pair of distinct calls of each other helper
    groups = {}
    spell = {}
    for c in vs:
        sh = H.plain_shape(c['args'][0])
        first = [x for x in H.shape_specs() if H.plain_shape(x) == sh][0]
        if c['args'][0] == first:
            groups.setdefault(('view_shape', sh), []).append(c)
        else:
            spell.setdefault(H.call_key(c['args'][1]), []).append(c)
    for c in others:
        groups.setdefault((c['fn'],), []).append(c)
    pair_list = []
    for g, calls in sorted(groups.items(), key=lambda kv: repr(kv[0])):
        pair_list += [(g[0], a, b) for a, b in itertools.permutations(calls, 2)]
    # other spellings of the same shape (list, tuple of np.int64): against the first spelling with the same view, both orders,
    # and against the views that are equal-but-not-identical to it
    first34 = groups[('view_shape', (3, 4))]
    for vkey, cs in sorted(spell.items()):
        for c in cs:
            for a in first34:
                if a['args'][1] == c['args'][1] or rng.random() < 0.15:
                    pair_list += [('view_shape', a, c), ('view_shape', c, a)]
    for g0, a, b in pair_list:
        hist = [a, b]
        info = {}
        fails = H.check_history(hist, eager=False, info=info)
        corr_view_shape(hist, info, 'history_pairs')
        npairs += 1
        R.count(('hist2', H.call_key(a), H.call_key(b)), nontrivial=True, stream='history_pairs', helper=g0)
        if fails:
            _hist_report(R, hist, False, fails, 'history_pairs')
    # --- cross-helper pairs and longer random sequences over the whole alphabet
    allc = vs + others
    nrand = R.pick(1500, 8000)
    for i in range(nrand):
        n = rng.choice([2, 2, 3, 4, 6, 9])
        hist = [rng.choice(allc) for _ in range(n)]
        eager = rng.random() < 0.5
        info = {}
        fails = H.check_history(hist, eager, info=info)
        corr_view_shape(hist, info, 'history_random')
        R.count(('histN', tuple(H.call_key(c) for c in hist), eager), nontrivial=True, stream='history_random', hist_len=n)
        if fails:
            _hist_report(R, hist, eager, fails, 'history_random')
    # --- long sessions: one module copy that has seen more than a thousand calls (caches that only misbehave once they are
    #     full or after many different keys); reported without shrinking, cut after the failing call
    nlong = 0
    for i in range(R.pick(2, 6)):
        hist = [rng.choice(allc) for _ in range(R.pick(1200, 3000))]
        info = {}
        fails = H.check_history(hist, False, info=info)
        corr_view_shape(hist, info, 'history_long')
        nlong += len(hist)
        R.count(('histL', i, len(hist)), nontrivial=True, stream='history_long')
        if fails:
            f = fails[0]
            cut = hist[:f['at'] + 1]
            fs2 = H.check_history(cut, False)
            _hist_report(R, cut if fs2 else hist, False, fs2 or fails, 'history_long', do_shrink=False)
    # --- categorical object histories
    ncat = 0
    cat_lines, cat_impl = [], []
    for hist in H.cat_histories(2, rng, R.pick(250, 3000), nbases=R.pick(2, 3), small=R.quick()):
        # histories of up to two calls after the constructor are observed both ways; longer ones lazily, and eagerly too
        # for a seeded quarter (all of them in the thorough tier)
        for eager in ((False, True) if (len(hist) <= 2 or not R.quick() or rng.random() < 0.25) else (False,)):
            info = {}
            fails = H.check_history(hist, eager, info=info)
            ncat += 1
            mo = H.cat_model_ops(hist)
            if mo is not None and not fails:
                ops, universe, obj_of = mo
                try:
                    cat_impl.append((hist, eager, H.cat_impl_view(hist, info['results'], universe, obj_of)))
                    cat_lines.append(enc((21, ops)))
                except Exception as exc:
                    R.fail('correspondence', {'stream': 'history_categorical', 'history': hist}, {'impl': 'cannot be read: %r' % (exc,)})
            R.count(('histC', tuple(H.call_key(c) for c in hist), eager), nontrivial=len(hist) > 2, stream='history_categorical',
                    cat_hist_len=len(hist))
            if fails:
                _hist_report(R, hist, eager, fails, 'history_categorical')
    for (hist, eager, (per_op, objs)), o in zip(cat_impl, R.model(cat_lines)):
        m_ops = [('obj', kids(t)[0][0]) if tag(t) == 1 else ('vals', to_zs(kids(t)[0])) for t in kids(kids(o)[0])]
        m_objs = [tuple(to_zs(x) for x in kids(t)) for t in kids(kids(o)[1])]
        if m_ops != per_op or m_objs != [tuple(x) for x in objs]:
            R.fail('correspondence', {'stream': 'history_categorical', 'history': hist, 'eager_observation': eager},
                   {'model': [m_ops, m_objs], 'impl': [per_op, objs]})
    R.sample({'history': [{'fn': 'view_shape', 'args': [['tuple', [3, 4]], ['int', 1]]}, {'fn': 'view_shape', 'args': [['tuple', [3, 4]], ['bool', True]]}]})
    R.stream('history', model_view_shape_calls=len(vs_model), model_categorical_histories=len(cat_lines), pairs=npairs, random_sequences=nrand, long_session_calls=nlong, categorical_histories=ncat, alphabet=len(allc),
             bound='every ordered pair of distinct calls per helper (view_shape: per shape value, %d views incl. int / bool / np.bool_ / np.int64 / float / '
                   'None / Ellipsis / slices / lists / index and mask arrays / mixed tuples); random sequences of 2..9 calls over all helpers; '
                   'categorical histories: every op sequence of length <= %d after the constructor over %d ops per live array, observed lazily and eagerly, '
                   '+ random ones of length <= 7; each history on its own freshly executed copy of glue/utils/array.py'
                   % (len(H.view_alphabet((3, 4))), 2, len(H.cat_ops(H.CAT_BASES[0], [0], small=R.quick()))))


def run(R):
    from glue.utils.array import (combine_slices, find_chunk_shape, iterate_chunks, view_shape, unbroadcast,
                                  broadcast_arrays_minimal, categorical_ndarray)
    R.rule = ('exhaustive small-scope enumeration per helper (bounds in coverage.streams); a case is non-trivial when the helper does '
              'real work: non-empty combined slice, more than one chunk, a chunk shape different from the shape, a view that changes the shape, '
              'a broadcast axis, more than one category; distinct = distinct canonical input tuples')
    R.exhaustive = True
    stream_slice_indices(R)
    stream_combine(R, combine_slices)
    stream_chunks(R, find_chunk_shape, iterate_chunks)
    stream_view_shape(R, view_shape)
    stream_view_shape_scalar(R, view_shape)
    stream_unbroadcast(R, unbroadcast, broadcast_arrays_minimal)
    stream_broadcast_minimal(R, broadcast_arrays_minimal)
    stream_categorical(R, categorical_ndarray)
    stream_index_lookup(R, categorical_ndarray)
    stream_history(R)


def replay(R, case):
    from glue.utils import array as A
    st = case.get('stream', '')
    out = {'case': case}
    if st.startswith('combine_slices'):
        s1, s2, n = slice(*case['s1']), slice(*case['s2']), case['n']
        r = A.combine_slices(s1, s2, n)
        a1 = np.arange(n)[s1]
        a2 = set(np.arange(n)[s2].tolist())
        want = [i for i, v in enumerate(a1.tolist()) if v in a2]
        got = np.arange(len(a1))[r].tolist()
        out.update(impl=[r.start, r.stop, r.step], positions=got, expected=want, violates=got != want)
    elif st.startswith('iterate_chunks'):
        sh, cs, nm = tuple(case['shape']), case['chunk_shape'], case['n_max']
        chunks = list(A.iterate_chunks(sh, chunk_shape=None if cs is None else tuple(cs), n_max=nm))
        cover = np.zeros(sh, dtype=int)
        for ch in chunks:
            cover[ch] += 1
        out.update(chunks=[[(s.start, s.stop) for s in ch] for ch in chunks], coverage=cover.tolist(),
                   violates=bool(cover.size and not (cover == 1).all()))
    elif st.startswith('find_chunk_shape'):
        r = A.find_chunk_shape(tuple(case['shape']), case['n_max'])
        out.update(impl=list(r), violates=int(np.prod(r)) > case['n_max'])
    elif st.startswith('history'):
        fails = H.check_history(case['history'], bool(case.get('eager_observation')))
        known = [f for f in fails if f['key'] is not None]
        fresh = [f for f in fails if f['key'] is None]
        out.update(problems=[{'at_call': f['at'], 'why': f['why'], 'detail': f['detail'], 'known_finding': f['key']} for f in fails[:5]],
                   violates=bool(fresh) or bool(known))
    else:
        out['note'] = 'replay by re-running the stream: ./check C20 --tier quick'
    return out
