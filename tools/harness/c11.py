"""C11 — key joins propagate selections by key membership, in all four join shapes
(glue/core/joins.py, Data.join_on_key / Data.get_mask, JoinLink in the LinkManager).

A case is a small system:  datasets (tables over key columns, with storage dtypes),
a sequence of join operations (join_on_key, JoinLink add / remove), and queries
(selection, dataset, view).  Three things are run on it:
  * the real code: Data objects, the real join calls, Data.get_mask;
  * the extracted Coq model (coq/C11/Model.v) on the bytes numpy actually stores;
  * the oracle: a set-based join *by Python value* along every simple path of the
    join graph to a dataset that can evaluate the selection (written without the model:
    no dict order, no flags, no bytes).
"""
import copy
import itertools
import json

import numpy as np

PROP = 'C11'
GENERATORS = ['gen_joins']
TRUSTED = [
    'hand model coq/C11/Model.v of concatenate_arrays / get_mask_with_key_joins / Data.get_mask / Data.join_on_key / '
    'LinkManager add_link+remove_link for JoinLink: tied to the code by correspondence on the explored cases only',
    'translated from the source on every run (tools/gen/gen_joins.py -> coq/gen/Gen_joins.v, fail-closed): the skeleton of get_mask_with_key_joins '
    '(loop, _recursing protocol, try/except/finally, dispatch, which key columns through which view, the combining operations), the shape check and the '
    'two registrations of Data.join_on_key, the datasets / ids LinkManager.add_link and remove_link take from a JoinLink; the numpy kernels are opaque '
    'names there (the n-n block is compared with a text template) and are instantiated by the hand model',
    'ComponentID identity: the model receives (uid, index of cid.parent) read off the real objects, and the per-dataset layout of uids',
    'numpy is the platform: np.isin compares by value after numeric promotion; S<n> items compare ignoring trailing NUL bytes; '
    'np.promote_types / np.asarray(dtype=) casts; the model takes the stored bytes (ndarray.tobytes, little endian) as input',
    'float keys: the model identifies a finite double with its bit pattern (+0.0 and -0.0 identified); an int and a float are compared exactly '
    '(flt_eq_int decodes the double); the int -> float64 cast of the n-n branch is the model function f64_of_int (round to nearest even), '
    'tied by the mixed int/float correspondence cases',
    'the view is turned into flat element indices by numpy (np.arange(size).reshape(shape)[view]) before it reaches the model',
    'the selection is abstracted to its own evaluation per dataset (a mask, or IncompatibleAttribute); real states used: '
    'InequalitySubsetState on a hidden column, and a table-driven SubsetState subclass for several evaluators',
]
ASSUMPTIONS = [
    'key columns compared with each other are both numeric (int8..int64, float64) or both unicode strings; number-vs-string joins are outside the modelled domain',
    'float32 and unsigned integer key columns are outside the model: they are checked against the oracle only (stream other-dtypes)',
    'no NaN keys; no embedded NUL characters in string keys',
    'float-representability limit (accepted, not a finding): an int64 key compared directly with a float64 key that is its rounded image without '
    'being equal to it (2^53+1 against 2.0^53) is outside the domain - numpy itself defines np.int64(2**53+1) == np.float64(2**53) as True; '
    'the generators replace such floats (sanitize) and the model rejects such pairs (conv_ok)',
    'every dataset has at least one element; key tuples have at least one component',
    'a JoinLink equal to one already registered is not added again; only links that were added are removed',
    'the check must be run on a tree that contains the four C11 `fix:` commits (see notes/C11.md; the fourth is 8e82813 on branch wt-C11b); without them it reports the corresponding genuine defects as violations',
]

KIND_TAG = {'i': 0, 'f': 1, 'U': 2}


# ------------------------------------------------------------------ real objects
_TS = {}


def table_state_class():
    if 'cls' not in _TS:
        from glue.core.subset import SubsetState
        from glue.core.exceptions import IncompatibleAttribute

        class TableState(SubsetState):
            """a selection given by its mask on some datasets, not evaluable on the others"""

            def __init__(self, table):
                super(TableState, self).__init__()
                self.table = table

            def to_mask(self, data, view=None):
                m = self.table.get(id(data))
                if m is None:
                    raise IncompatibleAttribute('not evaluable on %s' % data.label)
                m = m.reshape(data.shape)
                return m if view is None else m[view]
        _TS['cls'] = TableState
    return _TS['cls']


def mk_view(desc, shape):
    if desc is None:
        return None
    k = desc[0]
    if k == 'slice':
        return slice(desc[1], desc[2], desc[3])
    if k == 'int':
        return int(desc[1])
    if k == 'idx':
        return np.array(desc[1], dtype=int)
    if k == 'bool':
        return np.array(desc[1], dtype=bool).reshape(shape)
    if k == 'tuple':
        return tuple(mk_view(x, shape) for x in desc[1])
    raise ValueError(desc)


class Built(object):
    pass


def col_array(c, shape):
    return np.array(c['values'], dtype=c['dtype']).reshape(shape)


def build(case):
    """create the Data objects and run the join operations of the case on the real code.

    Identity of the key columns: a column spec may carry 'cid' =
      None                  the dataset's own ComponentID (created by Data(**columns); cid.parent is the dataset)
      ['fresh', p]          a ComponentID created on its own with parent = dataset p (None: no parent, add_component adopts it)
      ['update', p]         created as an own column, then Data.update_id(old, ComponentID(label, parent = dataset p or None))
      ['share', d, j]       stored under the ComponentID of column j of dataset d (Data.add_component(values, existing_cid));
                            cid.parent stays whatever it is for (d, j) - in general NOT this dataset
    case['dc'] (optional) = the datasets that are members of the DataCollection (default: all)."""
    from glue.core import Data, DataCollection
    from glue.core.component_id import ComponentID
    from glue.core.link_helpers import JoinLink
    B = Built()
    B.case = case
    B.datas = []
    B.cids = [[None] * len(ds['cols']) for ds in case['datasets']]
    for k, ds in enumerate(case['datasets']):
        shape = tuple(ds['shape'])
        kw = {}
        for j, c in enumerate(ds['cols']):
            if c.get('cid') is None:
                kw['c%d' % j] = col_array(c, shape)
        kw['u'] = np.array(ds['u'], dtype=float).reshape(shape)
        D = Data(label='d%d' % k, **kw)
        B.datas.append(D)
        for j, c in enumerate(ds['cols']):
            if c.get('cid') is None:
                B.cids[k][j] = D.id['c%d' % j]
    for k, ds in enumerate(case['datasets']):
        D = B.datas[k]
        shape = tuple(ds['shape'])
        for j, c in enumerate(ds['cols']):
            prov = c.get('cid')
            if prov is None or prov[0] == 'share':
                continue
            par = None if prov[1] is None else B.datas[prov[1]]
            if prov[0] == 'fresh':
                cid = ComponentID('c%d' % j, parent=par)
                D.add_component(col_array(c, shape), cid)
            elif prov[0] == 'update':
                old = D.add_component(col_array(c, shape), 'c%d' % j)
                cid = ComponentID('c%d' % j, parent=par)
                D.update_id(old, cid)
            else:
                raise ValueError(prov)
            B.cids[k][j] = cid
    for k, ds in enumerate(case['datasets']):
        D = B.datas[k]
        shape = tuple(ds['shape'])
        for j, c in enumerate(ds['cols']):
            prov = c.get('cid')
            if prov is not None and prov[0] == 'share':
                src = B.cids[prov[1]][prov[2]]
                if src is None or any(x is src for x in B.cids[k]):
                    raise ValueError('ill-formed case: shared ComponentID %r' % (prov,))
                D.add_component(col_array(c, shape), src)
                B.cids[k][j] = src
    B.index = {id(d): k for k, d in enumerate(B.datas)}
    B.pos = [{id(c): j for j, c in enumerate(cs)} for cs in B.cids]
    B.dc = None
    if any(op[0] != 'join' for op in case['ops']):
        members = case.get('dc')
        B.dc = DataCollection(B.datas if members is None else [B.datas[k] for k in members])
    B.codes = []
    links = {}
    active = []

    def name_ok(D, cid):
        return sum(1 for c in D.components if c.label == cid.label) == 1
    for i, op in enumerate(case['ops']):
        try:
            if op[0] == 'join':
                _, a, b, ca, cb, style = op
                A, Bd = B.datas[a], B.datas[b]

                def arg(k, D, cs):
                    ids = [B.cids[k][c] for c in cs]
                    if style != 1 and all(name_ok(D, c) for c in ids):
                        ids = [c.label for c in ids]
                    return ids[0] if (len(ids) == 1 and style != 2) else tuple(ids)
                A.join_on_key(Bd, arg(a, A, ca), arg(b, Bd, cb))
            elif op[0] == 'link':
                a, b, ca, cb = op[1:5]
                how = op[5] if len(op) > 5 else 'add'
                A, Bd = B.datas[a], B.datas[b]
                link = JoinLink(cids1=[B.cids[a][ca]], cids2=[B.cids[b][cb]], data1=A, data2=Bd)
                links[i] = link
                if how == 'add':
                    B.dc.add_link(link)
                elif how == 'list':
                    B.dc.add_link([link])
                elif how == 'set':
                    B.dc.set_links([links[x] for x in active] + [link])
                else:
                    raise ValueError(op)
                active.append(i)
            elif op[0] == 'relink':
                B.dc.add_link(links[op[1]])
                active.append(op[1])
            elif op[0] == 'unlink':
                if op[1] in active:
                    active.remove(op[1])
                B.dc.remove_link(links[op[1]])
            else:
                raise ValueError(op)
            B.codes.append(0)
        except KeyError:
            B.codes.append(2)
        except Exception as ex:
            msg = str(ex.args[0]) if ex.args else ''
            B.codes.append(1 if msg.startswith('Either the number of components') else ('exc', type(ex).__name__, msg[:80]))
    # what the datasets now hold: Data._key_joins, in dict order; ComponentIDs are reported as the position of the column they
    # name in the dataset that holds the entry (own cids) / in the dataset the entry points to (other cids); -1 = not a column there
    B.joins = []
    for k, d in enumerate(B.datas):
        js = []
        for other, (c1, c2) in d._key_joins.items():
            o = B.index.get(id(other), -1)
            js.append((o, [B.pos[k].get(id(c), -1) for c in c1], [B.pos[o].get(id(c), -1) if o >= 0 else -1 for c in c2]))
        B.joins.append(js)
    # stored key columns, as numpy holds them
    B.arrays = []
    for k, ds in enumerate(case['datasets']):
        D = B.datas[k]
        B.arrays.append([np.asarray(D.get_data(B.cids[k][j])).ravel() for j in range(len(ds['cols']))])
    B.sizes = [int(np.prod(ds['shape'])) for ds in case['datasets']]
    return B


def selection(B, sel):
    """-> (subset state on the real objects, {dataset index: flat bool list})"""
    if sel[0] == 'ineq':
        e, t = sel[1], sel[2]
        D = B.datas[e]
        u = np.asarray(B.case['datasets'][e]['u'], dtype=float)
        return D.id['u'] > t, {e: [bool(x) for x in (u > t)]}
    masks = {int(k): [bool(x) for x in v] for k, v in sel[1].items()}
    st = table_state_class()({id(B.datas[k]): np.array(v, dtype=bool) for k, v in masks.items()})
    return st, masks


def ask(B, state, d, view):
    from glue.core.exceptions import IncompatibleAttribute
    try:
        m = B.datas[d].get_mask(state, view=view)
        res = ('mask', [bool(x) for x in np.asarray(m).ravel()])
    except IncompatibleAttribute:
        res = ('inc',)
    except RecursionError:
        res = ('recursion',)
    except Exception as ex:      # noqa
        res = ('exc', type(ex).__name__, str(ex)[:80])
    left = [k for k, x in enumerate(B.datas) if getattr(x, '_recursing', False)]
    for x in B.datas:
        if getattr(x, '_recursing', False):
            x._recursing = False
    return res, left


def run_impl(B):
    out = []
    for q in B.case['queries']:
        state, _ = selection(B, q['sel'])
        view = mk_view(q['view'], tuple(B.case['datasets'][q['d']]['shape']))
        out.append(ask(B, state, q['d'], view))
    return out


# ------------------------------------------------------------------ model side
def table_txt(arrs, n):
    cols = []
    for arr in arrs:
        dt = arr.dtype
        assert dt.byteorder in '=<|', dt
        kt = KIND_TAG[dt.kind]
        w = dt.itemsize
        raw = np.ascontiguousarray(arr).tobytes()
        cols.append(['(%d %d %s)' % (kt, w, ' '.join(map(str, raw[i * w:(i + 1) * w]))) for i in range(n)])
    rows = ['(0 %s)' % ' '.join(c[i] for c in cols) for i in range(n)]
    return '(0 %s)' % ' '.join(rows) if rows else '(0)'


def zl(tagv, xs):
    xs = list(xs)
    return '(%d %s)' % (tagv, ' '.join(str(int(x)) for x in xs)) if xs else '(%d)' % tagv


def view_indices(desc, shape):
    size = int(np.prod(shape))
    if desc is None:
        return None
    return [int(x) for x in np.asarray(np.arange(size).reshape(shape)[mk_view(desc, shape)]).ravel()]


def model_line(B):
    case = B.case
    n = len(case['datasets'])
    ds = ' '.join(table_txt(B.arrays[k], B.sizes[k]) for k in range(n))
    ops = []
    # ComponentID identities as the real objects have them: uid = which object, parent = index of cid.parent
    uid = {}
    for cs in B.cids:
        for c in cs:
            uid.setdefault(id(c), len(uid))

    def cid_txt(k, j):
        c = B.cids[k][j]
        return '(%d %d)' % (uid[id(c)], B.index.get(id(c.parent), n))
    lay = ' '.join(zl(0, [uid[id(c)] for c in cs]) for cs in B.cids)
    for grp in expand_ops(case):
        for g in grp:
            if g[0] == 'join':
                ops.append('(1 %d %d %s %s)' % (g[1], g[2], zl(0, g[3]), zl(0, g[4])))
            elif g[0] == 'link':
                ops.append('(3 %d %d %s %s)' % (g[1], g[2], cid_txt(g[1], g[3]), cid_txt(g[2], g[4])))
            else:
                ops.append('(4 %d %d %s %s)' % (g[1], g[2], cid_txt(g[1], g[3]), cid_txt(g[2], g[4])))
    qs = []
    for q in case['queries']:
        _, masks = selection_masks(case, q['sel'])
        idx = view_indices(q['view'], tuple(case['datasets'][q['d']]['shape']))
        v = '(0)' if idx is None else zl(1, idx)
        ow = ' '.join(zl(1, masks[k]) if k in masks else '(0)' for k in range(n))
        qs.append('(0 %d %s (0 %s))' % (q['d'], v, ow))
    return '(4 (0 %s) (0 %s) %s %s)' % (ds, lay, '(0 %s)' % ' '.join(ops) if ops else '(0)', '(0 %s)' % ' '.join(qs) if qs else '(0)')


def expand_ops(case):
    """the case's operations as the calls they amount to on the two datasets named by each operation:
    one group per operation of ('join', a, b, columns a, columns b) / ('link', a, b, column a, column b) / ('unlink', a, b, column a, column b).
    set_links([active links..., new link]) = clear_links() (which leaves Data._key_joins alone) + add_link of each, in order."""
    out = []
    active = []
    ops = case['ops']
    for i, op in enumerate(ops):
        if op[0] == 'join':
            out.append([('join', op[1], op[2], list(op[3]), list(op[4]))])
        elif op[0] == 'link':
            how = op[5] if len(op) > 5 else 'add'
            grp = []
            if how == 'set':
                grp = [('link', ops[x][1], ops[x][2], ops[x][3], ops[x][4]) for x in active]
            grp.append(('link', op[1], op[2], op[3], op[4]))
            active.append(i)
            out.append(grp)
        elif op[0] == 'relink':
            o = ops[op[1]]
            active.append(op[1])
            out.append([('link', o[1], o[2], o[3], o[4])])
        else:
            o = ops[op[1]]
            if op[1] in active:
                active.remove(op[1])
            out.append([('unlink', o[1], o[2], o[3], o[4])])
    return out


def selection_masks(case, sel):
    if sel[0] == 'ineq':
        e, t = sel[1], sel[2]
        return None, {e: [bool(x > t) for x in case['datasets'][e]['u']]}
    return None, {int(k): [bool(x) for x in v] for k, v in sel[1].items()}


def fold_codes(codes, groups):
    """one result per operation of the case: the first failure among the calls it amounts to"""
    if not groups:
        return codes
    out, k = [], 0
    for g in groups:
        part = codes[k:k + g]
        k += g
        out.append(next((c for c in part if c != 0), 0))
    return out


def parse_model(t):
    """-> (codes, joins, outcomes) in the same canonical form as the implementation side"""
    if t[0] == -1:
        return ('err', t[1][0][0] if t[1] else None), None, None
    codes = [k[0] for k in t[1][0][1]]
    joins = []
    for d in t[1][1][1]:
        joins.append([(j[0], [x[0] for x in j[1][0][1]], [x[0] for x in j[1][1][1]]) for j in d[1]])
    outs = []
    for o in t[1][2][1]:
        if o[0] == 1:
            outs.append(('mask', [bool(k[0]) for k in o[1]]))
        elif o[0] == 2:
            outs.append(('inc',))
        elif o[0] == 3:
            outs.append(('fuel',))
        else:
            outs.append(('bad', o[1][0][0] if o[1] else None))
    return codes, joins, outs


# ------------------------------------------------------------------ oracle: set-based join by Python value
def oracle_graph(case):
    """the join graph the operations ask for, between the datasets the operations NAME (join_on_key's self / other, a JoinLink's
    data1 / data2) - whatever ComponentID objects the key columns are stored under; both directions; a later join of the same
    pair replaces the earlier one; a link added again (relink, or listed again in set_links) is joined again; a removed link no
    longer joins.  Returns (graph, specified): specified is False when a link is removed after its join was replaced by another
    one (behaviour not fixed by the property)."""
    n = len(case['datasets'])
    G = [dict() for _ in range(n)]
    owner = {}
    specified = True
    ops = case['ops']
    active = []

    def establish(a, b, ca, cb, who):
        if len(ca) > 1 and len(cb) > 1 and len(ca) != len(cb):
            return
        G[a][b] = (ca, cb)
        G[b][a] = (cb, ca)
        owner[frozenset((a, b))] = who
    for i, op in enumerate(ops):
        if op[0] == 'join':
            establish(op[1], op[2], list(op[3]), list(op[4]), i)
        elif op[0] == 'link':
            if len(op) > 5 and op[5] == 'set':
                for x in active:
                    establish(ops[x][1], ops[x][2], [ops[x][3]], [ops[x][4]], x)
            establish(op[1], op[2], [op[3]], [op[4]], i)
            active.append(i)
        elif op[0] == 'relink':
            o = ops[op[1]]
            establish(o[1], o[2], [o[3]], [o[4]], op[1])
            active.append(op[1])
        else:
            o = ops[op[1]]
            a, b = o[1], o[2]
            if op[1] in active:
                active.remove(op[1])
            if owner.get(frozenset((a, b))) != op[1]:
                specified = False
                continue
            G[a].pop(b, None)
            G[b].pop(a, None)
            owner.pop(frozenset((a, b)), None)
    return G, specified


def join_by_value(left, right, mr, c1, c2):
    sel = [r for r, m in zip(right, mr) if m]
    if len(c1) == 1 and len(c2) == 1:
        s = set(r[c2[0]] for r in sel)
        return tuple(l[c1[0]] in s for l in left)
    if len(c1) == len(c2):
        s = set(tuple(r[c] for c in c2) for r in sel)
        return tuple(tuple(l[c] for c in c1) in s for l in left)
    if len(c1) == 1:
        s = set(r[c] for r in sel for c in c2)
        return tuple(l[c1[0]] in s for l in left)
    s = set(r[c2[0]] for r in sel)
    return tuple(any(l[c] in s for c in c1) for l in left)


def oracle_answers(G, rows, masks, x, visited=frozenset()):
    """every mask dataset x may legitimately answer: propagation along any path of joins to an evaluator that does not
    come back to a dataset it is still waiting for (a dataset joined with itself may pass through that join once)"""
    if x in masks:
        return {tuple(masks[x])}
    res = set()
    for o, (c1, c2) in G[x].items():
        if o in visited:
            continue
        for mr in oracle_answers(G, rows, masks, o, visited | {x}):
            res.add(join_by_value(rows[x], rows[o], mr, c1, c2))
    return res


def python_rows(B):
    rows = []
    for k in range(len(B.datas)):
        cols = [a.tolist() for a in B.arrays[k]]
        rows.append([tuple(c[i] for c in cols) for i in range(B.sizes[k])])
    return rows


def oracle_check(B, q, impl):
    """-> None when the property holds for this query, else a description"""
    G, specified = oracle_graph(B.case)
    if not specified:
        return None
    rows = python_rows(B)
    _, masks = selection_masks(B.case, q['sel'])
    shape = tuple(B.case['datasets'][q['d']]['shape'])
    answers = oracle_answers(G, rows, masks, q['d'])
    view = mk_view(q['view'], shape)
    if not answers:
        if impl != ('inc',):
            return {'expected': 'IncompatibleAttribute (no dataset reachable through joins can evaluate the selection)', 'impl': impl}
        return None
    exp = set()
    for a in answers:
        m = np.array(a, dtype=bool).reshape(shape)
        exp.add(tuple(bool(x) for x in np.asarray(m if view is None else m[view]).ravel()))
    if impl[0] != 'mask' or tuple(impl[1]) not in exp:
        return {'expected_one_of': sorted(list(e) for e in exp), 'impl': impl}
    return None


def classify(B, q, impl):
    """label of a failing case, used to group replays: only exact, recognisable classes get a key"""
    case = B.case
    if impl == ('recursion',) and any(op[0] == 'join' and op[1] == op[2] for op in case['ops']):
        return 'self-join-recursion'
    G, _ = oracle_graph(case)
    for a in range(len(G)):
        for b, (ca, cb) in G[a].items():
            if len(ca) == len(cb) and len(ca) > 1:
                for x, y in zip(ca, cb):
                    if B.arrays[a][x].dtype != B.arrays[b][y].dtype:
                        return 'nn-join-differing-dtype'
    return None


# ------------------------------------------------------------------ one case through the three
def case_sig(case):
    return json.dumps([case['datasets'], case['ops']], sort_keys=True)


def check_case(R, case, stream, model_out=None, count=True):
    """run implementation (+ model output when given) + oracle on every query; returns list of failures (kind, query index, detail)"""
    B = build(case)
    impl = run_impl(B)
    fails = []
    mcodes = mjoins = mouts = None
    if model_out is not None:
        mcodes, mjoins, mouts = parse_model(model_out)
        if mjoins is None:
            fails.append(('correspondence', None, {'model': mcodes, 'impl': 'case accepted by the implementation'}))
        else:
            mcodes = fold_codes(mcodes, [len(g) for g in expand_ops(case)])
            if mcodes != B.codes:
                fails.append(('correspondence', None, {'what': 'operation results', 'model': mcodes, 'impl': B.codes}))
            if [[(o, list(a), list(b)) for o, a, b in d] for d in mjoins] != [[(o, list(a), list(b)) for o, a, b in d] for d in B.joins]:
                fails.append(('correspondence', None, {'what': 'Data._key_joins', 'model': mjoins, 'impl': B.joins}))
    sig = case_sig(case) if count else None
    G, _ = oracle_graph(case)
    for i, q in enumerate(case['queries']):
        res, left = impl[i]
        if left:
            fails.append(('correspondence', i, {'what': '_recursing left set after get_mask', 'datasets': left}))
        if mouts is not None and mouts[i] != res:
            fails.append(('correspondence', i, {'model': mouts[i], 'impl': res}))
        o = oracle_check(B, q, res)
        if o is not None:
            fails.append(('oracle', i, o))
        if count:
            _, masks = selection_masks(case, q['sel'])
            via_join = q['d'] not in masks
            nontriv = via_join and ((res[0] == 'mask' and any(res[1])) or (res[0] == 'inc' and len(G[q['d']]) > 0))
            shapes = sorted(set(shape_name(ca, cb) for d in G for (ca, cb) in d.values()))
            R.count((sig, json.dumps(q, sort_keys=True)), nontrivial=nontriv, stream=stream,
                    result=('own' if not via_join else res[0] if res[0] != 'mask' else ('mask-some' if any(res[1]) else 'mask-empty')),
                    n_datasets=len(case['datasets']), view=('none' if q['view'] is None else q['view'][0]),
                    join_shapes='+'.join(shapes) or 'none',
                    evaluators=len(masks))
    return B, impl, fails


def shape_name(ca, cb):
    if len(ca) == 1 and len(cb) == 1:
        return '1-1'
    if len(ca) == len(cb):
        return 'n-n'
    return '1-n' if len(ca) == 1 else 'n-1'


# ------------------------------------------------------------------ shrinking
def shrink_candidates(case):
    c = case
    # fewer queries / ops
    REF = ('unlink', 'relink')
    for i in range(len(c['ops']) - 1, -1, -1):
        if any(op[0] in REF and op[1] == i for op in c['ops']):
            continue
        d = copy.deepcopy(c)
        del d['ops'][i]
        for op in d['ops']:
            if op[0] in REF and op[1] > i:
                op[1] -= 1
        yield d
    # plainer ways of making the same join: add_link instead of list / set_links, join_on_key instead of a JoinLink that is
    # never removed, every dataset in the collection, key columns under the dataset's own ComponentIDs
    for i, op in enumerate(c['ops']):
        if op[0] == 'link' and len(op) > 5 and op[5] != 'add':
            d = copy.deepcopy(c)
            d['ops'][i][5] = 'add'
            yield d
        if op[0] == 'link' and not any(o[0] in REF and o[1] == i for o in c['ops']):
            d = copy.deepcopy(c)
            d['ops'][i] = ['join', op[1], op[2], [op[3]], [op[4]], 1]
            yield d
    if c.get('dc') is not None:
        d = copy.deepcopy(c)
        del d['dc']
        yield d

    def refers(col, k):
        prov = col.get('cid')
        return prov is not None and ((prov[0] == 'share' and prov[1] == k) or (prov[0] != 'share' and prov[1] == k))
    for k, ds in enumerate(c['datasets']):
        for j, col in enumerate(ds['cols']):
            if col.get('cid') is not None:
                d = copy.deepcopy(c)
                del d['datasets'][k]['cols'][j]['cid']
                # columns stored under this column's ComponentID keep it only if it still is a source
                yield d
                if col['cid'][0] != 'share' and col['cid'][1] not in (None, k):
                    d = copy.deepcopy(c)
                    d['datasets'][k]['cols'][j]['cid'][1] = None
                    yield d
    # drop an unused dataset (re-indexing the others)
    n = len(c['datasets'])
    for k in range(n - 1, -1, -1):
        if n <= 1:
            break
        used = any(k in (op[1], op[2]) for op in c['ops'] if op[0] not in REF)
        used = used or any(q['d'] == k or (q['sel'][0] == 'ineq' and q['sel'][1] == k) or
                           (q['sel'][0] == 'table' and str(k) in q['sel'][1]) for q in c['queries'])
        used = used or any(refers(col, k) for kk, ds in enumerate(c['datasets']) if kk != k for col in ds['cols'])
        if not used:
            d = copy.deepcopy(c)
            del d['datasets'][k]
            ren = lambda x: x - 1 if x > k else x      # noqa
            for op in d['ops']:
                if op[0] not in REF:
                    op[1], op[2] = ren(op[1]), ren(op[2])
            for ds in d['datasets']:
                for col in ds['cols']:
                    if col.get('cid') is not None and col['cid'][1] is not None:
                        col['cid'][1] = ren(col['cid'][1])
            if d.get('dc') is not None:
                d['dc'] = [ren(x) for x in d['dc'] if x != k]
            for q in d['queries']:
                q['d'] = ren(q['d'])
                if q['sel'][0] == 'ineq':
                    q['sel'][1] = ren(q['sel'][1])
                else:
                    q['sel'][1] = {str(ren(int(e))): v for e, v in q['sel'][1].items()}
            yield d
    # view -> None
    for i, q in enumerate(c['queries']):
        if q['view'] is not None:
            d = copy.deepcopy(c)
            d['queries'][i]['view'] = None
            yield d
    # ineq -> table selection (so that rows can be dropped), fewer evaluators
    for i, q in enumerate(c['queries']):
        if q['sel'][0] == 'ineq':
            d = copy.deepcopy(c)
            _, masks = selection_masks(c, q['sel'])
            d['queries'][i]['sel'] = ['table', {str(k): [int(x) for x in v] for k, v in masks.items()}]
            yield d
        elif len(q['sel'][1]) > 1:
            for k in list(q['sel'][1]):
                d = copy.deepcopy(c)
                del d['queries'][i]['sel'][1][k]
                yield d
    # views -> explicit flat indices (flattening the dataset), then shorter index lists
    for k, ds in enumerate(c['datasets']):
        multi = len(ds['shape']) > 1
        other = any(q['d'] == k and q['view'] is not None and (multi or q['view'][0] != 'idx') for q in c['queries'])
        if multi or other:
            d = copy.deepcopy(c)
            for q in d['queries']:
                if q['d'] == k and q['view'] is not None:
                    q['view'] = ['idx', view_indices(q['view'], tuple(ds['shape']))]
            d['datasets'][k]['shape'] = [int(np.prod(ds['shape']))]
            yield d
    for i, q in enumerate(c['queries']):
        if q['view'] is not None and q['view'][0] == 'idx' and len(c['datasets'][q['d']]['shape']) == 1:
            for j in range(len(q['view'][1])):
                d = copy.deepcopy(c)
                del d['queries'][i]['view'][1][j]
                yield d
    # drop rows (when every view is None or a flat index list and the selections are tables)
    flat_ok = all(q['sel'][0] == 'table' and (q['view'] is None or (q['view'][0] == 'idx' and len(c['datasets'][q['d']]['shape']) == 1))
                  for q in c['queries'])
    def drop_rows(k, rs):
        rs = sorted(rs, reverse=True)
        d = copy.deepcopy(c)
        dd = d['datasets'][k]
        for r in rs:
            for col in dd['cols']:
                del col['values'][r]
            del dd['u'][r]
            for q in d['queries']:
                if str(k) in q['sel'][1]:
                    del q['sel'][1][str(k)][r]
                if q['d'] == k and q['view'] is not None:
                    q['view'] = ['idx', [x - (1 if x > r else 0) for x in q['view'][1] if x != r]]
        dd['shape'] = [len(dd['u'])]
        return d
    if flat_ok:
        for k, ds in enumerate(c['datasets']):
            n_k = ds['shape'][0] if len(ds['shape']) == 1 else 0
            size = n_k // 2
            while size >= 2:                       # chunks first (large tables), single rows below
                for start in range(0, n_k, size):
                    if min(start + size, n_k) - start < n_k:
                        yield drop_rows(k, range(start, min(start + size, n_k)))
                size //= 2
    if flat_ok:
        for k, ds in enumerate(c['datasets']):
            if len(ds['shape']) == 1 and ds['shape'][0] > 1:
                for r in range(ds['shape'][0] - 1, -1, -1):
                    d = copy.deepcopy(c)
                    dd = d['datasets'][k]
                    dd['shape'] = [ds['shape'][0] - 1]
                    for col in dd['cols']:
                        del col['values'][r]
                    del dd['u'][r]
                    for q in d['queries']:
                        if str(k) in q['sel'][1]:
                            del q['sel'][1][str(k)][r]
                        if q['d'] == k and q['view'] is not None:
                            q['view'] = ['idx', [x - (1 if x > r else 0) for x in q['view'][1] if x != r]]
                    yield d
    # fewer key columns in a multi-column join
    for i, op in enumerate(c['ops']):
        if op[0] == 'join':
            for side in (3, 4):
                if len(op[side]) > 1:
                    for j in range(len(op[side])):
                        d = copy.deepcopy(c)
                        del d['ops'][i][side][j]
                        yield d


SHRINK_CLOCK = {'spent': 0.0, 'limit': 150.0}


def shrink(case, pred, budget=400):
    """greedy: keep any smaller case on which pred still holds (bounded by a number of trials and by wall time)"""
    import time
    cur = case
    progress = True
    t0 = time.time()
    while progress and budget > 0:
        progress = False
        for cand in shrink_candidates(cur):
            budget -= 1
            if budget <= 0 or SHRINK_CLOCK['spent'] + time.time() - t0 > SHRINK_CLOCK['limit'] or time.time() - t0 > 30:
                budget = 0
                break
            try:
                ok = pred(cand)
            except Exception:
                ok = False
            if ok:
                cur = cand
                progress = True
                break
    SHRINK_CLOCK['spent'] += time.time() - t0
    return cur


def single_query(case, i):
    d = copy.deepcopy(case)
    d['queries'] = [d['queries'][i]]
    return d


def report(R, case, stream, fails):
    """turn the failures of one case into R.fail entries (shrunk)"""
    seen = set()
    for kind, qi, detail in fails:
        if (kind, qi) in seen:
            continue
        seen.add((kind, qi))
        if len(R.failures) >= 40:
            return
        if kind == 'oracle':
            c1 = single_query(case, qi)

            def pred(c):
                Bc = build(c)
                r = run_impl(Bc)
                return any(oracle_check(Bc, q, r[i][0]) is not None for i, q in enumerate(c['queries']))
            small = shrink(c1, pred, budget=1500)
            Bs = build(small)
            rs = run_impl(Bs)
            det = oracle_check(Bs, small['queries'][0], rs[0][0])
            R.fail('oracle', {'stream': stream, 'case': small}, det, key=classify(Bs, small['queries'][0], rs[0][0]))
        else:
            c1 = single_query(case, qi) if qi is not None else case
            if R.model_available:
                def pred(c):
                    Bc = build(c)
                    out = R.model([model_line(Bc)])[0]
                    _, _, f = check_case(R, c, stream, model_out=out, count=False)
                    return any(k == 'correspondence' for k, _, _ in f)
                try:
                    c1 = shrink(c1, pred, budget=150)
                except Exception:
                    pass
            R.fail('correspondence', {'stream': stream, 'case': c1}, detail)


def run_cases(R, cases, stream):
    """cases: list of case dicts; batches the model"""
    builts = [build(c) for c in cases]
    lines = [model_line(B) for B in builts]
    outs = R.model(lines)
    nq = 0
    for c, o in zip(cases, outs):
        _, _, fails = check_case(R, c, stream, model_out=o)
        nq += len(c['queries'])
        if fails:
            report(R, c, stream, fails)
    return nq


# ------------------------------------------------------------------ stream 1: exhaustive pairs of key tuples
NUM_A = [0, 1, -1, 256]
FLT_A = [0.0, -0.0, 1.0, -1.0, 0.5, 256.0]
STR_A = ['', 'a', 'b', 'ab', 'abc']
NUM_T = [('i2', NUM_A), ('i4', NUM_A), ('i8', NUM_A), ('f8', FLT_A)]
STR_T = [('U1', STR_A), ('U2', STR_A), ('U3', STR_A)]


def pair_case(left_types, right_types, c1, c2):
    """left / right tables hold every tuple over the alphabets of their columns; one-hot selections both ways"""
    def table(types):
        tuples = list(itertools.product(*[a for _, a in types]))
        cols = [{'dtype': t, 'values': [tp[j] for tp in tuples]} for j, (t, _) in enumerate(types)]
        return {'shape': [len(tuples)], 'cols': cols, 'u': list(range(len(tuples)))}
    L, Rt = table(left_types), table(right_types)
    qs = []
    nl, nr = L['shape'][0], Rt['shape'][0]
    for j in range(nr):
        qs.append({'d': 0, 'view': None, 'sel': ['table', {'1': [int(i == j) for i in range(nr)]}]})
    for j in range(nl):
        qs.append({'d': 1, 'view': None, 'sel': ['table', {'0': [int(i == j) for i in range(nl)]}]})
    qs.append({'d': 0, 'view': None, 'sel': ['table', {'1': [0] * nr}]})
    qs.append({'d': 0, 'view': None, 'sel': ['table', {'1': [1] * nr}]})
    return {'datasets': [L, Rt], 'ops': [['join', 0, 1, list(c1), list(c2), 0]], 'queries': qs}


def stream_pairs(R):
    cases = []
    fams = [NUM_T, STR_T]
    # 1-1
    for fam in fams:
        for tl in fam:
            for tr in fam:
                cases.append(pair_case([tl], [tr], [0], [0]))
    # 1-n (and, asked the other way round, n-1)
    for fam in fams:
        for tl in fam:
            for tr1 in fam:
                for tr2 in fam:
                    cases.append(pair_case([tl], [tr1, tr2], [0], [0, 1]))
    # n-n on two columns; families may differ between the two columns
    nn = []
    for fam1 in fams:
        for fam2 in fams:
            for tl1 in fam1:
                for tr1 in fam1:
                    for tl2 in fam2:
                        for tr2 in fam2:
                            nn.append((tl1, tr1, tl2, tr2))
    for tl1, tr1, tl2, tr2 in nn:
        cases.append(pair_case([tl1, tl2], [tr1, tr2], [0, 1], [0, 1]))
    nq = 0
    step = 60
    for i in range(0, len(cases), step):
        nq += run_cases(R, cases[i:i + step], 'pairs')
    R.sample({'stream': 'pairs', 'case': {'left dtypes': ['i4', 'U2'], 'right dtypes': ['i8', 'U3'], 'join': 'n-n on (c0,c1)',
                                          'tables': 'every tuple over %r x %r' % (NUM_A, STR_A), 'selections': 'each single right row, each single left row, none, all'}})
    R.stream('pairs', systems=len(cases), queries=nq, exhaustive=True,
             bound='two datasets holding every key tuple over the alphabets ints %r / floats %r / strings %r, dtypes i2 i4 i8 f8 / U1 U2 U3 '
                   'in every combination per compared column pair, shapes 1-1, 1-n, n-1 (2 columns), n-n (2 columns), every one-row selection in both directions' % (NUM_A, FLT_A, STR_A))


# ------------------------------------------------------------------ stream 2: random systems
NUM_DT = ['i1', 'i2', 'i4', 'i8', 'f8']
STR_DT = ['U1', 'U2', 'U3', 'U4', 'U5']
INT_VALS = [-1, 0, 1, 2, 3, 5]
UINT_VALS = [0, 1, 2, 3, 5]
OTHER_DT = ['f4', 'u1', 'u2', 'u4', 'u8', 'i2', 'i8', 'f8']
FLT_VALS = [-1.0, 0.0, -0.0, 1.0, 2.0, 3.0, 0.5, 2.5, 5.0]
STR_VALS = ['', 'a', 'b', 'ab', 'ba', 'abc', 'abcd', 'abcde', 'bbbbb', 'c']
SHAPES = [[1], [2], [3], [4], [5], [6], [2, 2], [2, 3], [3, 2], [1, 3]]


BIG_INTS = [2 ** 53, 2 ** 53 + 1, 2 ** 53 + 2, 2 ** 60 + 1, 2 ** 60 + 2, 2 ** 60 + 3, -(2 ** 53) - 1]


def sanitize(datasets, direct):
    """the float-representability limit: an int64 column compared directly with a float64 column is compared by numpy in
    float64 (np.int64(2**53+1) == np.float64(2**53) is True).  Such pairs are kept out of the generated cases: a float that is
    the rounded image of an integer of the partner column without being equal to it is replaced by 0.5."""
    for (a, x), (b, y) in direct:
        for (d1, c1), (d2, c2) in (((a, x), (b, y)), ((b, y), (a, x))):
            ci, cf = datasets[d1]['cols'][c1], datasets[d2]['cols'][c2]
            if ci['dtype'][0] == 'i' and cf['dtype'][0] == 'f':
                blurred = set(float(v) for v in ci['values'] if abs(v) > 2 ** 53) - set(float(v) for v in ci['values'] if float(v) == v and False)
                ints = set(ci['values'])
                bad = set(f for f in cf['values'] if f in blurred and any(float(v) == f and v != f for v in ints))
                if bad:
                    cf['values'] = [0.5 if f in bad else f for f in cf['values']]


def rand_view(rng, shape):
    size = int(np.prod(shape))
    if len(shape) == 1:
        n = shape[0]
        k = rng.randrange(6)
        if k == 0:
            return ['slice', rng.choice([None, 0, 1, -2]), rng.choice([None, n, n - 1, -1]), rng.choice([None, 1, 2, 3])]
        if k == 1:
            return ['slice', None, None, -1]
        if k == 2:
            return ['idx', [rng.randrange(n) for _ in range(rng.randrange(0, n + 2))]]
        if k == 3:
            return ['bool', [int(rng.random() < 0.5) for _ in range(n)]]
        if k == 4:
            return ['int', rng.randrange(-n, n)]
        return ['tuple', [['slice', rng.choice([None, 1]), None, None]]]
    k = rng.randrange(5)
    if k == 0:
        return ['tuple', [['slice', None, None, rng.choice([None, 2])], ['slice', rng.choice([None, 1]), None, None]]]
    if k == 1:
        return ['tuple', [['int', rng.randrange(shape[0])], ['slice', None, None, None]]]
    if k == 2:
        return ['bool', [int(rng.random() < 0.5) for _ in range(size)]]
    if k == 3:
        m = rng.randrange(1, 4)
        return ['tuple', [['idx', [rng.randrange(shape[0]) for _ in range(m)]], ['idx', [rng.randrange(shape[1]) for _ in range(m)]]]]
    return ['slice', rng.choice([None, 1]), None, None]


def rand_case(rng, force=None, num_dt=None):
    allow_big = num_dt is None
    num_dt = num_dt or NUM_DT
    n = rng.choice([1, 2, 2, 3, 3, 3, 4, 4, 4])
    ncols = [rng.choice([1, 2, 2, 3, 3]) for _ in range(n)]
    # topology
    topo = force or rng.choice(['chain', 'cycle', 'star', 'random', 'random', 'complete'])
    pairs = []
    order = list(range(n))
    rng.shuffle(order)
    if topo == 'chain':
        pairs = [(order[i], order[i + 1]) for i in range(n - 1)]
    elif topo == 'cycle':
        pairs = [(order[i], order[(i + 1) % n]) for i in range(n if n > 2 else n - 1)]
    elif topo == 'star':
        pairs = [(order[0], order[i]) for i in range(1, n)]
    elif topo == 'complete':
        pairs = [(a, b) for a in range(n) for b in range(a + 1, n)]
    else:
        pairs = [(rng.randrange(n), rng.randrange(n)) for _ in range(rng.randrange(0, 6))]
    rng.shuffle(pairs)
    pairs = [(a, b) if rng.random() < 0.5 else (b, a) for a, b in pairs]
    if rng.random() < 0.12:
        a = rng.randrange(n)
        pairs.insert(rng.randrange(len(pairs) + 1), (a, a))           # a dataset joined with itself
    if pairs and rng.random() < 0.15:
        pairs.append(rng.choice(pairs))                               # the same pair joined again (replaces)
    ops = []
    link_ops = []
    for a, b in pairs:
        sh = rng.choice(['11', '11', '11', 'nn', 'nn', '1n', 'n1', 'bad'])
        def pick(d, k):
            cols = list(range(ncols[d]))
            if k <= len(cols) and rng.random() < 0.9:
                return rng.sample(cols, k)
            return [rng.choice(cols) for _ in range(k)]
        if sh == '11':
            ca, cb = pick(a, 1), pick(b, 1)
        elif sh == 'nn':
            k = rng.choice([2, 2, 3])
            ca, cb = pick(a, k), pick(b, k)
        elif sh == '1n':
            ca, cb = pick(a, 1), pick(b, rng.choice([2, 3]))
        elif sh == 'n1':
            ca, cb = pick(a, rng.choice([2, 3])), pick(b, 1)
        else:
            if rng.random() < 0.7:
                sh = '11'
                ca, cb = pick(a, 1), pick(b, 1)
            else:
                ca, cb = pick(a, 2), pick(b, 3)                       # rejected by join_on_key
        if sh == '11' and a != b and rng.random() < 0.3:
            dup = any(o[0] == 'link' and ((o[1], o[2], o[3], o[4]) == (a, b, ca[0], cb[0]) or (o[1], o[2], o[3], o[4]) == (b, a, cb[0], ca[0]))
                      for o in ops)
            if not dup:
                ops.append(['link', a, b, ca[0], cb[0]])
                link_ops.append(len(ops) - 1)
                continue
        ops.append(['join', a, b, ca, cb, rng.choice([0, 0, 1, 2])])
    # remove some links (each at most once), somewhere after their creation
    marked = [[o, None] for o in ops]                  # (op, the link entry it removes)
    for entry in [marked[k] for k in link_ops]:
        if rng.random() < 0.4:
            pos = rng.randrange([i for i, e in enumerate(marked) if e is entry][0] + 1, len(marked) + 1)
            marked.insert(pos, [['unlink', None], entry])
    ops = []
    for o, target in marked:
        if target is not None:
            o = ['unlink', [i for i, e in enumerate(marked) if e is target][0]]
        ops.append(o)
    # kinds of the columns: columns compared with each other get the same family (union-find)
    parent = {}
    direct = []

    def find(x):
        parent.setdefault(x, x)
        while parent[x] != x:
            parent[x] = parent[parent[x]]
            x = parent[x]
        return x
    for o in ops:
        if o[0] == 'unlink':
            continue
        a, b = o[1], o[2]
        ca, cb = (o[3], o[4]) if o[0] == 'join' else ([o[3]], [o[4]])
        prs = list(zip(ca, cb)) if len(ca) == len(cb) else [(x, y) for x in ca for y in cb]
        for x, y in prs:
            parent[find((a, x))] = find((b, y))
            direct.append(((a, x), (b, y)))
    fam = {}
    datasets = []
    for d in range(n):
        shape = list(rng.choice(SHAPES))
        size = int(np.prod(shape))
        cols = []
        for j in range(ncols[d]):
            root = find((d, j))
            if root not in fam:
                fam[root] = 'str' if rng.random() < 0.35 else 'num'
            if fam[root] == 'num':
                dt = rng.choice(num_dt)
                pool = FLT_VALS if dt[0] == 'f' else UINT_VALS if dt[0] == 'u' else INT_VALS
                if dt not in ('i1', 'u1') and rng.random() < 0.3:
                    pool = pool + ([256.0, 65536.0] if dt[0] == 'f' else [256, 257, 65536] if dt not in ('i2', 'u2') else [256, 257])
                if allow_big and dt == 'i8' and rng.random() < 0.3:
                    pool = rng.sample(pool, 2) + BIG_INTS          # identifiers that collide once converted to float64
                if allow_big and dt == 'f8' and rng.random() < 0.15:
                    pool = pool + [float(2 ** 53), float(2 ** 60), 2.0 ** 53 + 2]
            else:
                dt = rng.choice(STR_DT)
                pool = STR_VALS
            pool = rng.sample(pool, min(len(pool), rng.choice([2, 3, 4, 6])))
            cols.append({'dtype': dt, 'values': [rng.choice(pool) for _ in range(size)]})
        u = list(range(size))
        rng.shuffle(u)
        datasets.append({'shape': shape, 'cols': cols, 'u': u})
    sanitize(datasets, direct)
    # queries
    queries = []
    sizes = [int(np.prod(ds['shape'])) for ds in datasets]
    for _ in range(rng.choice([2, 3, 4])):
        r = rng.random()
        if r < 0.45:
            e = rng.randrange(n)
            sel = ['ineq', e, rng.choice([-1] + list(range(sizes[e])))]
        else:
            k = rng.choice([0, 1, 1, 1, 2, 2, 3]) if r < 0.9 else 0
            ev = rng.sample(range(n), min(k, n))
            table = {}
            for e in ev:
                mode = rng.random()
                table[str(e)] = [0] * sizes[e] if mode < 0.15 else [1] * sizes[e] if mode < 0.3 else [int(rng.random() < 0.5) for _ in range(sizes[e])]
            sel = ['table', table]
        for d in range(n):
            queries.append({'d': d, 'view': None, 'sel': sel})
            if rng.random() < 0.6:
                queries.append({'d': d, 'view': rand_view(rng, datasets[d]['shape']), 'sel': sel})
    return {'datasets': datasets, 'ops': ops, 'queries': queries}


def stream_random(R):
    ncases = R.pick(1800, 14000)
    cases = []
    for i in range(ncases):
        rng = R.subrng('random', i)
        cases.append(rand_case(rng, force=('cycle' if i % 7 == 0 else 'chain' if i % 7 == 1 else None)))
    nq = 0
    step = 250
    for i in range(0, len(cases), step):
        nq += run_cases(R, cases[i:i + step], 'random')
    for c in cases[:3]:
        R.sample({'stream': 'random', 'case': c})
    R.stream('random', systems=len(cases), queries=nq, exhaustive=False,
             bound='1..4 datasets of 1..6 elements (1-d and 2-d), 1..3 key columns of dtypes %s / %s, joins in chains, cycles, stars, complete and random graphs '
                   '(self-joins, re-joins, JoinLink add/remove, rejected shapes), selections evaluable on 0..3 datasets, every dataset asked, with and without a view' % (NUM_DT, STR_DT))


def insert_op(ops, pos, op):
    """insert an operation, keeping the references of unlink / relink (indices of link operations) right"""
    for o in ops:
        if o[0] in ('unlink', 'relink') and o[1] >= pos:
            o[1] += 1
    if op[0] in ('unlink', 'relink') and op[1] >= pos:
        op = [op[0], op[1] + 1]
    ops.insert(pos, op)


def ident_case(rng):
    """a random system (as rand_case) in which HOW a join is made and BETWEEN WHAT varies:
      * single-key joins between two datasets are made by join_on_key or by a JoinLink given to the DataCollection
        (add_link(link), add_link([link]), set_links(active links + [link])), some removed (remove_link), some removed and added again;
      * key (and other) columns are stored under ComponentIDs that are not the dataset's own: the ComponentID of a column of another
        dataset (add_component(values, existing_cid)) - in particular of the dataset on the other side of the join, so that both
        sides name the key by the same id -, a free-standing ComponentID whose parent is another dataset or None, or one put in place
        by Data.update_id;
      * only some of the datasets are members of the DataCollection."""
    case = rand_case(rng, force=rng.choice([None, None, 'chain', 'star', 'cycle']))
    n = len(case['datasets'])
    ops = case['ops']

    def link_sigs():
        return set((o[1], o[2], o[3], o[4]) for o in ops if o[0] == 'link')
    # (1) more joins through the DataCollection
    for i, o in enumerate(ops):
        if o[0] == 'join' and o[1] != o[2] and len(o[3]) == 1 and len(o[4]) == 1 and rng.random() < 0.55:
            sig, gis = (o[1], o[2], o[3][0], o[4][0]), (o[2], o[1], o[4][0], o[3][0])
            if sig not in link_sigs() and gis not in link_sigs():
                ops[i] = ['link', sig[0], sig[1], sig[2], sig[3], 'add']
    for o in ops:
        if o[0] == 'link':
            if len(o) < 6:
                o.append('add')
            o[5] = rng.choice(['add', 'add', 'list', 'set'])
    # removals, and re-additions of removed links
    link_objs = [o for o in ops if o[0] == 'link']
    for lo in link_objs:
        idx = [k for k, o in enumerate(ops) if o is lo][0]
        removed = [k for k, o in enumerate(ops) if o[0] == 'unlink' and o[1] == idx]
        if not removed and rng.random() < 0.35:
            pos = rng.randrange(idx + 1, len(ops) + 1)
            insert_op(ops, pos, ['unlink', idx])
            removed = [pos]
        if removed and rng.random() < 0.5:
            pos = rng.randrange(removed[0] + 1, len(ops) + 1)
            insert_op(ops, pos, ['relink', idx])
            if rng.random() < 0.3:
                insert_op(ops, rng.randrange(pos + 1, len(ops) + 1), ['unlink', idx])
    # (2) identities of the columns
    ident = {}                                   # (dataset, column) -> the (dataset, column) whose ComponentID names it

    def can_share(k, j, d, j0):
        if d == k or case['datasets'][d]['cols'][j0].get('cid', None) is not None and case['datasets'][d]['cols'][j0]['cid'][0] == 'share':
            return False
        if any(c.get('cid') is not None and c['cid'][0] == 'share' and (c['cid'][1], c['cid'][2]) == (k, j)
               for ds in case['datasets'] for c in ds['cols']):
            return False                         # (k, j) is itself somebody's source
        held = [ident.get((k, x), (k, x)) for x in range(len(case['datasets'][k]['cols'])) if x != j]
        return (d, j0) not in held

    def share(k, j, d, j0):
        if can_share(k, j, d, j0):
            case['datasets'][k]['cols'][j]['cid'] = ['share', d, j0]
            ident[(k, j)] = (d, j0)
            return True
        return False

    def foreign(k, j):
        if case['datasets'][k]['cols'][j].get('cid') is None:
            p = rng.choice([None, k] + [x for x in range(n) if x != k] * 2)
            case['datasets'][k]['cols'][j]['cid'] = [rng.choice(['fresh', 'update']), p]
    for o in list(ops):
        if o[0] not in ('join', 'link') or o[1] == o[2]:
            continue
        ca, cb = (o[3], o[4]) if o[0] == 'join' else ([o[3]], [o[4]])
        r = rng.random()
        if r < 0.3:                               # both sides name the key by the same id
            (k, j), (d, j0) = ((o[2], cb[0]), (o[1], ca[0])) if rng.random() < 0.5 else ((o[1], ca[0]), (o[2], cb[0]))
            share(k, j, d, j0)
        elif r < 0.6 and n > 2:                   # the key of one side is named by the id of a third dataset's column
            k, j = rng.choice([(o[1], ca[0]), (o[2], cb[0])])
            d = rng.choice([x for x in range(n) if x not in (o[1], o[2])])
            share(k, j, d, rng.randrange(len(case['datasets'][d]['cols'])))
        elif r < 0.75:
            foreign(*rng.choice([(o[1], ca[0]), (o[2], cb[0])]))
    for k in range(n):
        for j in range(len(case['datasets'][k]['cols'])):
            if case['datasets'][k]['cols'][j].get('cid') is None and rng.random() < 0.15:
                if n > 1 and rng.random() < 0.6:
                    d = rng.choice([x for x in range(n) if x != k])
                    share(k, j, d, rng.randrange(len(case['datasets'][d]['cols'])))
                else:
                    foreign(k, j)
    # a link whose removal fails (its join was replaced meanwhile) stays registered in the LinkManager: adding it again is outside
    # the domain (ASSUMPTIONS: a JoinLink equal to a registered one is not added again)
    if not oracle_graph(case)[1]:
        seen = set()
        keep = []
        for i, o in enumerate(ops):
            if o[0] == 'relink' or (o[0] == 'unlink' and o[1] in seen):
                continue
            if o[0] == 'unlink':
                seen.add(o[1])
            keep.append(i)
        ren = {old: new for new, old in enumerate(keep)}
        ops[:] = [[ops[i][0], ren[ops[i][1]]] if ops[i][0] == 'unlink' else ops[i] for i in keep]
    # (3) membership of the collection
    if rng.random() < 0.3:
        case['dc'] = sorted(rng.sample(range(n), rng.randrange(0, n + 1)))
    return case


def stream_identities(R):
    ncases = R.pick(700, 6000)
    cases = [ident_case(R.subrng('identities', i)) for i in range(ncases)]
    nq = 0
    for i in range(0, len(cases), 250):
        nq += run_cases(R, cases[i:i + 250], 'identities')
    R.sample({'stream': 'identities', 'case': cases[0]})
    R.stream('identities', systems=len(cases), queries=nq, exhaustive=False,
             bound='as the random stream; single-key joins made by join_on_key or by a JoinLink through DataCollection.add_link(link) / add_link([link]) / '
                   'set_links(active + [link]), removed, removed and added again; columns stored under the ComponentID of a column of another dataset '
                   '(the other side of the join, or a third dataset), under a free-standing ComponentID with a foreign / no parent, or re-identified by update_id; '
                   'datasets in and out of the DataCollection')


def large_case(rng):
    """two datasets of 20..200 rows, keys drawn with many repetitions from overlapping pools of 15..60 distinct keys
    that are not small dense integers; most rows selected"""
    kind = rng.choice(['str', 'flt', 'sparse', 'big', 'big'])
    shape = rng.choice(['11', '11', 'nn', '1n', '1n', 'n1'])
    nu = rng.randrange(24, 64)
    if kind == 'str':
        U = ['s%02d' % i for i in range(nu)]
    elif kind == 'flt':
        U = [i + 0.5 for i in range(nu // 2)] + [i * 1e10 + 0.25 for i in range(nu - nu // 2)]
    elif kind == 'sparse':
        U = [i * 10 ** 9 + 7 for i in range(nu)]
    else:
        U = [2 ** 53 + i for i in range(nu // 2)] + [2 ** 60 + i for i in range(nu - nu // 2)]

    def dtype_for(side):
        if kind == 'str':
            return rng.choice(['U3', 'U4', 'U6'])
        if kind == 'flt':
            return 'f8'
        if kind == 'sparse':
            return rng.choice(['i8', 'i8', 'f8'])
        return 'i8'

    def second(n):
        """a second key column of another dtype, few distinct values"""
        k = rng.choice(['f8', 'i4', 'i8', 'str'] if kind != 'str' else ['str', 'str', 'i4'])
        if k == 'str':
            return {'dtype': rng.choice(['U1', 'U2', 'U4']), 'values': [rng.choice(['a', 'b', 'ab']) for _ in range(n)]}
        if k == 'f8':
            return {'dtype': 'f8', 'values': [rng.choice([0.5, 5.0, -0.0, 0.0, 7.25]) for _ in range(n)]}
        return {'dtype': k, 'values': [rng.choice([0, 1, 5]) for _ in range(n)]}

    ldt, rdt = dtype_for(0), dtype_for(1)
    # the extracted model is slow on n-n joins and on int/float pairs (every pair of rows is cast / checked): smaller tables there
    cap = 201 if (shape == '11' and ldt[0] == rdt[0]) else 121 if kind == 'str' else 71
    nl, nr = rng.randrange(20, cap), rng.randrange(20, cap)
    pl = rng.sample(U, rng.randrange(12, max(13, int(0.7 * nu))))
    pr = rng.sample(U, rng.randrange(15, max(16, int(0.8 * nu))))
    lcol = {'dtype': ldt, 'values': [rng.choice(pl) for _ in range(nl)]}
    rcol = {'dtype': rdt, 'values': [rng.choice(pr) for _ in range(nr)]}
    L = {'shape': [nl], 'cols': [lcol], 'u': rng.sample(range(nl), nl)}
    Rt = {'shape': [nr], 'cols': [rcol], 'u': rng.sample(range(nr), nr)}
    if shape == '11':
        c1, c2 = [0], [0]
        direct = [((0, 0), (1, 0))]
    elif shape == 'nn':
        s1, s2 = second(nl), second(nr)
        if (s1['dtype'][0] == 'U') != (s2['dtype'][0] == 'U'):
            s2 = dict(s1, values=[rng.choice(s1['values']) for _ in range(nr)])
        L['cols'].append(s1)
        Rt['cols'].append(s2)
        c1, c2 = [0, 1], [0, 1]
        direct = [((0, 0), (1, 0)), ((0, 1), (1, 1))]
    else:
        # the side with several key columns: the second one has another dtype (a float column next to 64-bit identifiers,
        # an int32 next to a float, <U2 next to <U6) and holds some of the keys too
        many, one = (Rt, L) if shape == '1n' else (L, Rt)
        nm = many['shape'][0]
        if kind == 'str':
            extra = {'dtype': rng.choice(['U2', 'U5']), 'values': [rng.choice(U + ['zz']) for _ in range(nm)]}
        elif kind == 'big':
            extra = {'dtype': 'f8', 'values': [rng.choice([float('nan')] * 0 + [5.0, 0.5, -1.0, float(2 ** 53), 123456789.0]) for _ in range(nm)]}
        elif kind == 'flt':
            extra = {'dtype': rng.choice(['i4', 'i8']), 'values': [rng.choice([0, 1, 5, 7]) for _ in range(nm)]}
        else:
            extra = {'dtype': rng.choice(['f8', 'i4']), 'values': [rng.choice([7, 5, 1000000007]) for _ in range(nm)]}
        many['cols'].append(extra)
        c1, c2 = ([0], [0, 1]) if shape == '1n' else ([0, 1], [0])
        direct = [((0, x), (1, y)) for x in c1 for y in c2]
    datasets = [L, Rt]
    sanitize(datasets, direct)
    queries = []
    for d, e, ne in ((0, 1, nr), (1, 0, nl)):
        if rng.random() < 0.5:
            sel = ['ineq', e, rng.randrange(-1, ne // 3)]
        else:
            p = rng.choice([0.5, 0.8, 0.95])
            sel = ['table', {str(e): [int(rng.random() < p) for _ in range(ne)]}]
        queries.append({'d': d, 'view': None, 'sel': sel})
        if rng.random() < 0.3:
            queries.append({'d': d, 'view': rand_view(rng, datasets[d]['shape']), 'sel': sel})
    return {'datasets': datasets, 'ops': [['join', 0, 1, c1, c2, rng.choice([0, 1])]], 'queries': queries}


def stream_large(R):
    n = R.pick(100, 900)
    cases = [large_case(R.subrng('large', i)) for i in range(n)]
    nq = 0
    for i in range(0, len(cases), 40):
        nq += run_cases(R, cases[i:i + 40], 'large')
    R.sample({'stream': 'large', 'case': 'two datasets of 20..200 elements, keys s00..s63 / i+0.5 / i*1e9+7 / 2**53+i, 2**60+i drawn with repetitions'})
    R.stream('large', systems=len(cases), queries=nq, exhaustive=False,
             bound='two datasets of 20..200 elements; keys drawn with repetitions from overlapping pools of 12..50 distinct strings, floats, sparse int64 '
                   'or near-colliding int64 (2**53+i, 2**60+i); shapes 1-1, n-n, 1-n, n-1 with a second key column of another dtype; 50-95% of the rows selected; both directions')


def stream_other_dtypes(R):
    """dtypes the model does not cover (float32, unsigned): implementation against the oracle only"""
    n = R.pick(300, 2500)
    nq = 0
    for i in range(n):
        case = rand_case(R.subrng('other', i), num_dt=OTHER_DT)
        _, _, fails = check_case(R, case, 'other-dtypes', model_out=None)
        nq += len(case['queries'])
        if fails:
            report(R, case, 'other-dtypes', fails)
    R.stream('other-dtypes', systems=n, queries=nq, exhaustive=False,
             bound='as the random stream, numeric key columns drawn from %s; oracle only (no model)' % OTHER_DT)


# ------------------------------------------------------------------ stream 3: concatenate_arrays itself
def stream_concat(R):
    from glue.core.joins import concatenate_arrays
    n = R.pick(600, 4000)
    lines, arrs = [], []
    for i in range(n):
        rng = R.subrng('concat', i)
        m = rng.randrange(1, 5)
        k = rng.randrange(1, 4)
        cols = []
        for _ in range(k):
            if rng.random() < 0.6:
                dt = rng.choice(NUM_DT)
                pool = FLT_VALS if dt == 'f8' else INT_VALS + ([256, 257] if dt != 'i1' else [])
            else:
                dt = rng.choice(STR_DT)
                pool = STR_VALS
            cols.append(np.array([rng.choice(pool) for _ in range(m)], dtype=dt))
        arrs.append(cols)
        lines.append('(2 %s)' % table_txt(cols, m))
    outs = R.model(lines)
    for cols, o in zip(arrs, outs):
        res = concatenate_arrays(*cols)
        impl = [list(bytes(x)) for x in res]
        model = [[k[0] for k in r[1]] for r in o[1]]
        R.count(('concat', [(str(c.dtype), c.tolist()) for c in cols]), nontrivial=True, stream='concat')
        if impl != model:
            R.fail('correspondence', {'stream': 'concat', 'columns': [(str(c.dtype), c.tolist()) for c in cols]}, {'model': model, 'impl': impl})
        # the property of the helper: with equal dtypes on both sides, items are equal iff the tuples are equal by value
        items = [bytes(x) for x in res]
        tuples = list(zip(*[c.tolist() for c in cols]))
        for a in range(len(items)):
            for b in range(a + 1, len(items)):
                same_bytes = items[a] == items[b]
                same_val = tuples[a] == tuples[b] and all(np.signbit(x) == np.signbit(y) for x, y in zip(tuples[a], tuples[b]) if isinstance(x, float))
                if same_bytes != same_val:
                    R.fail('oracle', {'stream': 'concat', 'columns': [(str(c.dtype), c.tolist()) for c in cols]},
                           {'rows': [a, b], 'bytes_equal': same_bytes, 'values_equal': same_val})
    R.stream('concat', cases=n, exhaustive=False, bound='1..3 columns of 1..4 rows, mixed dtypes')


# ------------------------------------------------------------------ corpus: the defects found on glue-core @56f48f0
CORPUS = [
    # F-C11: n-n join, int32 against int64
    {'datasets': [{'shape': [2], 'cols': [{'dtype': 'i4', 'values': [1, 2]}, {'dtype': 'i4', 'values': [1, 1]}], 'u': [0, 1]},
                  {'shape': [2], 'cols': [{'dtype': 'i8', 'values': [1, 5]}, {'dtype': 'i8', 'values': [1, 1]}], 'u': [0, 1]}],
     'ops': [['join', 0, 1, [0, 1], [0, 1], 0]],
     'queries': [{'d': 0, 'view': None, 'sel': ['table', {'1': [1, 1]}]}]},
    # F-C11: n-n join, <U2 against <U4
    {'datasets': [{'shape': [2], 'cols': [{'dtype': 'U2', 'values': ['ab', 'c']}, {'dtype': 'i8', 'values': [1, 1]}], 'u': [0, 1]},
                  {'shape': [2], 'cols': [{'dtype': 'U4', 'values': ['ab', 'abcd']}, {'dtype': 'i8', 'values': [1, 1]}], 'u': [0, 1]}],
     'ops': [['join', 0, 1, [0, 1], [0, 1], 0]],
     'queries': [{'d': 0, 'view': None, 'sel': ['table', {'1': [1, 1]}]}]},
    # n-n join, a spurious match of the unrepaired byte comparison: (1, 2) as int32 pair against (2^33 + 1, 0) as int64 pair
    {'datasets': [{'shape': [1], 'cols': [{'dtype': 'i4', 'values': [1]}, {'dtype': 'i4', 'values': [2]}], 'u': [0]},
                  {'shape': [1], 'cols': [{'dtype': 'i8', 'values': [8589934593]}, {'dtype': 'i8', 'values': [0]}], 'u': [0]}],
     'ops': [['join', 0, 1, [0, 1], [0, 1], 0]],
     'queries': [{'d': 0, 'view': None, 'sel': ['table', {'1': [1]}]}]},
    # n-n join, -0.0 against 0.0
    {'datasets': [{'shape': [2], 'cols': [{'dtype': 'f8', 'values': [0.0, 1.0]}, {'dtype': 'i8', 'values': [1, 1]}], 'u': [0, 1]},
                  {'shape': [2], 'cols': [{'dtype': 'f8', 'values': [-0.0, 1.0]}, {'dtype': 'i8', 'values': [1, 1]}], 'u': [0, 1]}],
     'ops': [['join', 0, 1, [0, 1], [0, 1], 0]],
     'queries': [{'d': 0, 'view': None, 'sel': ['table', {'1': [1, 1]}]}]},
    # a dataset joined with another one and then with itself: RecursionError instead of IncompatibleAttribute
    {'datasets': [{'shape': [2], 'cols': [{'dtype': 'i8', 'values': [1, 2]}, {'dtype': 'i8', 'values': [2, 3]}], 'u': [0, 1]},
                  {'shape': [2], 'cols': [{'dtype': 'i8', 'values': [1, 2]}], 'u': [0, 1]}],
     'ops': [['join', 0, 1, [0], [0], 0], ['join', 0, 0, [0], [1], 0]],
     'queries': [{'d': 0, 'view': None, 'sel': ['table', {}]}]},
    # 1-1 join of an int64 column (distinct values that collide as float64) with a float64 column, 20 keys selected:
    # np.isin reported the colliding integers as matches of each other
    {'datasets': [{'shape': [3], 'cols': [{'dtype': 'i8', 'values': [2 ** 60 + 1, 2 ** 60 + 2, 7]}], 'u': [0, 1, 2]},
                  {'shape': [20], 'cols': [{'dtype': 'f8', 'values': [i + 0.5 for i in range(20)]}], 'u': list(range(20))}],
     'ops': [['join', 0, 1, [0], [0], 0]],
     'queries': [{'d': 0, 'view': None, 'sel': ['table', {'1': [1] * 20}]}]},
    # a JoinLink between obs (d2) and a table (d1) extracted from a catalogue (d0): the table stores its key under the catalogue's
    # ComponentID; the link joins the two datasets it names, the catalogue is not joined; removing the link ends the propagation
    {'datasets': [{'shape': [3], 'cols': [{'dtype': 'i8', 'values': [10, 11, 12]}], 'u': [0, 1, 2]},
                  {'shape': [2], 'cols': [{'dtype': 'i8', 'values': [11, 12], 'cid': ['share', 0, 0]}], 'u': [0, 1]},
                  {'shape': [4], 'cols': [{'dtype': 'i8', 'values': [12, 12, 10, 11]}], 'u': [0, 1, 2, 3]}],
     'ops': [['link', 2, 1, 0, 0, 'add']],
     'queries': [{'d': 1, 'view': None, 'sel': ['table', {'2': [1, 0, 0, 0]}]}, {'d': 2, 'view': None, 'sel': ['table', {'1': [1, 0]}]},
                 {'d': 0, 'view': None, 'sel': ['table', {'2': [1, 0, 0, 0]}]}]},
    {'datasets': [{'shape': [3], 'cols': [{'dtype': 'i8', 'values': [10, 11, 12]}], 'u': [0, 1, 2]},
                  {'shape': [2], 'cols': [{'dtype': 'i8', 'values': [11, 12], 'cid': ['share', 0, 0]}], 'u': [0, 1]}],
     'ops': [['link', 0, 1, 0, 0, 'set'], ['unlink', 0], ['relink', 0], ['unlink', 0]],
     'queries': [{'d': 1, 'view': None, 'sel': ['table', {'0': [1, 0, 1]}]}]},
    # 3-cycle, nobody can evaluate
    {'datasets': [{'shape': [2], 'cols': [{'dtype': 'i8', 'values': [1, 2]}], 'u': [0, 1]} for _ in range(3)],
     'ops': [['join', 0, 1, [0], [0], 0], ['join', 1, 2, [0], [0], 0], ['join', 2, 0, [0], [0], 0]],
     'queries': [{'d': 0, 'view': None, 'sel': ['table', {}]}, {'d': 1, 'view': None, 'sel': ['table', {}]}]},
    # rejected shape, unlink after the join was replaced
    {'datasets': [{'shape': [2], 'cols': [{'dtype': 'i8', 'values': [1, 2]}, {'dtype': 'i8', 'values': [2, 3]}, {'dtype': 'i8', 'values': [2, 3]}], 'u': [0, 1]} for _ in range(2)],
     'ops': [['join', 0, 1, [0, 1], [0, 1, 2], 0], ['link', 0, 1, 0, 0], ['join', 1, 0, [1], [1], 1], ['unlink', 1]],
     'queries': [{'d': 0, 'view': None, 'sel': ['table', {'1': [1, 0]}]}]},
]


def stream_corpus(R):
    cases = copy.deepcopy(CORPUS)
    nq = run_cases(R, cases, 'corpus')
    R.stream('corpus', systems=len(cases), queries=nq, bound='the defects found on the unchanged tree, a 3-cycle nobody can evaluate, rejected join shape, link removed after replacement')


def run(R):
    R.rule = ('a case = (tables with storage dtypes, join operations, selection, dataset asked, view); distinct = distinct canonical JSON of these; '
              'non-trivial = the dataset asked cannot evaluate the selection itself and either receives a mask with at least one selected element '
              'through a join, or has joins and must answer IncompatibleAttribute after exploring them')
    stream_corpus(R)
    stream_concat(R)
    stream_pairs(R)
    stream_large(R)
    stream_random(R)
    stream_identities(R)
    stream_other_dtypes(R)


def replay(R, case):
    c = case.get('case', case)
    out = {'case': c}
    if case.get('stream') == 'concat':
        out['note'] = 'replay by re-running the stream: ./check C11 --tier quick'
        out['violates'] = False
        return out
    B = build(c)
    impl = run_impl(B)
    out['impl'] = [r for r, _ in impl]
    out['key_joins'] = B.joins
    if R.model_available:
        _, _, mo = parse_model(R.model([model_line(B)])[0])
        out['model'] = mo
    orc = [oracle_check(B, q, impl[i][0]) for i, q in enumerate(c['queries'])]
    out['oracle'] = orc
    out['violates'] = any(o is not None for o in orc)
    return out
