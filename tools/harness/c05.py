"""C05 -- results always reflect the current data, regions and links: never a stale cache.

A case is a history of evaluation requests and mutations on a small world of real objects: a DataCollection with two
datasets, elementary states over their attributes, selections built from them (attached as subset groups or free),
a hub listener that evaluates during NumericalDataChangedMessage.

Oracle (independent of the model): after every operation, each requested mask / statistic / histogram / derived value is
compared with the same request on a FRESH world: the world is constructed again from its seed, the mutations of the
history (not the evaluations) are applied to it, and the request is its first and only evaluation.

Correspondence: the model (coq/C05/Model.v) receives the history, the identities and classes of the state objects, and the
fresh results of the elementary states in every world the history goes through; it applies the cache-clearing policy
regenerated from the source and must return exactly what the real objects returned (stale where the code is stale).

Streams: policy (regenerated policy table vs. behaviour), exhaustive (all histories of <= 3 (quick) / 4 (thorough) operations
over 3 expression shapes x 6 mutation kinds on a fixed world), random (histories of <= 25 operations, nesting <= 4, all
elementary state kinds), viewer (histogram viewer layer state: cached histogram vs a fresh viewer), histstate (one key field changed at a time),
presentation / profile (ONE viewer state, cache key unchanged, presentation settings -- normalize, cumulative -- assigned between reads: every read equals the read
of freshly constructed states with the same settings, and a read leaves the cached arrays unchanged), frb (compute_fixed_resolution_buffer between mask requests),
manykeys (140-1100 DISTINCT (selection, data, view) requests between two cache clears, then each kind of mutation, then the requests again, vs fresh objects),
memoize-live (the live memoize / clear_cache against the program translated from their source, C05.Memo).
"""
import itertools
import operator

import numpy as np

from harness.common import enc, kids, tag, is_err, to_zs, VERIF
from harness import c01 as C1

PROP = 'C05'
GENERATORS = ['gen_memo', 'gen_combine']   # gen_combine: C01.Model (imported by the C05 model) uses Gen_combine
TRUSTED = [
    'tools/gen/gen_memo.py: which to_mask definitions are memoised and which function caches each mutation path clears '
    '(update_components, update_values_from_data, move_to, link changes, attribute assignment), regenerated from the source by ast scan',
    'hand model coq/C05/Model.v (versioned inputs, evaluator with exceptions, histories); the fresh results of the elementary '
    'states are inputs of the model',
    'the fresh world is a re-construction of the objects from the case seed with the mutations of the history replayed on it',
    'tools/gen/gen_memo.py, post-processing scan: which expressions of a function that reads a cache entry give a NEW array (copy / astype / np.array / '
    'arithmetic / whitelisted reductions) and which may share memory with the entry (everything else); intra-procedural plus one level of callee summaries '
    '(functions that modify their own parameters in place), parameters are taken not to be cache entries, values parked in non-cache attributes are not followed; '
    'the row of compute_fixed_resolution_buffer is exempt from the table theorem (its get_mask view is an unhashable tuple of arrays, so the array is not a '
    'cache entry) and is covered by the frb stream instead',
    'tools/gen/gen_memo.py, memoize translation: the fragment of Python it accepts (assignment to memo / key / result, d[k], d[k] = v, {} , len(d) >= N, try / except '
    'TypeError | KeyError | AttributeError, if, return, d.clear(), wrapper.__memoize_cache = e, nonlocal memo; anything else aborts) and the object semantics given to it in '
    'coq/C05/Memo.v (dicts are heap objects, names hold references); tied to the live decorator by the memoize-live stream; clear_mask_caches is compared with one exact '
    'template (work-list walk calling clear_cache on every class\'s own to_mask)',
]
ASSUMPTIONS = [
    'assigning to an attribute of a subset state, or editing the ROI object it holds in place, does not invalidate memoised masks: '
    'recorded as known finding setattr-no-invalidation (the model is knowingly stale in the same way)',
    'the per-attribute limits / bins remembered by StateAttributeLimitsHelper / StateAttributeHistogramHelper are user settings, '
    'not computed results; only the histogram values computed from them are compared',
    'a CALLER writing into an array that glue handed out (Data.get_mask / state.to_mask of a memoised state, ProfileLayerState.profile and the edges of '
    'HistogramLayerState.histogram are the cached arrays themselves) is not one of the changes the property quantifies over and is not probed; what is checked '
    'is that glue itself never modifies a cached value: statically (table theorem cached_values_never_written) and at run time (a read under an unchanged key '
    'leaves the cached arrays bitwise unchanged)',
]

FKW, FPOS, FNONE = C1.FKW, C1.FPOS, C1.FNONE
KEY_SETATTR = 'setattr-no-invalidation'


def class_table():
    """class name -> (index, function-cache id or None)"""
    import re
    import os
    txt = open(os.path.join(VERIF, 'coq', 'gen', 'Gen_memo.v')).read()
    out = {}
    for m in re.finditer(r'c_idx := (\d+); c_parent := \d+; c_def := (\d+); c_memo := (true|false);[^\n]*\(\* (\w+) ', txt):
        out[m.group(4)] = (int(m.group(1)), int(m.group(2)) if m.group(3) == 'true' else None)
    return out


# ------------------------------------------------------------------ worlds
def double(u):
    return 2.0 * u


def times_ten(x):
    return x * 10


def same_value(x):
    return x


class World:
    """deterministic from (seed, stream, i); `plan` fixes the trees"""

    def __init__(self, seed, stream, i, plan=None):
        from glue.core import Data, DataCollection
        from glue.core.link_helpers import LinkSame
        from glue.core.component_link import ComponentLink
        from glue.core import subset as S
        self.key = (seed, stream, i)
        rng = C1.case_rng(seed, stream, i, 'world5')
        plan = plan or {}
        self.d0 = plan['make_d0']() if 'make_d0' in plan else C1.make_data(rng, plan.get('ndim'))
        d0 = self.d0
        same = plan.get('same_shape', rng.random() < 0.5)
        shape1 = d0.shape if same else (rng.randint(3, 6),)
        n1 = int(np.prod(shape1))
        self.d1 = Data(label='e')
        self.d1.add_component(np.array([rng.choice([-1.0, 0.0, 1.0, 2.0, 3.0, 5.0]) for _ in range(n1)]).reshape(shape1), 'u')
        self.d1.add_component(np.array([float(rng.randint(0, 4)) for _ in range(n1)]).reshape(shape1), 'w')
        d1 = self.d1
        self.datas = [d0, d1]
        # a third dataset that only serves as a relay: x -> (x10) -> f.z -> e.u is a second, longer route to e.u that gives
        # other values than the direct links d.x -> e.u ('direct1' one way, link 0 both ways)
        self.d2 = Data(label='f')
        self.d2.add_component(np.zeros(3), 'z')
        self.dc = DataCollection([d0, d1, self.d2])
        self.links = {0: LinkSame(d0.id['x'], d1.id['u']),
                      1: ComponentLink([d1.id['w']], d0.id['y'], using=double),
                      2: LinkSame(d0.id['k'], d1.id['w']),
                      'chainA': ComponentLink([d0.id['x']], self.d2.id['z'], using=times_ten),
                      'chainB': ComponentLink([self.d2.id['z']], d1.id['u']),
                      'direct1': ComponentLink([d0.id['x']], d1.id['u'], using=same_value)}
        if same:
            self.links['pixel'] = [LinkSame(a, b) for a, b in zip(d0.pixel_component_ids, d1.pixel_component_ids)]
        self.active_links = set()
        if 'links0' not in plan and 'leaves' not in plan:
            k0 = rng.random()
            plan = dict(plan, links0=[0] if k0 < 0.4 else (['chainA', 'chainB'] if k0 < 0.55 else []))
        for k in plan.get('links0', []):
            self.dc.add_link(self.links[k])
            self.active_links.add(k)
        # elementary states
        if 'leaves' in plan:
            self.leaves = plan['leaves'](self)
            self.leaf_kinds = [type(l).__name__ for l in self.leaves]
        else:
            fs = C1.leaf_factories(rng, d0)
            fs = [f for f in fs if f[0] not in ('Parsed', 'RoiNd', 'RoiPre')]
            nl = plan.get('nleaves') or rng.randint(2, 6)
            self.leaves, self.leaf_kinds = [], []
            for _ in range(nl):
                kind, f = rng.choice(fs)
                try:
                    s = f()
                except Exception:
                    continue
                self.leaves.append(s)
                self.leaf_kinds.append(kind)
            # states over attributes of the other dataset (need links to be evaluated on d0)
            if rng.random() < 0.7:
                self.leaves.append(S.InequalitySubsetState(d1.id['u'], rng.choice([0, 1, 2]), rng.choice([operator.gt, operator.le])))
                self.leaf_kinds.append('CrossInequality')
            if rng.random() < 0.4:
                self.leaves.append(S.RangeSubsetState(0.5, 2.5, d1.id['w']))
                self.leaf_kinds.append('CrossRange')
            if self.active_links:
                # every kind of state that reads attribute values, over an attribute of the OTHER dataset that reaches this one
                # through a link (its values follow the parent attribute d.x)
                from glue.core import roi as RO
                u = d1.id['u']
                cross = [('CrossRoi', lambda: S.RoiSubsetState(u, d0.id['y'], RO.RectangularROI(-0.5, 2.6, -0.7, 3.4))),
                         ('CrossCategory', lambda: S.CategorySubsetState(u, [rng.choice([0, 1, 2]), 3])),
                         ('CrossMultiRange', lambda: S.MultiRangeSubsetState([(-1.5, 0.5), (2.5, 4.5)], u)),
                         ('CrossFloodFill', lambda: S.FloodFillSubsetState(d0, u, tuple(rng.randrange(n_) for n_ in d0.shape), rng.choice([1.3, 2.0])))]
                for kind, f in rng.sample(cross, rng.randint(1, 3)):
                    try:
                        self.leaves.append(f())
                        self.leaf_kinds.append(kind)
                    except Exception:
                        pass
        # selections
        self.specs = list(plan['specs']) if 'specs' in plan else None
        if self.specs is None:
            self.specs = []
            for _ in range(rng.randint(1, 4)):
                self.specs.append(C1.random_spec(rng, len(self.leaves), rng.choice([1, 1, 2, 2, 3, 4])))
        self.attached = list(plan['attached']) if 'attached' in plan else [rng.random() < 0.6 for _ in self.specs]
        self.trees = []
        self.groups = {}
        for j, sp in enumerate(self.specs):
            t = C1.build(sp, self.leaves)
            self.trees.append(t)
            if self.attached[j]:
                self.groups[j] = self.dc.new_subset_group(subset_state=t)
        self.views = [[(None, True), ((slice(0, 2),), True)], [(None, True), ((slice(1, None),), True)]]
        self.listener = None

    # -- structure
    def add_tree(self, spec, attach_to=None):
        t = C1.build(spec, self.leaves)
        self.specs.append(spec)
        self.trees.append(t)
        j = len(self.trees) - 1
        if attach_to is not None and attach_to in self.groups:
            self.groups[attach_to].subset_state = t        # ReplaceState
            self.groups[j] = self.groups.pop(attach_to)
            self.attached.append(True)
        else:
            self.attached.append(False)
        return j

    def nodes(self, j):
        out = []
        C1.wire(self.specs[j], self.trees[j], C1.Ids(), _ANY, out)
        return out

    def target(self, tgt):
        """('tree', j, k) | ('leaf', n) -> (spec, object)"""
        if tgt[0] == 'leaf':
            return ('leaf', tgt[1]), self.leaves[tgt[1]]
        nd = self.nodes(tgt[1])
        return nd[tgt[2] % len(nd)]

    def leaf_objects(self):
        """every distinct elementary state object of the world, in a fixed order: the originals, then those inside the trees"""
        out, seen = [], set()
        for l in self.leaves:
            if id(l) not in seen:
                seen.add(id(l))
                out.append(l)
        for j in range(len(self.trees)):
            for sp, ob in self.nodes(j):
                if sp[0] == 'leaf' and id(ob) not in seen:
                    seen.add(id(ob))
                    out.append(ob)
        return out


class _Any(dict):
    def __getitem__(self, k):
        return 0


_ANY = _Any()


def leaves_under(obj, out=None):
    out = [] if out is None else out
    if hasattr(obj, 'states'):
        for c in obj.states:
            leaves_under(c, out)
    elif hasattr(obj, 'state1'):
        leaves_under(obj.state1, out)
        if obj.state2 is not None:
            leaves_under(obj.state2, out)
    else:
        out.append(obj)
    return out


def sharers(W, objs):
    """the elementary state objects whose region is the same ROI object as one of objs (copy() shares the ROI)"""
    rois = set(id(getattr(o, '_roi', None)) for o in objs if getattr(o, '_roi', None) is not None)
    out = list(objs)
    have = set(id(o) for o in objs)
    for l in W.leaf_objects():
        if id(l) not in have and getattr(l, '_roi', None) is not None and id(l._roi) in rois:
            out.append(l)
            have.add(id(l))
    return out


# ------------------------------------------------------------------ mutations (applied to the live and to the fresh world)
def new_values(W, di, salt):
    d = W.datas[di]
    rng = C1.case_rng(W.key, 'values', di, salt)
    n = d.size
    names = ['x', 'y', 'k'] if di == 0 else ['u', 'w']
    out = {}
    present = set(c.label for c in d.main_components)
    for nm in names:
        if nm not in present:
            rng.random()
            continue
        if rng.random() < 0.7 or nm == names[0]:
            vals = np.array([rng.choice([-2.0, -1.0, 0.0, 0.5, 1.0, 2.0, 3.0, 4.0, 6.0]) for _ in range(n)])
            if nm == 'k':
                vals = np.array([float(rng.randint(0, 4)) for _ in range(n)])
            out[nm] = vals.reshape(d.shape)
    return out


def apply_setattr(obj, salt):
    """assign to an attribute of an elementary state through its public setter; returns True when something was assigned"""
    from glue.core import roi as RO
    name = type(obj).__name__
    k = salt % 3
    if name == 'RangeSubsetState':
        if k == 0:
            obj.lo = obj.lo - 1.5
        elif k == 1:
            obj.hi = obj.hi + 1.5
        else:
            obj.lo, obj.hi = obj.lo + 1, obj.hi + 1
    elif name == 'InequalitySubsetState':
        import numbers
        if isinstance(obj.right, numbers.Number) and k != 2:
            obj.right = obj.right + (1.5 if k == 0 else -1.5)
        else:
            obj.operator = {operator.gt: operator.le, operator.le: operator.gt, operator.lt: operator.ge, operator.ge: operator.lt,
                            operator.eq: operator.ne, operator.ne: operator.eq}[obj.operator]
    elif name == 'MultiRangeSubsetState':
        obj.pairs = list(obj.pairs) + [(salt % 4, salt % 4 + 1.5)]
    elif name == 'CategorySubsetState':
        obj.categories = np.array([(salt + 1) % 4, (salt + 2) % 4])
    elif name == 'ElementSubsetState':
        obj.indices = [salt % 2, (salt % 2) + 1]
    elif name == 'CategoricalROISubsetState':
        obj.roi = RO.CategoricalROI(['a', 'dd'] if k else ['b'])
    elif name in ('RoiSubsetState', 'RoiSubsetStateNd'):
        if k == 0:
            obj.roi = RO.RectangularROI(-0.5 + salt % 2, 2.6, -0.7, 2.4 + salt % 3)
        else:
            return 'inplace'          # handled by the caller: obj.roi.move_to(...)
    elif name == 'MaskSubsetState':
        obj.mask = ~np.asarray(obj.mask)
    elif name == 'FloodFillSubsetState':
        obj.threshold = 1.1 if obj.threshold > 1.5 else 2.5
    elif name == 'SliceSubsetState':
        obj.slices = [slice(1, None)] + list(obj.slices[1:])
    else:
        return False
    return True


def apply_mutation(W, op):
    """returns model ops (without listener requests) as a list of ('kind', leaves objs)"""
    k = op[0]
    if k == 'update_components':
        d = W.datas[op[1]]
        d.update_components({d.id[nm]: v for nm, v in new_values(W, op[1], op[2]).items()})
    elif k == 'update_values':
        from glue.core import Data
        di = op[1]
        d = W.datas[di]
        rng = C1.case_rng(W.key, 'newdata', di, op[2])
        if op[3]:      # new shape
            shape = tuple(max(2, s + rng.choice([-1, 1])) for s in d.shape)
        else:
            shape = d.shape
        n = int(np.prod(shape))
        src = Data(label=d.label, coords=d.coords if shape == d.shape else None)
        for cid in d.main_components:
            comp = d.get_component(cid)
            if comp.categorical:
                from glue.core.component import CategoricalComponent
                src.add_component(CategoricalComponent(np.array([rng.choice(['a', 'b', 'c', 'dd']) for _ in range(n)]).reshape(shape)), cid.label)
            else:
                src.add_component(np.array([rng.choice([-1.0, 0.0, 1.0, 2.0, 3.0, 4.0]) for _ in range(n)]).reshape(shape), cid.label)
        d.update_values_from_data(src)
    elif k == 'move_to':
        sp, ob = W.target(op[1])
        cen = None
        try:
            cen = ob.center()
        except Exception:
            cen = None
        if cen is None:
            return
        if np.isscalar(cen):
            ob.move_to(cen + op[2])
        else:
            ob.move_to(*[c + op[2] for c in cen])
    elif k == 'setattr':
        sp, ob = W.target(op[1])
        if sp[0] != 'leaf':
            return
        r = apply_setattr(ob, op[2])
        if r == 'inplace':
            roi = ob.roi
            try:
                cen = roi.center()
                roi.move_to(*[c + 1.0 + (op[2] % 2) for c in cen])
            except Exception:
                pass
    elif k == 'add_link':
        if op[1] in W.links and op[1] not in W.active_links:
            W.dc.add_link(W.links[op[1]])
            W.active_links.add(op[1])
    elif k == 'remove_link':
        if op[1] in W.active_links:
            W.dc.remove_link(W.links[op[1]])
            W.active_links.discard(op[1])
    elif k == 'remove_component':
        d = W.datas[op[1]]
        cids = [c for c in d.main_components + d.derived_components if c.label == op[2]]
        if cids:
            d.remove_component(cids[0])
    elif k == 'replace_component':
        d = W.datas[op[1]]
        cids = [c for c in d.main_components if c.label == op[2]]
        if cids:
            rng = C1.case_rng(W.key, 'replace', op[1], op[2], op[3])
            vals = np.array([rng.choice([-2.0, -1.0, 0.0, 0.5, 1.0, 2.0, 3.0, 4.0, 6.0]) for _ in range(d.size)]).reshape(d.shape)
            d.add_component(vals, cids[0])
    elif k == 'replace_state':
        W.add_tree(op[2], attach_to=op[1])
    else:
        raise ValueError(op)


class isolated_caches:
    """the memoize dicts are global (one per decorated function): whatever the fresh world does to them -- entries it adds,
    wholesale clearing by its own update_components / move_to / link changes -- must not reach the live world"""

    def __enter__(self):
        from glue.core.subset import SubsetState
        self.saved = []
        stack = [SubsetState]
        while stack:
            c = stack.pop()
            cache = getattr(c.__dict__.get('to_mask'), '__memoize_cache', None)
            if cache is not None:
                self.saved.append((cache, dict(cache)))
            stack.extend(c.__subclasses__())
        return self

    def __exit__(self, *a):
        for cache, content in self.saved:
            cache.clear()
            cache.update(content)
        return False


MUTATIONS = ('update_components', 'update_values', 'move_to', 'setattr', 'add_link', 'remove_link', 'replace_state',
             'remove_component', 'replace_component')


def fresh_world(case, upto):
    """the world constructed again, with the mutations of ops[:upto] applied and nothing ever evaluated"""
    W = World(case['seed'], case['stream'], case['i'], plan=case.get('plan'))
    for op in case['ops'][:upto]:
        if op[0] in MUTATIONS:
            apply_mutation(W, op)
    return W


# ------------------------------------------------------------------ requests
def outcome(f):
    try:
        r = f()
        if isinstance(r, tuple):
            return ('ok', tuple(np.array(x, copy=True) for x in r))
        return ('ok', np.array(r, copy=True))
    except Exception as e:
        return ('err', type(e).__name__)


def same_outcome(a, b):
    if a[0] != b[0]:
        return False
    if a[0] == 'err':
        # both raise: which exception comes first depends on evaluation / construction order (a flood fill raises when it is
        # constructed, the live one when it is evaluated), not on any cache
        return True
    x, y = a[1], b[1]
    if isinstance(x, tuple):
        return len(x) == len(y) and all(np.shape(p) == np.shape(q) and np.array_equal(p, q, equal_nan=True) for p, q in zip(x, y))
    if np.shape(x) != np.shape(y):
        return False
    try:
        return bool(np.array_equal(x, y, equal_nan=True))
    except TypeError:
        return bool(np.array_equal(x, y))


def show(o):
    if o[0] == 'err':
        return 'raises ' + o[1]
    x = o[1]
    if isinstance(x, tuple):
        return [np.asarray(p).tolist() for p in x]
    x = np.asarray(x)
    return x.astype(int).ravel().tolist() if x.dtype == bool else x.ravel().tolist()


def rebuild(state):
    """a freshly CONSTRUCTED state with the current parameters of `state`: replaying the mutations on newly built objects is not enough
    for states that compute and remember something when they are constructed (FloodFillSubsetState fills at construction)"""
    from glue.core.subset import MultiOrState
    if hasattr(state, 'states'):
        return MultiOrState([rebuild(c) for c in state.states])
    if hasattr(state, 'state1'):
        if state.state2 is None:
            return type(state)(rebuild(state.state1))
        return type(state)(rebuild(state.state1), rebuild(state.state2))
    return state.copy()


def do_request(W, op, fresh=False):
    """run one request on world W; returns (outcome, model request or None).  fresh: the selection is constructed anew first"""
    k = op[0]
    if fresh and k in ('eval', 'stat', 'hist'):
        sp, ob0 = W.target(op[1])
        try:
            ob = rebuild(ob0)
        except Exception as e:
            return ('err', type(e).__name__), None
        d = W.datas[op[2]]
        if k == 'eval':
            v = W.views[op[2]][op[3]][0]
            return outcome(lambda: d.get_mask(ob, view=v)), None
        if k == 'stat':
            return outcome(lambda: d.compute_statistic(op[4], d.id[op[3]], subset_state=ob)), None
        return outcome(lambda: d.compute_histogram([d.id[op[3]]], range=[[-2.5, 6.5]], bins=[op[4]], subset_state=ob)), None
    if k == 'eval':
        _, tgt, di, vi, via, form = op
        sp, ob = W.target(tgt)
        d = W.datas[di]
        v, hk = W.views[di][vi]
        if via == 'state':
            if form == FKW:
                f = lambda: ob.to_mask(d, view=v)
            elif form == FPOS:
                f = lambda: ob.to_mask(d, v)
            else:
                f = lambda: ob.to_mask(d)
        elif via == 'data':
            f = lambda: d.get_mask(ob, view=v)
        else:       # the subset of the group on this data
            grp = W.groups.get(tgt[1]) if tgt[0] == 'tree' else None
            if grp is None or (tgt[0] == 'tree' and tgt[2] % len(W.nodes(tgt[1])) != 0):
                f = lambda: d.get_mask(ob, view=v)
            else:
                sub = [s for s in grp.subsets if s.data is d][0]
                f = lambda: sub.to_mask(view=v)
        return outcome(f), (sp, ob, di, vi, hk, form)
    if k == 'stat':
        _, tgt, di, comp, stat = op
        sp, ob = W.target(tgt)
        d = W.datas[di]
        req = None if type(ob).__name__ in ('SliceSubsetState', 'PixelSubsetState') else (sp, ob, di, 0, True, FPOS)
        return outcome(lambda: d.compute_statistic(stat, d.id[comp], subset_state=ob)), req
    if k == 'hist':
        _, tgt, di, comp, bins = op
        sp, ob = W.target(tgt)
        d = W.datas[di]
        return outcome(lambda: d.compute_histogram([d.id[comp]], range=[[-2.5, 6.5]], bins=[bins], subset_state=ob)), (sp, ob, di, 0, True, FKW)
    if k == 'derived':
        _, di, which = op
        d = W.datas[di]
        if which == 'z':
            return outcome(lambda: W.datas[0][W.datas[0].id['z']]), None
        other = W.datas[1 - di]
        name = {0: 'u', 1: 'x'}[di] if which == 'cross' else {0: 'w', 1: 'y'}[di]
        return outcome(lambda: d[other.id[name]]), None
    raise ValueError(op)


class Listener:
    """hub listener that evaluates masks while NumericalDataChangedMessage is being delivered"""

    def __init__(self, W, reqs):
        from glue.core.hub import HubListener
        from glue.core.message import NumericalDataChangedMessage

        outer = self

        class L(HubListener):
            def notify(self, msg):
                outer.fire()
        self.W, self.reqs, self.results = W, reqs, []
        self.l = L()
        W.dc.hub.subscribe(self.l, NumericalDataChangedMessage, handler=self.l.notify)

    def fire(self):
        self.results.append([do_request(self.W, r) for r in self.reqs])


# ------------------------------------------------------------------ one history
def run_history(R, case, ctab, check_fresh=True):
    """case: dict(seed, stream, i, plan?, ops, listener).  Returns result dict."""
    C1.clear_all_caches()
    res = {'oracle': [], 'known': [], 'line': None, 'impl': [], 'fresh': [], 'ismask': []}
    W = World(case['seed'], case['stream'], case['i'], plan=case.get('plan'))
    lreqs = [tuple(r) for r in case.get('listener', [])]
    listener = Listener(W, lreqs) if lreqs else None
    ids = C1.Ids()
    slots = {}          # id(leaf object) -> slot
    keep = []

    def slot(o):
        if id(o) not in slots:
            slots[id(o)] = len(slots)
            keep.append(o)
        return slots[id(o)]
    for l in W.leaf_objects():
        slot(l)
    pver = {}
    dver = [0]
    lver = [0]
    fresh_tab = {}
    model_ops = []
    pending_setattr = {}        # id(leaf obj) -> True : assigned since the caches were last dropped
    stop_model = [False]
    last_results = {}

    def wire5(sp, ob):
        """like C1.wire but the leaf number is the slot of the leaf OBJECT"""
        name = type(ob).__name__
        if sp[0] == 'leaf':
            return (10, [ids(ob), ctab[name][0], slot(ob)])
        if sp[0] in ('and', 'or', 'xor'):
            return (11, [ids(ob), ctab[name][0], wire5(sp[1], ob.state1), wire5(sp[2], ob.state2)])
        if sp[0] == 'not':
            return (12, [ids(ob), ctab[name][0], wire5(sp[1], ob.state1)])
        return (13, [ids(ob), ctab[name][0]] + [wire5(c, r) for c, r in zip(sp[1], ob.states)])

    def record_fresh(FW, fobj_of, req):
        """fresh results of the elementary states under the requested (data, view), from the fresh world"""
        sp, ob, di, vi, hk, form = req
        for l in leaves_under(ob):
            fl = fobj_of(l)
            s = slot(l)
            key = (s, pver.get(s, 0), dver[0], lver[0], di, vi)
            if key in fresh_tab:
                continue
            v = FW.views[di][vi][0]
            with isolated_caches():
                o = outcome(lambda: fl.copy().to_mask(FW.datas[di], v))
            if o[0] == 'ok' and (not isinstance(o[1], np.ndarray) or o[1].dtype != bool):
                o = ('err', 'NotAMask')
            fresh_tab[key] = o
            if o[0] == 'ok':
                try:
                    want = C1.view_shape_of(FW.datas[di], v)
                except Exception:
                    want = None
                if o[1].shape != want:
                    # a part whose mask has not the shape of the data (a state built for the shape the dataset had before
                    # update_values_from_data): numpy broadcasting decides what happens; the model stops here
                    stop_model[0] = True

    def fresh_for(t, op):
        """evaluate request op on a fresh world at time t; also record the fresh leaf results the model needs"""
        with isolated_caches():
            FW = fresh_world(case, t)
            live_leaves = W.leaf_objects()
            fresh_leaves = FW.leaf_objects()
            if len(live_leaves) != len(fresh_leaves):
                raise RuntimeError('fresh world has a different structure')
            mp = {id(a): b for a, b in zip(live_leaves, fresh_leaves)}
            o, freq = do_request(FW, op, fresh=True)
        return o, FW, (lambda l: mp[id(l)])

    def classify(t, op, live, fresh, req):
        """oracle verdict for one request"""
        if same_outcome(live, fresh):
            return
        what = 'op %d %r: live objects give %s, freshly constructed objects give %s' % (t, op, show(live), show(fresh))
        # candidate for the known finding: an attribute of a state under the requested selection was assigned since the
        # caches were last dropped.  It is the known finding only if the stale result is exactly the one the model (which
        # knowingly has no invalidation on assignment) predicts for this request; decided once the model has run.
        if req is not None and any(id(l) in pending_setattr for l in leaves_under(req[1])):
            res['known'].append((what, len(res['impl']), op[0] in ('eval', 'listener')))
            return
        res['oracle'].append(what)

    tops_reach = lambda di: attached_classes(W, di, ctab)
    for t, op in enumerate(case['ops']):
        op = tuple(op)
        if op[0] in MUTATIONS:
            # model bookkeeping BEFORE the mutation (which leaves are affected is a property of the live structure)
            mops = []
            if op[0] in ('update_components', 'update_values'):
                tops, reach = tops_reach(op[1])
                mops.append(['update', 2 if op[0] == 'update_components' else 3, tops, reach])
            elif op[0] == 'move_to':
                sp, ob = W.target(op[1])
                try:
                    cen = ob.center()
                except Exception:
                    cen = None
                if cen is not None:         # otherwise apply_mutation does not call move_to at all
                    aff = sharers(W, leaves_under(ob))
                    mops.append(['bump', 4, [slot(l) for l in aff]])
            elif op[0] == 'setattr':
                sp, ob = W.target(op[1])
                if sp[0] == 'leaf':
                    aff = sharers(W, [ob]) if (type(ob).__name__ in ('RoiSubsetState', 'RoiSubsetStateNd') and op[2] % 3 != 0) else [ob]
                    mops.append(['bump', 5, [slot(l) for l in aff]])
                    for l in aff:
                        pending_setattr[id(l)] = True
            elif op[0] in ('add_link', 'remove_link'):
                # adding a link that is active / removing one that is not does nothing at all
                effective = ((op[1] in W.links and op[1] not in W.active_links) if op[0] == 'add_link' else op[1] in W.active_links)
                if effective:
                    mops.append(['link', 6 if op[0] == 'add_link' else 7])
                    if op[1] == 'pixel':
                        mops.append(['link', 8])
            elif op[0] == 'replace_state':
                mops.append(['noop', 9])
            elif op[0] in ('remove_component', 'replace_component'):
                dd = W.datas[op[1]]
                pool = dd.main_components + (dd.derived_components if op[0] == 'remove_component' else [])
                if any(c.label == op[2] for c in pool):
                    mops.append(['values', 10 if op[0] == 'remove_component' else 11])
            if listener:
                listener.results = []
            try:
                apply_mutation(W, op)
            except Exception as e:
                # the mutation itself is not applicable (move_to with the wrong arity on a mixed composite, a flood fill whose
                # start is outside the new shape, ...): not a question of staleness; the history ends here
                res['truncated'] = 'op %d %r raised %s' % (t, op, type(e).__name__)
                break
            for l in W.leaf_objects():
                slot(l)
            # everything except attribute assignment drops the caches in the repaired code
            if op[0] in ('update_components', 'update_values', 'move_to', 'add_link', 'remove_link', 'remove_component', 'replace_component') and mops:
                if policy_clears_all(op[0]):
                    pending_setattr.clear()
            for m in mops:
                if m[0] == 'update':
                    dver[0] += 1
                    lres = []
                    lmodel = []
                    fired = listener.results[-1] if (listener and listener.results) else []
                    for (lo, lreq), lop in zip(fired, lreqs):
                        fo, FW, fobj = fresh_for(t + 1, lop)
                        if lreq is not None and not stop_model[0]:
                            record_fresh(FW, fobj, lreq)
                        if lreq is not None and not stop_model[0]:
                            lmodel.append((0, [lreq[2], lreq[3], 1 if lreq[4] else 0, lreq[5], wire5(lreq[0], lreq[1])]))
                            classify(t, ('listener',) + lop, lo, fo, lreq)
                            res['impl'].append(lo)
                            res['fresh'].append(fo)
                            res['ismask'].append(True)
                        else:
                            classify(t, ('listener',) + lop, lo, fo, lreq)
                    if not stop_model[0]:
                        model_ops.append((m[1], [(0, m[2]), (0, m[3]), (0, lmodel)]))
                elif m[0] == 'bump':
                    for s in m[2]:
                        pver[s] = pver.get(s, 0) + 1
                    if not stop_model[0]:
                        model_ops.append((m[1], [(0, m[2])]))
                elif m[0] == 'link':
                    lver[0] += 1
                    if not stop_model[0]:
                        model_ops.append((m[1], []))
                elif m[0] == 'values':
                    dver[0] += 1
                    if not stop_model[0]:
                        model_ops.append((m[1], []))
                elif not stop_model[0]:
                    model_ops.append((m[1], []))
            continue
        # ---- a request
        live, req = do_request(W, op)
        fo, FW, fobj = fresh_for(t, op)
        classify(t, op, live, fo, req)
        if req is not None and not stop_model[0]:
            record_fresh(FW, fobj, req)
        if req is not None and not stop_model[0]:
            model_ops.append((1, [(0, [req[2], req[3], 1 if req[4] else 0, req[5], wire5(req[0], req[1])])]))
            res['impl'].append(live)
            res['fresh'].append(fo)
            res['ismask'].append(op[0] == 'eval')
    ft = []
    for (s, p, dv, lv, di, vi), o in sorted(fresh_tab.items()):
        ft.append((0, [s, p, dv, lv, di, vi, ((1, [C1.bits(o[1])]) if o[0] == 'ok' else (0, []))]))
    res['line'] = enc((1, [(0, ft), (0, model_ops)]))
    res['nops'] = len(case['ops'])
    res['keep'] = (W, keep, ids)
    return res


_POLICY = {}


def policy_clears_all(kind):
    p = {'update_components': 0, 'update_values': 1, 'move_to': 3, 'add_link': 4, 'remove_link': 4, 'remove_component': 6, 'replace_component': 7}[kind]
    return _POLICY.get(p, (None, None))[0] == 2


def attached_classes(W, di, ctab):
    """function caches of the top-level states of the subsets attached to data di, and of every state reachable from them"""
    tops, reach = [], []
    d = W.datas[di]
    for s in d.subsets:
        st = s.subset_state
        f = ctab.get(type(st).__name__, (0, None))[1]
        if f is not None:
            tops.append(f)
        stack = [st]
        while stack:
            o = stack.pop()
            f = ctab.get(type(o).__name__, (0, None))[1]
            if f is not None:
                reach.append(f)
            if hasattr(o, 'states'):
                stack.extend(o.states)
            elif hasattr(o, 'state1'):
                stack.append(o.state1)
                if o.state2 is not None:
                    stack.append(o.state2)
    return sorted(set(tops)), sorted(set(reach))


def mask_of(o):
    return None if o[0] == 'err' else (np.asarray(o[1]).astype(int).ravel().tolist() if isinstance(o[1], np.ndarray) and o[1].dtype == bool else 'notmask')


def model_results(out):
    if is_err(out) or tag(out) != 1:
        return None, None
    got, fresh = kids(out)

    def dec(t):
        return to_zs(kids(t)[0]) if tag(t) == 1 else None
    return [dec(k) for k in kids(got)], [dec(k) for k in kids(fresh)]


def is_masklike(o):
    return o[0] == 'err' or (isinstance(o[1], np.ndarray) and o[1].dtype == bool)


def compare_model(res, out):
    got, fresh = model_results(out)
    if got is None:
        return ['model rejected the case: %r' % (out,)]
    if len(got) != len(res['impl']):
        return ['model returned %d results for %d requests' % (len(got), len(res['impl']))]
    bad = []
    for j, o in enumerate(res['impl']):
        fo = res['fresh'][j]
        # statistics / histograms go through the same masks: only mask-valued requests are compared
        if res['ismask'][j] and is_masklike(o) and got[j] != mask_of(o):
            bad.append('request %d: model %s, implementation %s' % (j, got[j], mask_of(o)))
        if res['ismask'][j] and is_masklike(fo) and fresh[j] != mask_of(fo):
            bad.append('request %d: fresh evaluation in the model %s, on fresh objects %s' % (j, fresh[j], mask_of(fo)))
        if bad:
            break
    return bad[:2]


# ------------------------------------------------------------------ generators
def random_history(rng, W, n):
    ops = []
    ntrees = len(W.specs)
    extra = 0

    def tgt():
        if rng.random() < 0.8:
            j = rng.randrange(ntrees + extra)
            return ('tree', j, 0 if rng.random() < 0.6 else rng.randrange(8))
        return ('leaf', rng.randrange(len(W.leaves)))
    for _ in range(n):
        k = rng.random()
        if k < 0.42:
            di = 0 if rng.random() < 0.8 else 1
            via = rng.choice(['state', 'data', 'data', 'subset'])
            form = rng.choice([FKW, FPOS, FNONE]) if via == 'state' else FKW
            vi = 0 if (form == FNONE or rng.random() < 0.7) else 1
            ops.append(('eval', tgt(), di, vi, via, form))
        elif k < 0.50:
            ops.append(('stat', tgt(), 0, rng.choice(['x', 'y', 'k']), rng.choice(['sum', 'mean', 'maximum', 'minimum'])))
        elif k < 0.56:
            ops.append(('hist', tgt(), 0, rng.choice(['y', 'k']), rng.choice([3, 4])))
        elif k < 0.60:
            ops.append(('derived', rng.choice([0, 1]), rng.choice(['z', 'cross', 'cross2'])))
        elif k < 0.70:
            ops.append(('update_components', 0 if rng.random() < 0.8 else 1, rng.randrange(1000)))
        elif k < 0.75:
            ops.append(('update_values', 0 if rng.random() < 0.8 else 1, rng.randrange(1000), rng.random() < 0.5))
        elif k < 0.83:
            ops.append(('move_to', tgt(), rng.choice([-1.5, 1.0, 2.5])))
        elif k < 0.88:
            t = tgt()
            ops.append(('setattr', t if t[0] == 'leaf' else ('tree', t[1], rng.randrange(12)), rng.randrange(6)))
        elif k < 0.94:
            if rng.random() < 0.15:
                ops.append(('remove_component', 0, rng.choice(['y', 'k', 'z'])) if rng.random() < 0.4 else
                           ('replace_component', rng.choice([0, 0, 1]), rng.choice(['x', 'y', 'u']), rng.randrange(100)))
            else:
                ops.append((rng.choice(['add_link', 'add_link', 'remove_link']), rng.choice([0, 1, 2, 'pixel', 'chainA', 'chainB', 'direct1', 0, 'chainA', 'chainB'])))
        else:
            grp = [j for j in range(ntrees) if W.attached[j]]
            ops.append(('replace_state', rng.choice(grp) if grp and rng.random() < 0.7 else -1,
                        C1.random_spec(rng, len(W.leaves), rng.choice([1, 2, 3]))))
            extra += 1
    return ops


def case_json(case):
    def j(x):
        if isinstance(x, tuple) and x and x[0] in ('leaf', 'and', 'or', 'xor', 'not', 'multi') and not (len(x) == 2 and isinstance(x[1], int) and x[0] == 'leaf' and False):
            return x
        return x
    out = dict(case)
    out.pop('plan', None)
    out['ops'] = [list(o) for o in case['ops']]
    return out


def shrink_history(R, case, ctab, pred):
    ops = list(case['ops'])
    budget = 40
    improved = True
    while improved and budget > 0:
        improved = False
        for j in range(len(ops) - 1, -1, -1):
            if ops[j][0] == 'replace_state':
                continue
            cand = dict(case, ops=ops[:j] + ops[j + 1:])
            budget -= 1
            if budget <= 0:
                break
            try:
                r = run_history(R, cand, ctab)
            except Exception:
                continue
            if pred(r):
                ops = cand['ops']
                improved = True
                break
    return dict(case, ops=ops)


def process(R, cases, ctab, stream):
    results, lines = [], []
    for case in cases:
        try:
            res = run_history(R, case, ctab)
        except Exception as e:
            import traceback
            res = {'oracle': ['running the history raised %s: %s' % (type(e).__name__, traceback.format_exc()[-400:])], 'known': [], 'line': None}
        results.append(res)
        if res.get('line'):
            lines.append(res['line'])
    outs = iter(R.model(lines)) if (lines and R.model_available) else iter([])
    for case, res in zip(cases, results):
        out = next(outs) if (res.get('line') and R.model_available) else None
        got = model_results(out)[0] if out is not None else None
        known = []
        for what, j, maskreq in res.get('known', []):
            if got is not None and maskreq and j < len(got) and j < len(res['impl']):
                if got[j] == mask_of(res['impl'][j]):
                    known.append(what)
                else:
                    res['oracle'].append(what + ' (a state under the selection was assigned to, but the stale result is not the one the missing invalidation explains)')
            else:
                known.append(what)
        res['known'] = known
        kinds = [o[0] for o in case['ops']]
        muts = [k for k in kinds if k in MUTATIONS]
        R.count((stream, case['seed'] if not stream.startswith('exhaustive') else 0, case['i'] if not stream.startswith('exhaustive') else 0, repr(case['ops'])),
                nontrivial=bool(muts) and any(k not in MUTATIONS for k in kinds), stream=stream,
                history_len=min(len(kinds), 30) // 5 * 5, mutations=min(len(muts), 12),
                outcome='oracle-fail' if res['oracle'] else ('known-finding' if res['known'] else 'ok'))
        for k in kinds:
            R.hist['op_kind'][k] += 1
        if res['oracle']:
            c2 = case
            if R.hist['shrunk']['cases'] < 3 and stream == 'random':
                R.hist['shrunk']['cases'] += 1
                try:
                    c2 = shrink_history(R, case, ctab, lambda r: bool(r.get('oracle')))
                    r2 = run_history(R, c2, ctab)
                    if r2.get('oracle'):
                        res = dict(res, oracle=r2['oracle'])
                    else:
                        c2 = case
                except Exception:
                    c2 = case
            R.fail('oracle', case_json(c2), res['oracle'][:3])
        elif res['known']:
            R.fail('oracle', case_json(case), res['known'][:2], key=KEY_SETATTR)
        if out is not None:
            bad = compare_model(res, out)
            if bad:
                R.fail('correspondence', case_json(case), bad)
        res.pop('keep', None)
    C1.clear_all_caches()


# exhaustive stream: fixed world
def exhaustive_plan():
    from glue.core import subset as S
    from glue.core import roi as RO

    def leaves(W):
        d0, d1 = W.d0, W.d1
        x, y = d0.id['x'], d0.id['y']
        return [S.InequalitySubsetState(x, 1, operator.gt), S.InequalitySubsetState(x, 3, operator.lt),
                S.RangeSubsetState(0.5, 2.5, y), S.RoiSubsetState(x, y, RO.RectangularROI(-0.5, 2.5, -0.5, 2.5)),
                S.InequalitySubsetState(d1.id['u'], 1, operator.ge),
                # keyed cache of the flood fill over a DERIVED attribute (z = x + y), over a parsed one and over a linked one (u <- x)
                S.FloodFillSubsetState(d0, d0.id['z'], (3,), 1.5), S.InequalitySubsetState(d0.id['p'], 4, operator.gt),
                S.FloodFillSubsetState(d0, d1.id['u'], (3,), 1.6), S.FloodFillSubsetState(d0, d0.id['p'], (4,), 1.4)]
    def make_d0():
        from glue.core import Data
        from glue.core.component import CategoricalComponent
        d = Data(label='d')
        d.add_component(np.array([-1.0, 0.0, 1.5, 2.0, 2.5, 3.5, 4.0, 6.0]), 'x')
        d.add_component(np.array([0.0, 1.0, 2.0, 3.0, 0.0, 1.0, 2.0, 3.0]), 'y')
        d.add_component(np.array([0.0, 1.0, 2.0, 3.0, 4.0, 0.0, 1.0, 2.0]), 'k')
        d.add_component(CategoricalComponent(np.array(list('abcaabca'))), 'c')
        d['z'] = d.id['x'] + d.id['y']
        from glue.core.component_id import ComponentID
        from glue.core.parse import ParsedCommand, ParsedComponentLink
        d.add_component_link(ParsedComponentLink(ComponentID('p', parent=d), ParsedCommand('{a} * 2 + 1', {'a': d.id['x']})))
        return d
    return {'ndim': 1, 'same_shape': True, 'leaves': leaves, 'make_d0': make_d0, 'links0': [0],
            'specs': [('and', ('leaf', 0), ('leaf', 1)), ('not', ('leaf', 2)), ('multi', [('leaf', 3), ('leaf', 4)]),
                      ('and', ('leaf', 5), ('leaf', 6)), ('xor', ('leaf', 7), ('leaf', 8))],
            'attached': [True, False, True, False, True]}


def links_plan():
    from glue.core import subset as S
    base = exhaustive_plan()

    def leaves(W):
        d0, d1 = W.d0, W.d1
        return [S.InequalitySubsetState(d0.id['x'], 1, operator.gt), S.InequalitySubsetState(d0.id['x'], 3, operator.lt),
                S.InequalitySubsetState(d1.id['u'], 1, operator.ge), S.SliceSubsetState(d0, [slice(0, 3)]),
                S.RangeSubsetState(0.5, 2.5, d0.id['y'])]
    return dict(base, leaves=leaves,
                specs=[('and', ('leaf', 0), ('leaf', 1)), ('multi', [('leaf', 4), ('leaf', 2)]), ('not', ('leaf', 3)), ('or', ('leaf', 2), ('leaf', 0))],
                attached=[True, True, False, False])


def stream_links(R, ctab):
    plan = links_plan()
    alphabet = [('eval', ('tree', 0, 0), 1, 0, 'data', FKW),        # (x>1)&(x<3) on the OTHER dataset: needs x <-> u
                ('eval', ('tree', 1, 0), 0, 0, 'subset', FKW),      # multi-or(range(y), u >= 1) on d0: needs the link for u
                ('eval', ('tree', 2, 0), 1, 0, 'state', FPOS),      # ~slice(d0) on d1: depends on the datasets being pixel aligned
                ('eval', ('tree', 3, 0), 0, 0, 'data', FKW),        # (u>=1)|(x>1) on d0
                ('remove_link', 0), ('add_link', 0), ('add_link', 'pixel'), ('remove_link', 'pixel'), ('update_components', 1, 5)]
    L = R.pick(3, 4)
    hs = []
    for n in range(1, L + 1):
        for h in itertools.product(alphabet, repeat=n):
            if h[-1][0] == 'eval':
                hs.append(h)
    cases = [{'seed': 0, 'stream': 'exhaustive-links', 'i': 0, 'plan': plan, 'ops': list(h), 'listener': []} for h in hs]
    for k in range(0, len(cases), 300):
        process(R, cases[k:k + 300], ctab, 'exhaustive-links')
    R.stream('exhaustive-links', cases=len(cases), exhaustive=True,
             bound='all %d histories of length <= %d that end in an evaluation over 4 evaluations of selections that need a link (a selection of d evaluated on e, '
                   'a multi-or with an attribute of e evaluated on d, ~slice(d) on e, an or of both) and 5 mutations (remove / add the identity link, add / remove pixel '
                   'links, update_components on e); the identity link is active at the start' % (len(cases), L))


def reroute_plan(direct_active):
    """e.u is reachable from d through two routes that give DIFFERENT values: d.x -> (x10) -> f.z -> e.u and a direct link d.x -> e.u"""
    from glue.core import subset as S
    base = exhaustive_plan()

    def leaves(W):
        d0, d1 = W.d0, W.d1
        return [S.InequalitySubsetState(d1.id['u'], 25, operator.gt), S.InequalitySubsetState(d0.id['x'], 100, operator.gt),
                S.RangeSubsetState(15, 45, d1.id['u'])]
    return dict(base, leaves=leaves, links0=['chainA', 'chainB'] + (['direct1'] if direct_active else []),
                specs=[('or', ('leaf', 0), ('leaf', 1)), ('not', ('leaf', 0)), ('multi', [('leaf', 2), ('leaf', 1)])],
                attached=[True, False, False])


def stream_reroute(R, ctab):
    alphabet = [('eval', ('tree', 0, 0), 0, 0, 'subset', FKW), ('eval', ('tree', 1, 0), 0, 0, 'state', FPOS), ('eval', ('tree', 2, 0), 0, 0, 'data', FKW),
                ('add_link', 'direct1'), ('remove_link', 'direct1'), ('add_link', 0), ('remove_link', 0), ('remove_link', 'chainB'), ('add_link', 'chainB')]
    L = R.pick(3, 4)
    total = 0
    for direct_active in (False, True):
        plan = reroute_plan(direct_active)
        hs = []
        for n in range(2, L + 1):
            for h in itertools.product(alphabet, repeat=n):
                if h[-1][0] == 'eval' and any(o[0] != 'eval' for o in h):
                    hs.append(h)
        cases = [{'seed': 0, 'stream': 'exhaustive-reroute-%d' % int(direct_active), 'i': 0, 'plan': plan, 'ops': list(h), 'listener': []} for h in hs]
        total += len(cases)
        for k in range(0, len(cases), 300):
            process(R, cases[k:k + 300], ctab, 'exhaustive-reroute')
    R.stream('exhaustive-reroute', cases=total, exhaustive=True,
             bound='all histories of length <= %d with a mutation that end in an evaluation, on two worlds (direct one-way link active at the start or not; the two-hop '
                   'x10 route always active at the start): 3 evaluations on d of selections over e.u, 6 link mutations (add / remove the direct one-way link, the two-way '
                   'identity link, the second hop): the link manager re-routes e.u without changing which attributes are derivable' % L)


def stream_exhaustive(R, ctab):
    plan = exhaustive_plan()
    alphabet = [('eval', ('tree', 0, 0), 0, 0, 'data', FKW), ('eval', ('tree', 1, 0), 0, 0, 'state', FPOS), ('eval', ('tree', 2, 0), 0, 0, 'subset', FKW),
                ('eval', ('tree', 3, 0), 0, 0, 'data', FKW), ('stat', ('tree', 4, 0), 0, 'y', 'sum'),
                ('update_components', 0, 2), ('update_values', 0, 2, True), ('move_to', ('tree', 1, 0), 1.0), ('move_to', ('tree', 2, 1), 1.0),
                ('setattr', ('tree', 0, 1), 0), ('remove_link', 0), ('add_link', 0),
                ('remove_component', 0, 'y'), ('replace_component', 0, 'x', 3)]
    L = R.pick(3, 4)
    hs = []
    for n in range(1, L + 1):
        for h in itertools.product(alphabet, repeat=n):
            if h[-1][0] in ('eval', 'stat'):
                hs.append(h)
    full = len(hs)
    limit = R.pick(600, 3000)
    if len(hs) > limit:
        hs = C1.case_rng(0, 'c05-exh').sample(hs, limit)
    cases = [{'seed': 0, 'stream': 'exhaustive', 'i': 0, 'plan': plan, 'ops': list(h),
              'listener': [('eval', ('tree', 0, 0), 0, 0, 'data', FKW)]} for h in hs]
    for k in range(0, len(cases), 300):
        process(R, cases[k:k + 300], ctab, 'exhaustive')
    R.stream('exhaustive', cases=len(cases), exhaustive=len(cases) == full,
             bound='%d of the %d histories of length <= %d that end in an evaluation, over 5 requests ((x>1)&(x<3) attached, ~range free, '
                   'multi-or(roi, cross-dataset inequality) attached, floodfill(derived z)&(parsed p>4), sum over floodfill(linked u)^floodfill(parsed p)) and 9 mutations (remove_component y, add_component replacing x, update_components, update_values_from_data with a new shape, move_to on two '
                   'selections, a setter inside a composite, remove/add the identity link, active at the start); a hub listener evaluates during every values update' % (len(cases), full, L))


def stream_random(R, ctab):
    n = R.pick(170, 1300)
    cases = []
    for i in range(n):
        rng = C1.case_rng(R.seed, 'c05-random', i, 'ops')
        try:
            W = World(R.seed, 'c05-random', i)
        except Exception as e:
            continue
        if not W.leaves:
            continue
        ops = random_history(rng, W, rng.randint(3, 25))
        lreq = []
        if rng.random() < 0.6:
            lreq = [('eval', ('tree', rng.randrange(len(W.specs)), 0), 0, 0, 'data', FKW)]
        cases.append({'seed': R.seed, 'stream': 'c05-random', 'i': i, 'ops': ops, 'listener': lreq})
        if len(cases) >= 100:
            process(R, cases, ctab, 'random')
            cases = []
    if cases:
        process(R, cases, ctab, 'random')
    R.sample({'random history': [['eval', ['tree', 0, 0], 0, 0, 'data', 0], ['update_components', 0, 17], ['eval', ['tree', 0, 0], 0, 0, 'data', 0],
                                 ['move_to', ['tree', 1, 2], 1.0], ['stat', ['tree', 1, 0], 0, 'x', 'sum'], ['add_link', 0], ['eval', ['leaf', 4], 0, 0, 'state', 1]]})
    R.stream('random', cases=n, exhaustive=False,
             bound='histories of 3-25 operations on worlds of two datasets (1-3 dims), 2-8 elementary states of 20 kinds, 1-4 selections of depth <= 4 '
                   '(attached as subset groups or free): masks through Data.get_mask / Subset.to_mask / state.to_mask with views, compute_statistic, '
                   'compute_histogram, derived and linked attribute values; update_components, update_values_from_data (new shape), move_to (also inside composites), '
                   'setters and in-place ROI edits, add/remove link (incl. pixel links), subset_state replacement')


def stream_policy(R, ctab):
    """the regenerated policy table, as the model reads it"""
    global _POLICY
    _POLICY = {}
    if not R.model_available:
        return
    outs = R.model([enc((3, [p])) for p in range(8)])
    names = ['update_components', 'update_values_from_data', 'attribute assignment', 'move_to', 'link change', 'pixel alignment change',
             'remove_component', 'add_component replacing an attribute']
    for p, o in enumerate(outs):
        if tag(o) == 1:
            _POLICY[p] = (kids(o)[0][0], bool(kids(o)[1][0]), bool(kids(o)[2][0]))
        R.count(('policy', p), nontrivial=True, stream='policy')
    R.note('cache-clearing policy regenerated from the source: ' + ', '.join(
        '%s: %s' % (n, ('scope %d %s the broadcast%s' % (_POLICY[p][0], 'before' if _POLICY[p][1] else 'AFTER',
                                                          '' if _POLICY[p][2] else ' UNDER A CONDITION')) if p in _POLICY else 'nothing cleared')
        for p, n in enumerate(names)))
    R.stream('policy', cases=8, exhaustive=True, bound='the eight mutation paths')


# ---- histogram viewer layer state
def stream_viewer(R):
    n = R.pick(80, 500)
    done = 0
    try:
        from glue.viewers.histogram.viewer import SimpleHistogramViewer
        from glue.core.application_base import Application
    except Exception as e:
        R.note('histogram viewer not importable headlessly: %s' % e)
        return

    # rendering is matplotlib's business and costs a second per viewer: switch it off for this stream
    from matplotlib.backends.backend_agg import FigureCanvasAgg
    from matplotlib.backend_bases import FigureCanvasBase
    saved_draw = (FigureCanvasAgg.draw, FigureCanvasBase.draw_idle)
    FigureCanvasAgg.draw = lambda self, *a, **k: None
    FigureCanvasBase.draw_idle = lambda self, *a, **k: None

    def build(seed, i, muts):
        from glue.core import Data, DataCollection
        rng = C1.case_rng(seed, 'viewer', i, 'w')
        n0 = rng.randint(5, 9)
        d = Data(x=np.array([float(rng.randint(0, 6)) for _ in range(n0)]), y=np.array([float(rng.randint(0, 4)) for _ in range(n0)]), label='d')
        dc = DataCollection([d])
        app = Application(dc)
        g = dc.new_subset_group(subset_state=(d.id['x'] > 1) & (d.id['y'] < 3))
        # the fresh construction: the objects are mutated first, the viewer is created on the mutated objects and
        # computes every histogram for the first time
        for m in muts:
            if m[0] == 'update':
                r2 = C1.case_rng(seed, 'viewer', i, 'u', m[1])
                d.update_components({d.id['x']: np.array([float(r2.randint(0, 6)) for _ in range(n0)])})
            elif m[0] == 'state':
                g.subset_state = (d.id['x'] > m[1]) | (d.id['y'] > 2)
        v = app.new_data_viewer(SimpleHistogramViewer)
        v.add_data(d)
        v.state.x_att = d.id['x']
        v.state.hist_x_min, v.state.hist_x_max, v.state.hist_n_bin = -0.5, 6.5, 7
        for m in muts:
            if m[0] == 'bins':
                v.state.hist_n_bin = m[1]
            elif m[0] == 'att':
                v.state.x_att = d.id[m[1]]
                v.state.hist_x_min, v.state.hist_x_max, v.state.hist_n_bin = -0.5, 6.5, 7
        return v

    def read(v):
        out = []
        for layer in v.layers:
            try:
                e, h = layer.state.histogram
                out.append((np.array(e), np.array(h)))
            except Exception as ex:
                out.append(type(ex).__name__)
        return out
    for i in range(n):
        rng = C1.case_rng(R.seed, 'viewer', i, 'ops')
        muts = []
        try:
            v = build(R.seed, i, [])
            read(v)
        except Exception as e:
            R.note('histogram viewer cannot be driven headlessly: %s: %s' % (type(e).__name__, e))
            return
        bad = None
        applied = []
        for step in range(rng.randint(2, 6)):
            k = rng.random()
            m = ('update', step) if k < 0.5 else ('state', rng.choice([0, 2, 3])) if k < 0.75 else ('bins', rng.choice([4, 7, 14])) if k < 0.9 else ('att', rng.choice(['x', 'y']))
            applied.append(m)
        # live: apply one by one, reading in between (fills the caches)
        from glue.core import Data
        live = build(R.seed, i, [])
        for j, m in enumerate(applied):
            read(live)
            # re-apply mutation j on the live viewer
            d = live.state.layers[0].layer if not hasattr(live.state.layers[0].layer, 'data') else live.state.layers[0].layer.data
            if m[0] == 'update':
                r2 = C1.case_rng(R.seed, 'viewer', i, 'u', m[1])
                d.update_components({d.id['x']: np.array([float(r2.randint(0, 6)) for _ in range(d.size)])})
            elif m[0] == 'state':
                d.subsets[0].group.subset_state = (d.id['x'] > m[1]) | (d.id['y'] > 2)
            elif m[0] == 'bins':
                live.state.hist_n_bin = m[1]
            elif m[0] == 'att':
                live.state.x_att = d.id[m[1]]
                live.state.hist_x_min, live.state.hist_x_max, live.state.hist_n_bin = -0.5, 6.5, 7
            got = read(live)
            fresh = read(build(R.seed, i, applied[:j + 1]))
            same = len(got) == len(fresh) and all((isinstance(a, str) and a == b) or (not isinstance(a, str) and not isinstance(b, str) and
                                                  np.array_equal(a[0], b[0]) and np.array_equal(a[1], b[1])) for a, b in zip(got, fresh))
            if not same:
                bad = 'after %r: histograms of the live viewer %s, of a fresh viewer %s' % (
                    applied[:j + 1], [None if isinstance(a, str) else a[1].tolist() for a in got], [None if isinstance(a, str) else a[1].tolist() for a in fresh])
                break
        R.count(('viewer', R.seed, i, repr(applied)), nontrivial=True, stream='viewer')
        done += 1
        if bad:
            R.fail('oracle', {'stream': 'viewer', 'seed': R.seed, 'i': i, 'mutations': [list(m) for m in applied]}, bad)
    FigureCanvasAgg.draw, FigureCanvasBase.draw_idle = saved_draw
    import matplotlib.pyplot as plt
    plt.close('all')
    R.stream('viewer', cases=done, exhaustive=False,
             bound='headless SimpleHistogramViewer with a data layer and a subset layer: 2-6 of {update_components, subset state replaced, n_bin, x_att} with the layer '
                   'histograms read in between, compared with a viewer built from scratch on the mutated objects')


def six_minus(x):
    return 6 - x


def stream_histstate(R):
    """keyed cache of HistogramLayerState (no viewer, no layer artist): change ONE input the key has to cover -- the attribute (incl. a different
    attribute with the SAME label, reachable through a non-identity link), a limit, the number of bins, log -- keep every other key field equal,
    read the histogram, compare with freshly constructed state objects that are given the final settings once"""
    n = R.pick(80, 800)
    try:
        from glue.viewers.histogram.state import HistogramViewerState, HistogramLayerState
    except Exception as e:
        R.note('histogram viewer state not importable: %s' % e)
        return
    from glue.core import Data, DataCollection
    from glue.core.component_link import ComponentLink
    done = 0
    for i in range(n):
        rng = C1.case_rng(R.seed, 'histstate', i)
        n1, n2 = rng.randint(4, 8), rng.randint(3, 6)
        d1 = Data(x=np.array([float(rng.randint(1, 5)) for _ in range(n1)]), y=np.array([float(rng.randint(1, 5)) for _ in range(n1)]), label='catalogue 1')
        d2 = Data(x=np.array([float(rng.randint(1, 5)) for _ in range(n2)]), label='catalogue 2')
        dc = DataCollection([d1, d2])
        dc.add_link(ComponentLink([d1.id['x']], d2.id['x'], using=six_minus, inverse=six_minus))
        atts = {'x1': d1.id['x'], 'x2': d2.id['x'], 'y1': d1.id['y']}

        def make_states():
            vs = HistogramViewerState()
            vs.data_collection = dc
            l1 = HistogramLayerState(layer=d1, viewer_state=vs)
            l2 = HistogramLayerState(layer=d2, viewer_state=vs)
            vs.layers.append(l1)
            vs.layers.append(l2)
            return vs, [l1, l2]

        def apply(vs, st):
            vs.x_att = atts[st['att']]
            vs.x_log = st['log']
            vs.hist_x_min, vs.hist_x_max, vs.hist_n_bin = st['lo'], st['hi'], st['n']

        def read(layers):
            out = []
            for l in layers:
                try:
                    e, h = l.histogram
                    out.append((np.array(e, dtype=float), np.array(h, dtype=float)))
                except Exception as ex:
                    out.append(type(ex).__name__)
            return out

        def same(a, b):
            return len(a) == len(b) and all((isinstance(p, str) and p == q) or (not isinstance(p, str) and not isinstance(q, str) and
                                            np.array_equal(p[0], q[0]) and np.array_equal(p[1], q[1])) for p, q in zip(a, b))
        st = {'att': rng.choice(['x1', 'x2', 'y1']), 'log': False, 'lo': 0.5, 'hi': 5.5, 'n': 5}
        steps = [dict(st)]
        for _ in range(rng.randint(1, 5)):
            st = dict(st)
            k = rng.choice(['att', 'att', 'att', 'lo', 'hi', 'n', 'log'])
            if k == 'att':
                st['att'] = rng.choice([a for a in ['x1', 'x2', 'y1'] if a != st['att']])
            elif k == 'lo':
                st['lo'] = rng.choice([v for v in [0.5, 1.5, 2.5] if v != st['lo']])
            elif k == 'hi':
                st['hi'] = rng.choice([v for v in [5.5, 4.5, 3.5] if v != st['hi']])
            elif k == 'n':
                st['n'] = rng.choice([v for v in [5, 3, 10] if v != st['n']])
            else:
                st['log'] = not st['log']
            steps.append(st)
        vs, layers = make_states()
        bad = None
        try:
            for j, stj in enumerate(steps):
                apply(vs, stj)
                got = read(layers)
                fvs, flayers = make_states()
                apply(fvs, stj)
                fresh = read(flayers)
                if not same(got, fresh):
                    bad = 'after settings %r (previous %r): live histograms %s, freshly constructed states %s' % (
                        stj, steps[j - 1] if j else None, [p if isinstance(p, str) else p[1].tolist() for p in got],
                        [p if isinstance(p, str) else p[1].tolist() for p in fresh])
                    break
        except Exception as e:
            R.note('histstate stream stopped: %s: %s' % (type(e).__name__, e))
            return
        R.count(('histstate', R.seed, i, repr(steps)), nontrivial=len(steps) > 1, stream='histstate')
        done += 1
        if bad:
            R.fail('oracle', {'stream': 'histstate', 'seed': R.seed, 'i': i, 'steps': steps}, bad)
    R.stream('histstate', cases=done, exhaustive=False,
             bound='HistogramViewerState + HistogramLayerState for two linked catalogues that both have a column `x` (x2 = 6 - x1): 2-6 settings, each differing '
                   'from the previous one in exactly one of {x_att (x of 1, x of 2, y of 1), hist_x_min, hist_x_max, hist_n_bin, x_log}, histogram of both layers '
                   'read after each, compared with freshly constructed states')


# ---- presentation settings applied on top of a cached result (normalize / cumulative on the cached counts, ...)
PRES_OPS = [('normalize', True), ('normalize', False), ('cumulative', True), ('cumulative', False)]
PRES_KEY_OPS = [('hist_n_bin', 4), ('hist_n_bin', 8), ('x_att', 'x'), ('x_att', 'y'), ('hist_x_max', 4.0), ('hist_x_max', 3.0), ('x_log', False), ('x_log', True),
                ('hist_x_min', 0.0), ('hist_x_min', 0.5)]
PRES_DEFAULT = {'x_att': 'x', 'x_log': False, 'hist_x_min': 0.0, 'hist_x_max': 4.0, 'hist_n_bin': 8, 'normalize': False, 'cumulative': False}
PRES_ORDER = ['x_att', 'x_log', 'hist_x_min', 'hist_x_max', 'hist_n_bin', 'normalize', 'cumulative']


def pres_world(seed, i):
    """(viewer state, [data layer state, subset layer state], attribute table); i < 0: the fixed world of the exhaustive stream"""
    from glue.core import Data, DataCollection
    from glue.viewers.histogram.state import HistogramViewerState, HistogramLayerState
    if i < 0:
        xs = np.array([0.5, 0.5, 0.5, 1.5, 1.5, 2.5, 3.5, 3.5, 3.5, 3.5])
        ys = np.array([1.0, 2.0, 3.0, 1.0, 2.0, 3.0, 1.0, 2.0, 3.0, 1.5])
    else:
        rng = C1.case_rng(seed, 'presentation', i, 'w')
        n = rng.randint(6, 12)
        xs = np.array([rng.choice([0.5, 1.0, 1.5, 2.5, 3.5]) for _ in range(n)])
        ys = np.array([rng.choice([0.75, 1.0, 2.0, 3.0, 3.5]) for _ in range(n)])
    d = Data(x=xs, y=ys, label='d')
    dc = DataCollection([d])
    dc.new_subset_group(subset_state=d.id['y'] > 1.25)
    vs = HistogramViewerState()
    vs.data_collection = dc
    layers = [HistogramLayerState(layer=d, viewer_state=vs), HistogramLayerState(layer=d.subsets[0], viewer_state=vs)]
    for l in layers:
        vs.layers.append(l)
    return vs, layers, {'x': d.id['x'], 'y': d.id['y']}


def pres_set(vs, atts, name, value):
    setattr(vs, name, atts[value] if name == 'x_att' else value)


def pres_read(layers):
    """one read of every layer histogram, as the layer artist reads it: private copies of (edges, values), or the exception class"""
    out = []
    for l in layers:
        try:
            e, h = l.histogram
            out.append((np.array(e, dtype=float, copy=True), np.array(h, dtype=float, copy=True)))
        except Exception as ex:
            out.append(type(ex).__name__)
    return out


def pres_same(a, b):
    return len(a) == len(b) and all((isinstance(p, str) and p == q) or (not isinstance(p, str) and not isinstance(q, str) and
                                    p[0].shape == q[0].shape and p[1].shape == q[1].shape and
                                    np.array_equal(p[0], q[0], equal_nan=True) and np.array_equal(p[1], q[1], equal_nan=True)) for p, q in zip(a, b))


def pres_show(a):
    return [p if isinstance(p, str) else np.round(p[1], 6).tolist() for p in a]


_PRES_FRESH = {}


def pres_fresh(seed, i, settings):
    """what freshly constructed, never evaluated state objects return when they are given `settings` once (in the fixed order PRES_ORDER)
    and read once.  The objects are really constructed; the result is remembered per (world, settings) so that the same construction is
    not repeated for every history that passes through the same settings."""
    k = (seed if i >= 0 else 0, i, tuple(settings[n] for n in PRES_ORDER))
    if k not in _PRES_FRESH:
        vs, layers, atts = pres_world(seed, i)
        for n in PRES_ORDER:
            pres_set(vs, atts, n, settings[n])
        _PRES_FRESH[k] = pres_read(layers)
    return _PRES_FRESH[k]


def cache_snapshot(l):
    c = l._histogram_cache
    if c is None:
        return None
    try:
        return (c[0], tuple(np.array(a, copy=True) for a in c[1]))
    except Exception:
        return None


def pres_history(seed, i, first_read, ops):
    """run one history on ONE viewer state: [initial read]; for each op: assign the setting, read twice.  Returns (oracle failure text or None,
    correspondence remark or None, alias observations)"""
    vs, layers, atts = pres_world(seed, i)
    settings = dict(PRES_DEFAULT)
    for n in PRES_ORDER:
        pres_set(vs, atts, n, settings[n])
    bad = corr = None
    alias = set()

    def reads(t, what):
        nonlocal bad, corr
        fresh = pres_fresh(seed, i, settings)
        for k in range(2):
            before = [cache_snapshot(l) for l in layers]
            got = pres_read(layers)
            after = [cache_snapshot(l) for l in layers]
            if bad is None and not pres_same(got, fresh):
                bad = ('step %d (%s), read %d with settings %r: the live layer states give %s, freshly constructed states with the same settings give %s'
                       % (t, what, k + 1, {n: settings[n] for n in PRES_ORDER}, pres_show(got), pres_show(fresh)))
            # the cached value is immutable: a read under an unchanged key leaves the cached arrays as they were
            for b, a in zip(before, after):
                if corr is None and b is not None and a is not None and b[0] == a[0] and not all(
                        p.shape == q.shape and np.array_equal(p, q, equal_nan=True) for p, q in zip(b[1], a[1])):
                    corr = ('step %d (%s), read %d: reading the histogram changed the cached (edges, counts) under the unchanged key %r: counts before %s, after %s'
                            % (t, what, k + 1, b[0][1:], np.round(b[1][1], 6).tolist(), np.round(a[1][1], 6).tolist()))
        for l in layers:
            try:
                e, h = l.histogram
                c = l._histogram_cache[1]
                alias.add(('edges', bool(np.shares_memory(e, c[0]))))
                alias.add(('values', bool(np.shares_memory(h, c[1]))))
            except Exception:
                pass
    if first_read:
        reads(0, 'initial settings')
    for t, (name, value) in enumerate(ops):
        pres_set(vs, atts, name, value)
        settings[name] = value
        # the per-attribute helpers of the viewer state may re-derive limits / bins when x_att or x_log changes: the settings of the history are
        # (re-)assigned in the fixed order afterwards, as for the fresh states (assigning an equal value changes nothing, so the key stays the same
        # across normalize / cumulative assignments)
        for n in PRES_ORDER:
            pres_set(vs, atts, n, settings[n])
        reads(t + 1, '%s = %r' % (name, value))
        if bad:
            break
    return bad, corr, alias


def stream_presentation(R):
    try:
        from glue.viewers.histogram.state import HistogramViewerState, HistogramLayerState   # noqa
    except Exception as e:
        R.note('histogram viewer state not importable: %s' % e)
        return
    _PRES_FRESH.clear()
    L = R.pick(4, 5)
    cases = []
    for n in range(1, L + 1):
        for h in itertools.product(PRES_OPS, repeat=n):
            for first in (True, False):
                cases.append((-1, first, list(h)))
    nexh = len(cases)
    for i in range(R.pick(100, 1500)):
        rng = C1.case_rng(R.seed, 'presentation', i, 'ops')
        ops = [rng.choice(PRES_OPS) if rng.random() < 0.65 else rng.choice(PRES_KEY_OPS) for _ in range(rng.randint(5, 14))]
        cases.append((i, rng.random() < 0.5, ops))
    aliases = set()
    nbad = ncorr = 0
    for i, first, ops in cases:
        try:
            bad, corr, al = pres_history(R.seed, i, first, ops)
        except Exception as e:
            R.note('presentation stream stopped: %s: %s' % (type(e).__name__, e))
            R.fail('correspondence', {'stream': 'presentation', 'seed': R.seed, 'i': i, 'first_read': first, 'ops': [list(o) for o in ops]},
                   'running the history raised %s: %s' % (type(e).__name__, e))
            return
        aliases |= al
        R.count(('presentation', R.seed if i >= 0 else 0, i, first, repr(ops)), nontrivial=len(ops) > 1, stream='presentation',
                history_len=min(len(ops), 30) // 5 * 5, outcome='oracle-fail' if bad else 'ok')
        case = {'stream': 'presentation', 'seed': R.seed, 'i': i, 'first_read': first, 'ops': [list(o) for o in ops]}
        if bad and nbad < 5:
            nbad += 1
            if i >= 0:
                case = pres_shrink(R.seed, i, first, ops)
                bad = pres_history(R.seed, i, case['first_read'], [tuple(o) for o in case['ops']])[0] or bad
            R.fail('oracle', case, bad)
        if corr and ncorr < 3:
            ncorr += 1
            R.fail('correspondence', case, corr)
    R.note('presentation: arrays handed out by HistogramLayerState.histogram that share memory with the cached entry: %s'
           % sorted(a for a, sh in aliases if sh))
    R.stream('presentation', cases=len(cases), exhaustive=False,
             bound='ONE HistogramViewerState with a data layer and a subset layer, cache key (x_att, x_log, limits, n_bin) unchanged: all %d histories of <= %d assignments '
                   'over {normalize, cumulative} x {on, off}, with and without a read before the first one (exhaustive part), each layer histogram read twice after every '
                   'assignment; %d random histories of 5-14 assignments that also change key fields (n_bin, x_att, limits, log) in between; every read compared with freshly '
                   'constructed states given the same settings; the cached arrays must be unchanged by a read' % (nexh, L, len(cases) - nexh))


def pres_shrink(seed, i, first, ops):
    ops = list(ops)
    improved = True
    while improved:
        improved = False
        for j in range(len(ops) - 1, -1, -1):
            cand = ops[:j] + ops[j + 1:]
            try:
                if pres_history(seed, i, first, cand)[0]:
                    ops = cand
                    improved = True
                    break
            except Exception:
                pass
    if first:
        try:
            if pres_history(seed, i, False, ops)[0]:
                first = False
        except Exception:
            pass
    return {'stream': 'presentation', 'seed': seed, 'i': i, 'first_read': first, 'ops': [list(o) for o in ops]}


# ---- the same for the profile viewer's layer state: ProfileLayerState.profile hands out the cached (x, y); normalize is applied on top
PROF_OPS = [('normalize', True), ('normalize', False), ('function', 'mean'), ('function', 'maximum'), ('x_att', 0), ('x_att', 2)]
PROF_MORE = [('function', 'sum'), ('function', 'minimum'), ('x_att', 1), ('attribute', 'a'), ('attribute', 'b')]
PROF_DEFAULT = {'x_att': 0, 'function': 'maximum', 'attribute': 'a', 'normalize': False}
PROF_ORDER = ['x_att', 'function', 'attribute', 'normalize']


def prof_world(seed, i):
    from glue.core import Data, DataCollection
    from glue.viewers.profile.state import ProfileViewerState, ProfileLayerState
    if i < 0:
        a = (np.arange(24.0).reshape(2, 3, 4) * 5) % 7
        b = (np.arange(24.0).reshape(2, 3, 4) * 3) % 5
    else:
        rng = C1.case_rng(seed, 'profile', i, 'w')
        shape = (rng.randint(2, 3), rng.randint(2, 3), rng.randint(2, 4))
        n = int(np.prod(shape))
        a = np.array([float(rng.randint(0, 6)) for _ in range(n)]).reshape(shape)
        b = np.array([float(rng.randint(1, 9)) for _ in range(n)]).reshape(shape)
    d = Data(a=a, b=b, label='cube')
    dc = DataCollection([d])
    dc.new_subset_group(subset_state=d.id['a'] > 1.5)
    vs = ProfileViewerState()
    layers = [ProfileLayerState(layer=d, viewer_state=vs), ProfileLayerState(layer=d.subsets[0], viewer_state=vs)]
    for l in layers:
        vs.layers.append(l)
    return d, vs, layers


def prof_set(d, vs, layers, name, value):
    if name == 'x_att':
        vs.x_att = d.pixel_component_ids[value]
    elif name == 'attribute':
        for l in layers:
            l.attribute = d.id[value]
    else:
        setattr(vs, name, value)


def prof_read(vs, layers):
    """one read of every layer, the way ProfileLayerArtist._calculate_profile_postthread reads: the cached (x, y), limits refreshed from it,
    y normalised when the viewer says so; private copies.  (The very first read of a layer can return None -- assigning the limits makes the
    viewer state re-derive its unit choices, which resets the layer's cache while it is being filled -- so a None is read once more, on the
    live and on the fresh side alike.)"""
    out = []
    for l in layers:
        try:
            p = l.profile
            if p is None:
                p = l.profile
            if p is None:
                out.append('None')
                continue
            x, y = p
            if len(x) > 0:
                l.update_limits()
                if vs.normalize:
                    y = l.normalize_values(y)
            out.append((np.array(x, dtype=float, copy=True), np.array(y, dtype=float, copy=True)))
        except Exception as ex:
            out.append(type(ex).__name__)
    return out


_PROF_FRESH = {}


def prof_fresh(seed, i, settings):
    k = (seed if i >= 0 else 0, i, tuple(settings[n] for n in PROF_ORDER))
    if k not in _PROF_FRESH:
        d, vs, layers = prof_world(seed, i)
        for n in PROF_ORDER:
            prof_set(d, vs, layers, n, settings[n])
        _PROF_FRESH[k] = prof_read(vs, layers)
    return _PROF_FRESH[k]


def prof_history(seed, i, first_read, ops):
    d, vs, layers = prof_world(seed, i)
    settings = dict(PROF_DEFAULT)
    for n in PROF_ORDER:
        prof_set(d, vs, layers, n, settings[n])
    bad = corr = None

    def snap(l):
        c = l._profile_cache
        return None if c is None else tuple(np.array(a, dtype=float, copy=True) for a in c)

    def reads(t, what):
        nonlocal bad, corr
        fresh = prof_fresh(seed, i, settings)
        for k in range(2):
            before = [snap(l) for l in layers]
            got = prof_read(vs, layers)
            after = [snap(l) for l in layers]
            if bad is None and not pres_same(got, fresh):
                bad = ('step %d (%s), read %d with settings %r: the live layer states give %s, freshly constructed states with the same settings give %s'
                       % (t, what, k + 1, dict(settings), pres_show(got), pres_show(fresh)))
            for b, a in zip(before, after):
                if corr is None and b is not None and a is not None and not all(
                        p.shape == q.shape and np.array_equal(p, q, equal_nan=True) for p, q in zip(b, a)):
                    corr = ('step %d (%s), read %d: reading the profile changed the cached (x, y): y before %s, after %s'
                            % (t, what, k + 1, np.round(b[1], 6).tolist(), np.round(a[1], 6).tolist()))
    if first_read:
        reads(0, 'initial settings')
    for t, (name, value) in enumerate(ops):
        prof_set(d, vs, layers, name, value)
        settings[name] = value
        for n in PROF_ORDER:
            prof_set(d, vs, layers, n, settings[n])
        reads(t + 1, '%s = %r' % (name, value))
        if bad:
            break
    return bad, corr


def stream_profile(R):
    try:
        from glue.viewers.profile.state import ProfileViewerState, ProfileLayerState   # noqa
    except Exception as e:
        R.note('profile viewer state not importable: %s' % e)
        return
    _PROF_FRESH.clear()
    L = R.pick(3, 4)
    cases = []
    for n in range(1, L + 1):
        for h in itertools.product(PROF_OPS, repeat=n):
            cases.append((-1, len(cases) % 2 == 0, list(h)))
    nexh = len(cases)
    for i in range(R.pick(40, 400)):
        rng = C1.case_rng(R.seed, 'profile', i, 'ops')
        cases.append((i, rng.random() < 0.5, [rng.choice(PROF_OPS + PROF_MORE) for _ in range(rng.randint(4, 10))]))
    nbad = ncorr = 0
    for i, first, ops in cases:
        case = {'stream': 'profile', 'seed': R.seed, 'i': i, 'first_read': first, 'ops': [list(o) for o in ops]}
        try:
            bad, corr = prof_history(R.seed, i, first, ops)
        except Exception as e:
            R.note('profile stream stopped: %s: %s' % (type(e).__name__, e))
            R.fail('correspondence', case, 'running the history raised %s: %s' % (type(e).__name__, e))
            return
        R.count(('profile', R.seed if i >= 0 else 0, i, first, repr(ops)), nontrivial=len(ops) > 1, stream='profile',
                history_len=min(len(ops), 30) // 5 * 5, outcome='oracle-fail' if bad else 'ok')
        if bad and nbad < 5:
            nbad += 1
            R.fail('oracle', case, bad)
        if corr and ncorr < 3:
            ncorr += 1
            R.fail('correspondence', case, corr)
    R.stream('profile', cases=len(cases), exhaustive=False,
             bound='ONE ProfileViewerState with a data layer and a subset layer on a 3-d cube: all %d histories of <= %d assignments over {normalize on/off, function '
                   'mean/maximum, x_att axis 0/2} (every second one with a read first), %d random histories of 4-10 assignments (also sum / minimum, axis 1, attribute); after '
                   'every assignment each layer is read twice the way the layer artist reads it (profile, update_limits, normalize_values), compared with freshly '
                   'constructed states given the same settings; the cached arrays must be unchanged by a read' % (nexh, L, len(cases) - nexh))


# ---- compute_fixed_resolution_buffer writes the invalid value into the array get_mask returned (the one row the table theorem exempts):
#      masks requested before / after it must be those of fresh objects
def stream_frb(R):
    from glue.core import Data
    from glue.core.fixed_resolution_buffer import compute_fixed_resolution_buffer
    from glue.core import subset as S
    n = R.pick(40, 300)
    nbad = 0
    for i in range(n):
        rng = C1.case_rng(R.seed, 'frb', i)
        shape = (rng.randint(2, 4), rng.randint(2, 4))

        def make():
            r2 = C1.case_rng(R.seed, 'frb', i, 'data')
            d = Data(x=np.array([float(r2.randint(0, 5)) for _ in range(shape[0] * shape[1])]).reshape(shape), label='img')
            kind = r2.randrange(3)
            st = [d.id['x'] > 2, (d.id['x'] > 1) & (d.id['x'] < 4), S.MultiOrState([d.id['x'] > 3, d.id['x'] < 1])][kind]
            return d, st
        C1.clear_all_caches()
        d, st = make()
        first = rng.random() < 0.5
        views = [None, (slice(0, 2),), (slice(0, 2), slice(1, None))]
        ops = []
        for _ in range(rng.randint(2, 5)):
            if rng.random() < 0.5:
                ops.append(('mask', rng.randrange(3)))
            else:
                lo0, lo1 = rng.choice([-2, -1, 0]), rng.choice([-2, -1, 0])
                ops.append(('frb', (lo0, shape[0] + rng.choice([0, 1, 2]), shape[0] + 3), (lo1, shape[1] + rng.choice([0, 1]), shape[1] + 2)))
        bad = None
        for t, op in enumerate(ops):
            if op[0] == 'frb':
                f = lambda dd, ss: compute_fixed_resolution_buffer(dd, bounds=[op[1], op[2]], subset_state=ss)
            else:
                f = lambda dd, ss: dd.get_mask(ss, view=views[op[1]])
            live = outcome(lambda: f(d, st))
            with isolated_caches():
                fd, fst = make()
                fresh = outcome(lambda: f(fd, fst))
            if not same_outcome(live, fresh):
                bad = 'op %d %r after %r: live objects give %s, freshly constructed objects give %s' % (t, op, ops[:t], show(live), show(fresh))
                break
        R.count(('frb', R.seed, i, repr(ops)), nontrivial=any(o[0] == 'frb' for o in ops) and any(o[0] == 'mask' for o in ops), stream='frb')
        if bad and nbad < 3:
            nbad += 1
            R.fail('oracle', {'stream': 'frb', 'seed': R.seed, 'i': i, 'ops': [list(o) for o in ops]}, bad)
    C1.clear_all_caches()
    R.stream('frb', cases=n, exhaustive=False,
             bound='a 2-d dataset with a memoised selection: 2-5 of {get_mask with one of three views, compute_fixed_resolution_buffer with bounds that reach outside '
                   'the data (the invalid value is written into the array get_mask returned)}, every result compared with freshly constructed objects')


# ---- many distinct requests between two cache clears: anything that depends on HOW MANY entries a memo dict holds (a bound, an eviction, a
#      rebuilt dict) only shows after hundreds of different (state, data, view) keys reached ONE memoised to_mask.  A case fills the caches with
#      N distinct requests (a few selections read row by row / two rows at a time over an image with many rows, or many selections of one class
#      on a small table), applies one mutation of each kind the property names, and repeats the requests; optionally a first mutation sits in
#      the middle of the filling.  Every request after a mutation is compared with a world constructed again from the case seed, the mutations
#      replayed, the selection constructed anew, first evaluation.
MK_MUTS = ('update_components', 'update_values', 'replace_component', 'remove_component', 'move_to', 'move_to_part', 'remove_link', 'swap_link')
MK_SIZES_QUICK = (140, 200, 270, 300, 420, 530, 700, 1100)


def mk_params(seed, i, override=None):
    rng = C1.case_rng(seed, 'manykeys', i)
    p = {'mode': ('rows', 'states')[i % 2], 'mut': MK_MUTS[(i // 2) % len(MK_MUTS)], 'n': MK_SIZES_QUICK[(i // 16 + i) % len(MK_SIZES_QUICK)],
         'shape_kind': rng.randrange(5), 'form': rng.randrange(4), 'mid': rng.choice([None, None, 'update_components', 'move_to', 'replace_component']),
         'salt': rng.randrange(1000)}
    if override:
        p.update(override)
    return p


class MKWorld:
    """deterministic from (seed, i, params)"""

    def __init__(self, seed, i, p):
        from glue.core import Data, DataCollection
        from glue.core.component_link import ComponentLink
        from glue.core import subset as S
        rng = C1.case_rng(seed, 'manykeys', i, 'world')
        n = p['n']
        rows = p['mode'] == 'rows'
        self.p = p
        nsel = rng.randint(1, 3) if rows else n
        nrow = (n + nsel - 1) // nsel if rows else rng.randint(3, 6)
        shape = (nrow, 2) if rows else (nrow,)
        size = int(np.prod(shape))
        vals = lambda: np.array([float(rng.randint(0, 9)) for _ in range(size)]).reshape(shape)
        self.d = Data(label='d')
        self.d.add_component(vals(), 'x')
        self.d.add_component(vals(), 'y')
        self.e = Data(label='e')
        self.e.add_component(np.zeros(3), 'u')
        self.dc = DataCollection([self.d, self.e])
        x, y, u = self.d.id['x'], self.d.id['y'], self.e.id['u']
        self.linkA = ComponentLink([x], u, using=same_value)
        self.linkB = ComponentLink([x], u, using=times_ten)
        linked = p['mut'] in ('remove_link', 'swap_link')
        if linked:
            self.dc.add_link(self.linkA)
        att = u if linked else x
        self.sels = []
        kind = p['shape_kind']
        for j in range(nsel):
            t = float(rng.randint(0, 8)) + 0.5
            t2 = float(rng.randint(0, 8)) + 0.5
            rg = S.RangeSubsetState(t - 2.0, t + 2.0, att=x)
            if p['mut'] in ('move_to', 'move_to_part') or p['mid'] == 'move_to':
                st = [rg & (att > -100), ~(rg & (y > t2)), S.MultiOrState([rg & (att > t2), att > 8]), (att > t2) | (rg & (y > 1)), rg & (y < t2)][kind]
            else:
                st = [att > t, ~(att > t), (att > t) & (y < t2), S.MultiOrState([att > t, y > t2]), (att > t) ^ (y > t2)][kind]
            self.sels.append(st)
        self.groups = [self.dc.new_subset_group(subset_state=st) for st in self.sels[:3]] if rows else []
        self.reqs = []
        if rows:
            for r in range(nrow):
                for j in range(nsel):
                    v = (r,) if (r + j) % 3 else (slice(r, r + 2),)
                    self.reqs.append((j, v))
            self.reqs = self.reqs[:n]
        else:
            self.reqs = [(j, None) for j in range(n)]

    def mutate(self, kind, salt):
        from glue.core import Data
        d = self.d
        rng = C1.case_rng(self.p['salt'], 'mk-mut', kind, salt)
        new = lambda: np.array([float(rng.randint(0, 9)) for _ in range(d.size)]).reshape(d.shape)
        if kind == 'update_components':
            d.update_components({d.id['x']: new()})
        elif kind == 'update_values':
            src = Data(label='d')
            src.add_component(new(), 'x')
            src.add_component(new(), 'y')
            d.update_values_from_data(src)
        elif kind == 'replace_component':
            d.add_component(new(), d.id['x'])
        elif kind == 'remove_component':
            d.remove_component(d.id['y'] if salt % 2 else d.id['x'])
        elif kind in ('move_to', 'move_to_part'):
            for st in self.sels:
                part = [l for l in leaves_under(st) if type(l).__name__ == 'RangeSubsetState'][0]
                ob = st if kind == 'move_to' and st.center() is not None else part
                ob.move_to(ob.center() + 3.0 + salt % 2)
        elif kind == 'remove_link':
            self.dc.remove_link(self.linkA)
        elif kind == 'swap_link':
            self.dc.remove_link(self.linkA)
            self.dc.add_link(self.linkB)
        else:
            raise ValueError(kind)

    def request(self, k, form, fresh=False):
        j, v = self.reqs[k]
        st = self.sels[j]
        d = self.d
        if fresh:
            try:
                st = rebuild(st)
            except Exception as e:
                return ('err', type(e).__name__)
            form = 1 if form == 0 else form
        if form == 0 and j < len(self.groups):
            sub = [s for s in self.groups[j].subsets if s.data is d][0]
            return outcome(lambda: sub.to_mask(view=v))
        if form == 2:
            return outcome(lambda: st.to_mask(d, view=v))
        if form == 3 and k % 4 == 0:
            return outcome(lambda: d.compute_statistic('sum', d.id['y' if self.p['mut'] != 'remove_component' else 'x'], subset_state=st, view=v))
        return outcome(lambda: d.get_mask(st, view=v))


def mk_history(seed, i, p):
    """returns (first stale request or None, number of requests made)"""
    C1.clear_all_caches()
    W = MKWorld(seed, i, p)
    n = len(W.reqs)
    muts = []
    form = p['form']

    def check(idxs):
        live = [(k, W.request(k, form)) for k in idxs]
        with isolated_caches():
            F = MKWorld(seed, i, p)
            for m in muts:
                F.mutate(*m)
            for k, lo in live:
                fo = F.request(k, form, fresh=True)
                if not same_outcome(lo, fo):
                    return ('request %d (selection %d, view %r) after %d distinct requests and mutations %r: live objects give %s, freshly constructed objects give %s'
                            % (k, W.reqs[k][0], W.reqs[k][1], n, muts, show(lo), show(fo)))
        return None
    made = 0
    half = n // 2 if p['mid'] else n
    for k in range(half):
        W.request(k, form)
    made += half
    if p['mid']:
        m = (p['mid'], p['salt'] + 1)
        W.mutate(*m)
        muts.append(m)
        for k in range(half, n):
            W.request(k, form)
        made += n - half
    m = (p['mut'], p['salt'])
    W.mutate(*m)
    muts.append(m)
    step = max(1, n // 150)
    idxs = sorted(set(list(range(0, n, step)) + list(range(max(0, n - 40), n)) + list(range(max(0, half - 20), half))))
    bad = check(idxs)
    made += len(idxs)
    if bad is None:
        # a second round: the repeats above re-filled the caches; mutate once more and repeat
        m2 = ('update_components' if p['mut'] not in ('remove_component',) else 'move_to', p['salt'] + 2)
        if m2[0] == 'move_to' and not (p['mut'] in ('move_to', 'move_to_part') or p['mid'] == 'move_to'):
            return None, made
        if p['mut'] == 'remove_component' and p['salt'] % 2 == 0:
            return None, made
        W.mutate(*m2)
        muts.append(m2)
        bad = check(idxs[-60:])
        made += 60
    return bad, made


def mk_isolated(seed, i, p):
    """the case in a NEW interpreter (the memo dicts are process-global and the behaviour probed here depends on how many entries they have seen:
    a replay must not depend on what earlier cases of this process left behind).  Returns the failure text, '' or None when the run broke"""
    import subprocess
    import sys
    import json
    code = ('import json,sys\nfrom harness import c05 as H\nseed,i,p=json.loads(sys.argv[1])\nbad,_=H.mk_history(seed,i,p)\n'
            'print("MKRESULT "+json.dumps(bad or ""))')
    try:
        r = subprocess.run([sys.executable, '-c', code, json.dumps([seed, i, p])], capture_output=True, text=True, timeout=120)
    except Exception:
        return None
    for line in r.stdout.splitlines():
        if line.startswith('MKRESULT '):
            return json.loads(line[9:])
    return None


def mk_shrink(seed, i, p):
    """smallest number of distinct requests for which the case, run on its own, still fails (the failure is taken to be monotone in n)"""
    if not mk_isolated(seed, i, p):
        return p, None
    best = dict(p)
    q = dict(p, mid=None)
    if mk_isolated(seed, i, q):
        best = q
    lo, hi = 1, best['n']
    while lo < hi:
        m = (lo + hi) // 2
        if mk_isolated(seed, i, dict(best, n=m)):
            hi = m
        else:
            lo = m + 1
    q = dict(best, n=lo)
    bad = mk_isolated(seed, i, q)
    if bad:
        return q, bad
    return best, mk_isolated(seed, i, best)


def stream_manykeys(R):
    ncases = R.pick(64, 400)
    nbad = 0
    total = 0
    for i in range(ncases):
        p = mk_params(R.seed, i)
        if R.tier != 'quick' and i % 5 == 0:
            p['n'] = p['n'] * 2 + 50
        bad, made = mk_history(R.seed, i, p)
        total += made
        R.count(('manykeys', R.seed, i), nontrivial=True, stream='manykeys', mk_mode=p['mode'], mk_mut=p['mut'], mk_n=p['n'])
        if bad and nbad < 3:
            nbad += 1
            q, bad2 = mk_shrink(R.seed, i, p) if nbad == 1 else (p, None)
            R.fail('oracle', {'stream': 'manykeys', 'seed': R.seed, 'i': i, 'params': q}, bad2 or bad)
        if i < 2:
            R.sample({'stream': 'manykeys', 'seed': R.seed, 'i': i, 'params': p})
    C1.clear_all_caches()
    R.stream('manykeys', cases=ncases, exhaustive=False,
             bound='%d histories, %d requests in all: N in %r (thorough: up to %d) DISTINCT (selection, data, view) requests to the memoised to_mask functions -- 1-3 selections read '
                   'row by row / two rows at a time over an image, or N selections of one class on a table; 5 selection shapes (inequality, invert, and, n-ary or, xor, '
                   'with a range part for move_to), 4 request forms (Subset.to_mask, Data.get_mask, state.to_mask, compute_statistic with a view) -- optionally a mutation '
                   'half way, then one of %r, then the requests repeated (every one, or 150 spread ones plus the last 40 and the 20 before the middle), then a further mutation and the last 60 again; every repeated request '
                   'compared with freshly constructed objects' % (ncases, total, MK_SIZES_QUICK, 2 * max(MK_SIZES_QUICK) + 50, MK_MUTS))


# ------------------------------------------------------------------ stream `midbroadcast` (round 6): a hub client REQUESTS from inside its handler
# A listener subscribed to the messages that are broadcast WHILE a mutation runs (ComponentsChangedMessage, DataAddComponentMessage,
# DataRemoveComponentMessage during update_values_from_data / remove_component / add_component; NumericalDataChangedMessage at the end of
# update_components / update_values_from_data) performs one of the request forms on every selection at that very moment, and again after the
# mutation has returned.  Oracle, independent of every cache: "that moment" is DEFINED by what the data object exposes to the listener --
# its main components (label -> the array get_component hands out) and its shape; a NEW Data object is constructed from exactly those
# arrays, the selection is CONSTRUCTED anew on it, and the request is its first evaluation (inside isolated_caches).  A moment at which the
# exposed arrays do not all have the exposed shape (update_values_from_data re-sizes one component after the other) is not a state of any
# dataset: no comparison is made there.  Oracle only (the model's OUpdateValues places listener requests at the final broadcast).
MB_MESSAGES = ('ComponentsChangedMessage', 'DataAddComponentMessage', 'DataRemoveComponentMessage', 'NumericalDataChangedMessage',
               'DataUpdateMessage')
MB_MUTS = ('uvd_drop', 'uvd_add', 'uvd_drop_add', 'uvd_same', 'update_components', 'remove_component', 'add_component', 'replace_component')
MB_FORMS = ('subset', 'get_mask', 'to_mask', 'stat')
MB_SPECS = [('gt', 'x', 2), ('lt', 'y', 3), ('and', ('gt', 'x', 2), ('gt', 'y', 0)), ('not', ('gt', 'x', 3)),
            ('or', ('gt', 'x', 4), ('lt', 'y', 2)), ('multi', [('gt', 'x', 4), ('lt', 'y', 1), ('gt', 'z', 2)]),
            ('xor', ('gt', 'x', 1), ('gt', 'z', 1)), ('and', ('not', ('lt', 'x', 2)), ('or', ('gt', 'y', 2), ('gt', 'x', 5)))]


def mb_labels(spec, out=None):
    out = [] if out is None else out
    if spec[0] in ('gt', 'lt'):
        if spec[1] not in out:
            out.append(spec[1])
    elif spec[0] == 'multi':
        for c in spec[1]:
            mb_labels(c, out)
    else:
        for c in spec[1:]:
            mb_labels(c, out)
    return out


def mb_build(spec, cid_of):
    from glue.core.subset import InequalitySubsetState, AndState, OrState, XorState, InvertState, MultiOrState
    k = spec[0]
    if k in ('gt', 'lt'):
        return InequalitySubsetState(cid_of[spec[1]], spec[2], operator.gt if k == 'gt' else operator.lt)
    if k == 'not':
        return InvertState(mb_build(spec[1], cid_of))
    if k == 'multi':
        return MultiOrState([mb_build(c, cid_of) for c in spec[1]])
    return {'and': AndState, 'or': OrState, 'xor': XorState}[k](mb_build(spec[1], cid_of), mb_build(spec[2], cid_of))


def mb_values(seed, i, salt, label, shape):
    rs = np.random.RandomState((seed * 7919 + i * 104729 + salt * 1299709 + sum(map(ord, label)) * 15485863) % (2 ** 31))
    return rs.randint(0, 7, size=shape)


def mb_params(seed, i, override=None):
    if override is not None:
        return override
    rs = np.random.RandomState((seed * 31337 + i * 2654435761 + 17) % (2 ** 31))
    nsel = int(rs.randint(1, 4))
    shapes = [(4,), (6,), (5,), (2, 3), (3, 2)]
    shape = shapes[int(rs.randint(0, len(shapes)))]
    nm = int(rs.randint(1, 4))
    msgs = [m for m in MB_MESSAGES if rs.rand() < 0.6] or [MB_MESSAGES[int(rs.randint(0, 3))]]
    return {'shape': list(shape), 'sel': [int(x) for x in rs.choice(len(MB_SPECS), size=nsel, replace=False)],
            'attached': [bool(rs.rand() < 0.6) for _ in range(nsel)], 'msgs': msgs,
            'form': MB_FORMS[int(rs.randint(0, 4))], 'pre': bool(rs.rand() < 0.8),
            'muts': [[MB_MUTS[int(rs.randint(0, len(MB_MUTS)))], int(rs.randint(1, 50)),
                      list(shapes[int(rs.randint(0, len(shapes)))]) if rs.rand() < 0.6 else None] for _ in range(nm)]}


def mb_snapshot(d):
    """what the data object exposes right now: [(label, array)], shape, and whether this is a state of a dataset at all"""
    comps = []
    for cid in d.main_components:
        comps.append((cid.label, np.array(d.get_component(cid).data, copy=True)))
    shape = tuple(d.shape)
    labels = [l for l, _ in comps]
    ok = all(a.shape == shape for _, a in comps) and len(set(labels)) == len(labels) and len(comps) > 0
    return comps, shape, ok


def mb_request(d, state, subset, cid, form):
    if form == 'subset' and subset is not None:
        return outcome(subset.to_mask)
    if form == 'to_mask':
        return outcome(lambda: state.to_mask(d))
    if form == 'stat':
        return outcome(lambda: d.compute_statistic('sum', cid, subset_state=state))
    return outcome(lambda: d.get_mask(state))


def mb_fresh(snap, spec, form, attached):
    from glue.core import Data
    comps, shape, _ = snap
    labels = [l for l, _ in comps]
    if any(l not in labels for l in mb_labels(spec)):
        return ('err', 'IncompatibleAttribute')
    with isolated_caches():
        f = Data(label='d')
        for l, a in comps:
            f.add_component(a, l)
        cid_of = {c.label: c for c in f.main_components}
        st = mb_build(spec, cid_of)
        sub = None
        if attached and form == 'subset':
            sub = f.new_subset()
            sub.subset_state = st
        return mb_request(f, st, sub, cid_of[mb_labels(spec)[0]], form)


def mb_history(seed, i, p):
    """returns (first oracle failure or None, number of comparisons made, number made from inside a handler, distinct message kinds seen)"""
    from glue.core import Data, DataCollection
    from glue.core.hub import HubListener
    from glue.core import message as M
    shape = tuple(p['shape'])
    d = Data(label='d')
    for l in ('x', 'y', 'z'):
        d.add_component(mb_values(seed, i, 0, l, shape), l)
    dc = DataCollection([d])
    cid_of = {c.label: c for c in d.main_components}
    sels = []
    for k, att in zip(p['sel'], p['attached']):
        spec = MB_SPECS[k]
        st = mb_build(spec, cid_of)
        sub = None
        if att:
            sub = dc.new_subset_group(subset_state=st).subsets[0]
            st = sub.subset_state
        sels.append((spec, st, sub, cid_of[mb_labels(spec)[0]], att))
    bad = []
    stats = {'n': 0, 'inside': 0, 'kinds': set(), 'skipped': 0}

    prev = {}
    known = []

    def same_snap(a, b):
        return a[1] == b[1] and [l for l, _ in a[0]] == [l for l, _ in b[0]] and all(np.array_equal(x, y) for (_, x), (_, y) in zip(a[0], b[0]))

    def compare(where, window=None):
        snap = mb_snapshot(d)
        if not snap[2]:
            stats['skipped'] += 1
            return
        for j, (spec, st, sub, cid, att) in enumerate(sels):
            live = mb_request(d, st, sub, cid, p['form'])
            fresh = mb_fresh(snap, spec, p['form'], att)
            stats['n'] += 1
            before = prev.get(j)
            prev[j] = live
            if not same_outcome(live, fresh):
                # the known finding `update-values-callee-broadcast`, and nothing else: inside the handler of a message other than the final
                # NumericalDataChangedMessage, during update_values_from_data, at a moment at which the values / shape of an attribute that
                # is kept have ALREADY been replaced (the exposed state differs from the one at the start of the call in more than the
                # removed attributes), and the live result is the one returned before (or numpy refuses the old mask on the new shape)
                if (window is not None and before is not None and (live[0] == 'err' or p['form'] == 'stat' or same_outcome(live, before))):   # stat: the OLD mask applied to the NEW values, not a value seen before
                    start = window
                    kept = [l for l, _ in snap[0] if l in [m for m, _ in start[0]]]
                    a0 = dict(start[0])
                    a1 = dict(snap[0])
                    replaced = snap[1] != start[1] or any(not np.array_equal(a0[l], a1[l]) for l in kept)
                    if replaced:
                        if not known:
                            known.append({'where': where, 'selection': j, 'spec': repr(spec), 'form': p['form'], 'live': show(live), 'fresh': show(fresh)})
                        continue
                if bad:
                    continue
                bad.append({'where': where, 'selection': j, 'spec': repr(spec), 'form': p['form'], 'live': show(live), 'fresh': show(fresh),
                            'exposed': {l: a.tolist() for l, a in snap[0]}, 'exposed_shape': list(snap[1])})

    cur = {'mut': None, 'start': None}

    class Client(HubListener):
        def __init__(self, hub):
            for m in p['msgs']:
                hub.subscribe(self, getattr(M, m), handler=self.on)

        def on(self, msg):
            if getattr(msg, 'sender', None) is not d and getattr(msg, 'data', None) is not d:
                return
            stats['inside'] += 1
            stats['kinds'].add(type(msg).__name__)
            window = cur['start'] if (cur['mut'] and '(uvd' in cur['mut'] and type(msg).__name__ != 'NumericalDataChangedMessage') else None
            compare('inside the handler of %s during %s' % (type(msg).__name__, cur['mut']), window)

    client = Client(dc.hub)
    if p['pre']:
        compare('before any mutation')
    for t, (kind, salt, newshape) in enumerate(p['muts']):
        cur['mut'] = 'mutation %d (%s)' % (t, kind)
        cur['start'] = mb_snapshot(d)
        shp = tuple(newshape) if newshape else tuple(d.shape)
        present = [c.label for c in d.main_components]
        try:
            if kind.startswith('uvd'):
                labels = list(present)
                if kind in ('uvd_drop', 'uvd_drop_add'):
                    drop = [l for l in ('z', 'y', 'x') if l in labels][:1] if salt % 3 else [l for l in labels if l not in ('x', 'y')][:1]
                    labels = [l for l in labels if l not in drop] or labels
                if kind in ('uvd_add', 'uvd_drop_add'):
                    labels.append('w%d' % salt)
                nd = Data(label='d')
                for l in labels:
                    nd.add_component(mb_values(seed, i, salt, l, shp), l)
                d.update_values_from_data(nd)
            elif kind == 'update_components':
                tgt = [c for c in d.main_components][: 1 + salt % 2]
                d.update_components({c: mb_values(seed, i, salt, c.label, tuple(d.shape)) for c in tgt})
            elif kind == 'remove_component':
                tgt = [c for c in d.main_components if c.label == ('z', 'y', 'x')[salt % 3]]
                if tgt and len(present) > 1:
                    d.remove_component(tgt[0])
            elif kind == 'add_component':
                d.add_component(mb_values(seed, i, salt, 'w', tuple(d.shape)), 'w%d' % salt)
            elif kind == 'replace_component':
                c = [c for c in d.main_components][salt % len(present)]
                d.add_component(mb_values(seed, i, salt, c.label, tuple(d.shape)), c)
        except Exception as e:          # a mutation glue refuses is refused on both sides: nothing to compare
            stats['refused'] = type(e).__name__
        cur['mut'] = None
        compare('after mutation %d (%s) has returned' % (t, kind))
    dc.hub.unsubscribe_all(client)
    stats['known'] = known[0] if known else None
    return (bad[0] if bad else None), stats


def mb_shrink(seed, i, p):
    """greedy: fewer mutations, selections, messages, no read before"""
    best = dict(p)
    bad0, _ = mb_history(seed, i, best)
    changed = True
    while changed:
        changed = False
        cands = []
        for t in range(len(best['muts'])):
            if len(best['muts']) > 1:
                cands.append(dict(best, muts=best['muts'][:t] + best['muts'][t + 1:]))
        for j in range(len(best['sel'])):
            if len(best['sel']) > 1:
                cands.append(dict(best, sel=best['sel'][:j] + best['sel'][j + 1:], attached=best['attached'][:j] + best['attached'][j + 1:]))
        for m in best['msgs']:
            if len(best['msgs']) > 1:
                cands.append(dict(best, msgs=[x for x in best['msgs'] if x != m]))
        if best['pre']:
            cands.append(dict(best, pre=False))
        for q in cands:
            b, _ = mb_history(seed, i, q)
            if b:
                best, bad0, changed = q, b, True
                break
    return best, bad0


def stream_midbroadcast(R):
    ncases = R.pick(500, 4000)
    nbad = nknown = 0
    total = inside = 0
    kinds = set()
    fixed = []
    # a fixed part: every mutation kind x every request form x {listener on the component messages, on the final message} on the world of
    # the seeded demo (x > 2 attached, (x > 2) & (y > 0) attached), read before
    for kind in MB_MUTS:
        for form in MB_FORMS:
            for msgs in (['ComponentsChangedMessage'], ['DataRemoveComponentMessage', 'DataAddComponentMessage'], ['NumericalDataChangedMessage']):
                fixed.append({'shape': [4], 'sel': [0, 2], 'attached': [True, True], 'msgs': msgs, 'form': form, 'pre': True,
                              'muts': [[kind, 1 + len(fixed), [6]]]})
    for i in range(ncases):
        p = fixed[i] if i < len(fixed) else mb_params(R.seed, i)
        bad, st = mb_history(R.seed, i, p)
        total += st['n']
        inside += st['inside']
        kinds |= st['kinds']
        R.count(('midbroadcast', R.seed, i) if i >= len(fixed) else ('midbroadcast', 'fixed', i), nontrivial=st['inside'] > 0, stream='midbroadcast',
                mb_form=p['form'], mb_mut=p['muts'][0][0], mb_inside=min(st['inside'], 5))
        if st.get('known') and not nknown:
            nknown = 1
            R.fail('oracle', {'stream': 'midbroadcast', 'seed': R.seed, 'i': i, 'params': p}, st['known'], key='update-values-callee-broadcast')
        if bad and nbad < 3:
            nbad += 1
            q, bad2 = mb_shrink(R.seed, i, p) if nbad == 1 else (p, None)
            R.fail('oracle', {'stream': 'midbroadcast', 'seed': R.seed, 'i': i, 'params': q}, bad2 or bad)
        if i in (0, len(fixed)):
            R.sample({'stream': 'midbroadcast', 'seed': R.seed, 'i': i, 'params': p})
    C1.clear_all_caches()
    R.stream('midbroadcast', cases=ncases, exhaustive=False,
             bound='%d histories (%d fixed: every mutation kind %r x request form %r x 3 listener subscriptions on the world of the seeded demo; the rest seeded: 1-3 '
                   'selections of %d shapes, attached or free, 1-3 mutations, shapes 1-d / 2-d, new shape or same), %d comparisons, %d handler invocations '
                   '(messages seen: %s): a hub client requests every selection from INSIDE its handler, at the moment of the broadcast, and again after the '
                   'mutation has returned; each result vs a Data object constructed from the arrays and shape the live data object exposes at that moment, the selection '
                   'constructed anew, first evaluation; moments at which the exposed arrays do not all have the exposed shape are skipped; oracle only'
                   % (ncases, len(fixed), MB_MUTS, MB_FORMS, len(MB_SPECS), total, inside, ', '.join(sorted(kinds))))


# ---- the translated memoize / clear_cache (Gen_memo.memoize_wrapper ..., semantics C05.Memo) against the live decorator: histories of calls
#      (hashable keys, an unhashable positional argument, an unhashable keyword value, the function raising), clear_cache(f), clear_cache of an
#      undecorated function, and clear_cache on every function (what clear_mask_caches does), short ones and long ones with several hundred
#      distinct keys between clears.  Compared: every result (value / exception), at the end the number of entries of the dict behind
#      `__memoize_cache`, and whether the dict in the wrapper's closure IS that dict.
def stream_memoize_live(R):
    from glue.core.decorators import memoize, clear_cache
    ncases = R.pick(90, 600)
    lines, lives, metas = [], [], []
    for i in range(ncases):
        rng = C1.case_rng(R.seed, 'memoize-live', i)
        nf = rng.randint(1, 3)
        cur = {'res': None}

        def make():
            def func(*args, **kwargs):
                if cur['res'] is None:
                    raise ValueError('raised by the function')
                return cur['res']
            return memoize(func)
        fs = [make() for _ in range(nf)]

        def undecorated(*a, **k):
            return None
        long = i % 3 == 0
        nops = rng.randint(200, 900) if long else rng.randint(3, 25)
        nkeys = rng.choice([140, 300, 600]) if long else rng.randint(1, 5)
        pcall = 0.985 if long else 0.7
        ops, live = [], []
        nextval = 1
        for t in range(nops):
            if rng.random() < pcall:
                f = rng.randrange(nf)
                kid = rng.randrange(nkeys) if not long or rng.random() < 0.3 else min(t, nkeys - 1)
                u = rng.random()
                form = 'plain' if u < 0.86 else ('unhash' if u < 0.93 else 'mkraise')
                res = None if rng.random() < 0.07 else nextval
                nextval += 1
                cur['res'] = res
                try:
                    if form == 'plain':
                        v = fs[f](kid)
                    elif form == 'unhash':
                        v = fs[f]([kid])
                    else:
                        v = fs[f](kid, view=[kid])
                    live.append(('val', v))
                except Exception as e:
                    live.append(('exc', type(e).__name__))
                ops.append((1, [f, 1 if form == 'mkraise' else 0, 0 if form == 'unhash' else 1, kid, (0, []) if res is None else (1, [res])]))
            elif rng.random() < 0.5:
                f = rng.randrange(nf + 1)
                clear_cache(fs[f] if f < nf else undecorated)
                ops.append((2, [f]))
            else:
                for g in fs:
                    clear_cache(g)
                clear_cache(None)
                ops.append((3, []))
        final = []
        for g in fs:
            handle = getattr(g, '__memoize_cache', None)
            same = None
            fv = g.__code__.co_freevars
            if 'memo' in fv and g.__closure__ is not None:
                same = g.__closure__[fv.index('memo')].cell_contents is handle
            final.append((len(handle) if handle is not None else -1, same))
        lines.append(enc((4, [(nf, []), (0, ops)])))
        lives.append((live, final))
        metas.append({'stream': 'memoize-live', 'seed': R.seed, 'i': i, 'nops': nops, 'nkeys': nkeys})
        R.count(('memoize-live', R.seed, i), nontrivial=any(o[0] != 1 for o in ops) and any(o[0] == 1 for o in ops), stream='memoize-live', ml_long=long)
    if R.model_available:
        outs = R.model(lines)
        nbad = 0
        for (live, final), o, meta in zip(lives, outs, metas):
            bad = None
            if is_err(o) or tag(o) != 1:
                bad = 'the translated memoize does not run on this history (model answer %r)' % (o,)
            else:
                rs, ws, ds = kids(o)
                got = [('val', kids(r)[0][0]) if tag(r) == 1 else (('exc', 'ValueError') if tag(r) == 2 and kids(r)[0][0] == 9 else ('other', tag(r))) for r in kids(rs)]
                if got != live:
                    j = [a != b for a, b in zip(got, live)].index(True) if len(got) == len(live) else -1
                    bad = 'call %d: the decorator gives %r, the translated wrapper %r' % (j, live[j] if j >= 0 else len(live), got[j] if j >= 0 else len(got))
                else:
                    lens = [d[0] for d in kids(ds)]
                    for (n_live, same), w in zip(final, kids(ws)):
                        cell, cache = kids(w)[0][0], kids(w)[1][0]
                        n_model = lens[cache] if 0 <= cache < len(lens) else -1
                        if n_live != n_model:
                            bad = 'entries behind __memoize_cache at the end: live %d, translated %d' % (n_live, n_model)
                        elif same is not None and same != (cell == cache):
                            bad = 'closure dict is the __memoize_cache dict: live %r, translated %r' % (same, cell == cache)
            if bad and nbad < 3:
                nbad += 1
                R.fail('correspondence', meta, bad)
    R.stream('memoize-live', cases=ncases, exhaustive=False,
             bound='1-3 functions decorated with the live memoize; 3-25 operations over <= 5 keys, and (every third case) 200-900 operations over 140 / 300 / 600 keys '
                   'mostly new ones in order; calls with a hashable key / an unhashable positional argument / an unhashable keyword value, the function raising in 7%, '
                   'clear_cache(f), clear_cache(undecorated), clear_cache on all; results and final dict sizes / identity compared with the translated program')


def run(R):
    R.rule = ('a case = a world (seeded) + a history of evaluation requests and mutations; non-trivial when it has at least one mutation and one '
              'request; distinct = distinct (world, history)')
    ctab = class_table()
    stream_policy(R, ctab)
    stream_exhaustive(R, ctab)
    stream_links(R, ctab)
    stream_reroute(R, ctab)
    stream_random(R, ctab)
    stream_viewer(R)
    stream_histstate(R)
    stream_presentation(R)
    stream_profile(R)
    stream_frb(R)
    stream_manykeys(R)
    stream_midbroadcast(R)
    stream_memoize_live(R)
    C1.clear_all_caches()


def replay(R, case):
    ctab = class_table()
    stream_policy(R, ctab)
    out = {'case': case}
    if case.get('stream') in ('exhaustive', 'exhaustive-links', 'exhaustive-reroute-0', 'exhaustive-reroute-1', 'c05-random'):
        c = dict(case)
        c['ops'] = [tuple(_tuplify(o)) for o in case['ops']]
        c['listener'] = [tuple(_tuplify(o)) for o in case.get('listener', [])]
        if case['stream'] == 'exhaustive':
            c['plan'] = exhaustive_plan()
        if case['stream'] == 'exhaustive-links':
            c['plan'] = links_plan()
        if case['stream'].startswith('exhaustive-reroute'):
            c['plan'] = reroute_plan(case['stream'].endswith('1'))
        res = run_history(R, c, ctab)
        out['oracle'] = res['oracle']
        out['known_finding_candidates'] = [k[0] for k in res['known']]
        if res.get('line') and R.model_available:
            m = R.model([res['line']])[0]
            out['correspondence'] = compare_model(res, m)
            got = model_results(m)[0]
            for what, j, maskreq in res['known']:
                if got is not None and maskreq and j < len(got) and got[j] != mask_of(res['impl'][j]):
                    out['oracle'].append(what)
        out['violates'] = bool(out['oracle'])
    elif case.get('stream') == 'presentation':
        _PRES_FRESH.clear()
        bad, corr, al = pres_history(case['seed'], case['i'], case['first_read'], [tuple(o) for o in case['ops']])
        out['oracle'] = [bad] if bad else []
        out['correspondence'] = [corr] if corr else []
        out['violates'] = bool(bad)
    elif case.get('stream') == 'profile':
        _PROF_FRESH.clear()
        bad, corr = prof_history(case['seed'], case['i'], case['first_read'], [tuple(o) for o in case['ops']])
        out['oracle'] = [bad] if bad else []
        out['correspondence'] = [corr] if corr else []
        out['violates'] = bool(bad)
    elif case.get('stream') == 'manykeys':
        bad, _ = mk_history(case['seed'], case['i'], case['params'])
        out['oracle'] = [bad] if bad else []
        out['violates'] = bool(bad)
    elif case.get('stream') == 'midbroadcast':
        bad, _ = mb_history(case['seed'], case['i'], case['params'])
        out['oracle'] = [bad] if bad else []
        out['violates'] = bool(bad)
    else:
        out['note'] = 're-run the stream: ./check C05 --tier quick'
        out['violates'] = False
    return out


def _tuplify(x):
    if isinstance(x, list):
        if x and x[0] in ('leaf', 'and', 'or', 'xor', 'not', 'multi') and not (len(x) == 3 and x[0] == 'tree'):
            return C1.spec_from_json(x)
        return tuple(_tuplify(y) for y in x)
    return x
