"""C07 — the hub delivers each message exactly once, in order, to the right listeners
(glue/core/hub.py, hub_callback_container.py, message.py).

A case is a class tree, a table of handler scripts and a top-level script.  Scripts are lists of actions
    ('B', id, cls)  ('Bf', id, cls)  ('D', body)  ('I', cls, body)  ('S', listener, cls, handler, filter, priority)
    ('U', listener, cls)  ('UA', listener)  ('R',)
A broadcast is an event; its message is identified by (id, cls).  'B' re-broadcasts ONE kept Message object per (id, cls)
(the same object every time that identity recurs in the case: a sender that keeps its message around), 'Bf' creates a fresh
object with the same tag each time (equal-looking, distinct).  Model and reference do not distinguish the two: every broadcast
event is delivered on its own, whatever object carries it.
The same case is run three ways:
  * real      : a real Hub, real Message subclasses, real HubListeners whose handlers interpret the scripts
  * model     : the extracted Coq model (coq/C07/Model.v) through the wire format
  * reference : `reference()` below, an independent statement of the property as a queue simulation
correspondence = model vs real ; oracle = reference (+ direct log invariants) vs real.
"""
import collections
import itertools
import sys

import subprocess

from harness.common import enc, kids, tag, is_err, parse

PROP = 'C07'
GENERATORS = ['gen_hub']
TRUSTED = [
    'tools/gen/gen_hub.py (fail-closed ast -> Gallina translator, regenerates coq/gen/Gen_hub.v from hub.py / hub_callback_container.py '
    'on every run) and its fixed prelude: dict / WeakKeyDictionary / Counter as insertion-ordered association lists, max() = first maximal, '
    'sorted() stable, contextlib.contextmanager (yield = the with-body, finally runs on every exit), a generator whose only yield is '
    'in its last loop = the eager list; its output is run against the live Hub on every case (stream "translated")',
    'HubCallbackContainer._wrap / __getitem__ / is_bound_method (weak references) are not translated: pinned by text hash, read as '
    '"what is stored is what is given back while the objects live"',
    'coq/C07/Model.v: the script interpreter (gstep/grun: runs scripts, logs block marks and handler entries/returns) is hand-written; the hub '
    'operations inside it are the translated functions; the hand-written hub model (step/run) is proved equal to it (Property.gen_refines)',
    'handlers are modelled as scripts over the same action alphabet (the harness interprets them against the real hub); a handler object is '
    '(listener, script), script 0 = no handler given (subscriber.notify)',
    'the model follows the hub after the fix commits for F-C07a (depth counter) and F-C07b (queue detached before delivery)',
]
ASSUMPTIONS = [
    'handlers do not raise: exceptions are raised only by the code inside a delay/ignore block at the top level of the script '
    '(the property speaks of a block closed by an exception); handler exceptions are out of scope',
    'listeners and handlers stay alive for the whole case: weak-reference auto-removal on garbage collection is out of scope',
    'message classes form a tree (single inheritance): ties of _mro_count between unrelated matching classes are out of scope',
    'ignore_callbacks ignores the exact class only (type(message)), as the code does; blocks are opened and closed by with statements (properly nested)',
    'the order among handlers of equal priority is not fixed by the property: the oracle accepts any (it follows the choice the '
    'implementation made); the model and the theorems fix it as the code does (order of first subscription of the listener), '
    'so a change of that order is reported as a correspondence difference without a failing input',
    'scripts that recurse without bound (a handler re-broadcasting a class it receives) are excluded: the model reports fuel exhaustion, '
    'the harness a nesting guard; both are counted, not compared',
]

OPEN, END, CLOSE = ('open',), ('end',), ('close',)
REF_GUARD = 25      # handler nesting beyond which the reference calls a case divergent
REAL_GUARD = 60     # the real run gets more room, so it only trips on genuine runaway recursion
REF_CALLS = 400     # total handler calls beyond which the reference calls a case divergent
REAL_CALLS = 1500   # ... and the real run (again with more room)
FUEL = 6000


class ScriptError(Exception):
    pass


class Diverged(BaseException):
    pass


def f_all(m):
    return True


def f_none(m):
    return False


def f_even(m):
    return m.tag % 2 == 0


def f_odd(m):
    return m.tag % 2 == 1


FILTERS = [f_all, f_none, f_even, f_odd]
REF_FILTERS = [lambda i: True, lambda i: False, lambda i: i % 2 == 0, lambda i: i % 2 == 1]


# ------------------------------------------------------------------ real hub
_class_cache = {}


def message_classes(parents):
    from glue.core.message import Message
    key = tuple(parents)
    if key not in _class_cache:
        out = []
        for i, p in enumerate(parents):
            base = Message if p == i else out[p]
            out.append(type('M%d' % i, (base,), {}))
        _class_cache[key] = out
    return _class_cache[key]


class Handler(object):
    """a plain callable (held strongly by the hub) that runs handler script h on behalf of listener l"""
    __slots__ = ('env', 'l', 'h')

    def __init__(self, env, l, h):
        self.env, self.l, self.h = env, l, h

    def __call__(self, message):
        self.env.call(self.l, self.h, message)


class RealRun(object):
    def __init__(self, case):
        from glue.core.hub import Hub, HubListener
        self.case = case
        self.classes = message_classes(case['parents'])
        self.cindex = {c: i for i, c in enumerate(self.classes)}
        self.hub = Hub()
        self.log = []
        self.depth = 0
        self.ncalls = 0
        self.maxdepth = 0
        self.kept = {}          # (id, cls) -> the one Message object re-broadcast by 'B'
        self.fresh = []         # objects made by 'Bf' (kept alive so that id() stays unique)
        self.fresh_ids = set()
        self.seen = set()
        self.dup = None
        self.listeners = {}
        env = self

        class Listener(HubListener):
            def __init__(self, lid):
                self.lid = lid

            def notify(self, message):      # handler 0 is the default handler: hub.subscribe(..., handler=None)
                env.call(self.lid, 0, message)
        self.Listener = Listener

    def listener(self, l):
        if l not in self.listeners:
            self.listeners[l] = self.Listener(l)
        return self.listeners[l]

    def sender(self, ident):
        # the sender is one of the listeners (so a listener also receives messages it sent itself), or nobody
        return self.listener(ident % 3) if ident % 4 else None

    def call(self, l, h, message):
        self.ncalls += 1
        if self.depth >= REAL_GUARD or self.ncalls > REAL_CALLS:
            raise Diverged()
        ev = (l, h, message.tag, self.cindex[type(message)])
        if id(message) in self.fresh_ids:      # an object that was broadcast once must reach a listener at most once
            k = (l, id(message))
            if k in self.seen and self.dup is None:
                self.dup = ev
            self.seen.add(k)
        self.log.append(('call',) + ev)
        self.depth += 1
        self.maxdepth = max(self.maxdepth, self.depth)
        try:
            self.interp(self.case['handlers'][h] if h < len(self.case['handlers']) else [])
        finally:
            self.depth -= 1
        self.log.append(('ret',) + ev)

    def interp(self, script):
        hub = self.hub
        for a in script:
            k = a[0]
            if k == 'B':
                m = self.kept.get((a[1], a[2]))
                if m is None:
                    m = self.kept[(a[1], a[2])] = self.classes[a[2]](self.sender(a[1]), tag=a[1])
                hub.broadcast(m)
            elif k == 'Bf':
                m = self.classes[a[2]](self.sender(a[1]), tag=a[1])      # no attribute is added: it must look like any other
                self.fresh.append(m)
                self.fresh_ids.add(id(m))
                hub.broadcast(m)
            elif k == 'D':
                self.log.append(OPEN)
                try:
                    with hub.delay_callbacks():
                        try:
                            self.interp(a[1])
                        finally:
                            self.log.append(END)
                finally:
                    self.log.append(CLOSE)
            elif k == 'I':
                with hub.ignore_callbacks(self.classes[a[1]]):
                    self.interp(a[2])
            elif k == 'S':
                _, l, c, h, f, p = a
                kw = {}
                if h != 0:
                    kw['handler'] = Handler(self, l, h)
                if f != 0:
                    kw['filter'] = FILTERS[f]
                hub.subscribe(self.listener(l), self.classes[c], priority=p, **kw)
            elif k == 'U':
                hub.unsubscribe(self.listener(a[1]), self.classes[a[2]])
            elif k == 'UA':
                hub.unsubscribe_all(self.listener(a[1]))
            elif k == 'R':
                raise ScriptError()
            else:
                raise ValueError(a)

    def state(self):
        hub = self.hub
        subs = []
        for sub, cont in hub._subscriptions.items():
            ent = []
            for mc, cb in cont.callbacks.items():
                h = 0 if cb[1] is not None else cb[0].h
                f = FILTERS.index(cb[2]) if cb[2] in FILTERS else 0
                ent.append((self.cindex[mc], h, f, cb[4]))
            subs.append((sub.lid, sorted(ent)))     # the order of one listener's classes is not observable with a class tree
        ign = sorted(self.cindex[c] for c, n in hub._ignore.items() for _ in range(max(n, 0)))
        return (int(hub._paused), [(m.tag, self.cindex[type(m)]) for m in hub._queue], ign, subs)

    def run(self):
        """-> ('ok', status, log, state) | ('diverged',)"""
        try:
            try:
                self.interp(self.case['script'])
                status = 0
            except ScriptError:
                status = 1
        except (Diverged, RecursionError):
            return ('diverged', self.log)
        if self.dup is not None:       # the same message object reached the same listener twice
            self.log.append(('duplicate-delivery',) + self.dup)
        return ('ok', status, self.log, self.state())


def run_real(case):
    return RealRun(case).run()


# ------------------------------------------------------------------ reference semantics (the oracle; independent of the Coq model)
def reference(case, guide=None):
    """What the property says must happen, as a direct simulation:
    a broadcast goes, unless its exact class is being ignored, either to the queue (some delay block is open) or at once
    to the recipients: per subscribed listener the subscription with the most derived class among the message's ancestors,
    kept if its filter accepts, ordered by priority (high first, ties in subscription order); each handler runs to completion
    (so whatever it broadcasts is delivered before it returns).  Closing the outermost delay block - normally or by an
    exception - delivers the queued messages once each, in order; the exception then propagates.
    The property leaves the order among handlers of EQUAL priority open: with `guide` (a delivery log of the
    implementation) the simulation follows the guide's choice among the tied candidates, so that only a difference the
    property does forbid remains a difference."""
    parents, handlers = case['parents'], case['handlers']

    def ancestors(c):
        out = [c]
        while parents[c] != c:
            c = parents[c]
            out.append(c)
        return out
    subs = collections.OrderedDict()     # listener -> OrderedDict(class -> (handler, filter, priority))
    ignore = collections.Counter()
    st = {'open': 0, 'queue': [], 'nest': 0, 'max': 0, 'calls': 0}
    log = []

    def recipients(i, c):
        anc = ancestors(c)
        found = []
        for l, d in subs.items():
            mine = [k for k in d if k in anc]
            if mine:
                h, f, p = d[min(mine, key=anc.index)]     # nearest ancestor = most derived
                if REF_FILTERS[f](i):
                    found.append((l, h, p))
        return sorted(found, key=lambda x: -x[2])

    def in_order(todo):
        while todo:
            k = 0
            if guide is not None and len(log) < len(guide) and guide[len(log)][0] == 'call':
                tied = [j for j, x in enumerate(todo) if x[2] == todo[0][2]]
                hit = [j for j in tied if todo[j][:2] == tuple(guide[len(log)][1:3])]
                k = hit[0] if hit else 0
            yield todo.pop(k)[:2]

    def deliver(i, c):
        for l, h in in_order(recipients(i, c)):
            st['calls'] += 1
            if st['nest'] >= REF_GUARD or st['calls'] > REF_CALLS:
                raise Diverged()
            log.append(('call', l, h, i, c))
            st['nest'] += 1
            st['max'] = max(st['max'], st['nest'])
            try:
                run(handlers[h] if h < len(handlers) else [])
            finally:
                st['nest'] -= 1
            log.append(('ret', l, h, i, c))

    def run(script):
        for a in script:
            k = a[0]
            if k in ('B', 'Bf'):
                if ignore[a[2]] > 0:
                    continue
                if st['open'] > 0:
                    st['queue'].append((a[1], a[2]))
                else:
                    deliver(a[1], a[2])
            elif k == 'D':
                log.append(OPEN)
                st['open'] += 1
                try:
                    try:
                        run(a[1])
                    finally:
                        log.append(END)
                        st['open'] -= 1
                        if st['open'] == 0:
                            q, st['queue'] = st['queue'], []
                            for i, c in q:
                                deliver(i, c)
                finally:
                    log.append(CLOSE)
            elif k == 'I':
                ignore[a[1]] += 1
                try:
                    run(a[2])
                finally:
                    ignore[a[1]] -= 1
            elif k == 'S':
                _, l, c, h, f, p = a
                subs.setdefault(l, collections.OrderedDict())[c] = (h, f, p)
            elif k == 'U':
                subs.get(a[1], {}).pop(a[2], None)
            elif k == 'UA':
                subs.pop(a[1], None)
            elif k == 'R':
                raise ScriptError()
    try:
        try:
            run(case['script'])
            status = 0
        except ScriptError:
            status = 1
    except (Diverged, RecursionError):
        return ('diverged',)
    return ('ok', status, log, st['max'])


def log_invariants(log):
    """direct reading of the property on a real delivery log; returns a reason or None"""
    open_blocks = 0
    stack = []
    for ev in log:
        if ev == OPEN:
            open_blocks += 1
        elif ev == END:
            open_blocks -= 1
        elif ev[0] == 'call':
            if open_blocks > 0:
                return 'delivery %r while %d delay block(s) are open' % (ev[1:], open_blocks)
            stack.append(ev[1:])
        elif ev[0] == 'ret':
            if not stack or stack.pop() != ev[1:]:
                return 'handler return %r does not match the innermost running handler' % (ev[1:],)
        elif ev[0] == 'duplicate-delivery':
            return 'one message object was delivered twice to listener %r: %r' % (ev[1], ev[1:])
    return None


# ------------------------------------------------------------------ model
def enc_action(a):
    k = a[0]
    if k in ('B', 'Bf'):
        return (1, [a[1], a[2]])
    if k == 'D':
        return (2, [enc_action(x) for x in a[1]])
    if k == 'I':
        return (3, [a[1]] + [enc_action(x) for x in a[2]])
    if k == 'S':
        return (4, list(a[1:]))
    if k == 'U':
        return (5, [a[1], a[2]])
    if k == 'UA':
        return (6, [a[1]])
    return (7, [])


def enc_case(case, entry=1):
    """entry 1 = the hand-written model (Model.v: run), entry 3 = the interpreter over the translated hub methods (gen/Gen_hub.v: grun)"""
    return enc((entry, [FUEL, (0, list(case['parents'])),
                    (0, [(0, [enc_action(a) for a in h]) for h in case['handlers']]),
                    (0, [enc_action(a) for a in case['script']])]))


def model_raw(R, lines, chunk=200000):
    """as R.model, but the answers are returned as text (parsing is the expensive part and equal texts need not be parsed twice)"""
    if not R.model_available:
        raise RuntimeError('model driver not built: ' + R.driver)
    out = []
    for i in range(0, len(lines), chunk):
        part = lines[i:i + chunk]
        R.model_calls += len(part)
        p = subprocess.run(['bash', '-c', 'ulimit -s unlimited 2>/dev/null; exec "$0"', R.driver],
                           input=('\n'.join(part) + '\n').encode(), stdout=subprocess.PIPE, stderr=subprocess.PIPE)
        if p.returncode != 0:
            raise RuntimeError('model driver failed: ' + p.stderr.decode()[:500])
        res = p.stdout.decode().split('\n')
        if res and res[-1] == '':
            res.pop()
        if len(res) != len(part):
            raise RuntimeError('model driver returned %d lines for %d cases' % (len(res), len(part)))
        out.extend(res)
    return out


def dec_model(t):
    if is_err(t) or tag(t) != 1:
        return ('diverged',) if is_err(t) and t[1] and t[1][0][0] == 3 else ('bad', t)
    st, evs, hub = kids(t)
    log = []
    for e in kids(evs):
        if tag(e) in (1, 2) and kids(e):
            log.append((('call', 'ret')[tag(e) - 1],) + tuple(k[0] for k in kids(e)))
        else:
            log.append({3: OPEN, 4: END, 5: CLOSE}[tag(e)])
    paused, queue, ign, subs = kids(hub)
    state = (tag(paused), [tuple(k[0] for k in kids(m)) for m in kids(queue)], sorted(k[0] for k in kids(ign)),
             [(tag(e), sorted(tuple(k[0] for k in kids(sb)) for sb in kids(e))) for e in kids(subs)])
    return ('ok', tag(st), log, state)


# ------------------------------------------------------------------ generators
TREE = [0, 0, 1, 0]        # 0 root, 1 < 0, 2 < 1, 3 < 0   (a chain of three and a sibling)

# handler scripts of the exhaustive stream (0 is the default notify handler and only records)
EX_HANDLERS = [
    [],
    [('B', 900, 3)],                                             # broadcasts while being called
    [('D', [('B', 901, 3)]), ('Bf', 902, 3)],                    # opens a delay block while being called (F-C07b)
    [('UA', 1)],                                                 # removes the other listener
    [('S', 1, 3, 0, 0, 10), ('U', 0, 1)],                        # subscribes / unsubscribes
    [('I', 3, [('Bf', 903, 3)]), ('D', [('B', 904, 3), ('D', [('B', 904, 3)])])],   # the same object twice, across nested blocks
]
EX_SETUPS = [
    # (name, initial subscriptions)
    ('plain', [('S', 0, 0, 0, 0, 10), ('S', 1, 1, 0, 0, 10), ('S', 1, 3, 0, 0, 20)]),
    ('prio+specific', [('S', 0, 1, 0, 0, 5), ('S', 1, 0, 0, 0, 10), ('S', 1, 2, 4, 2, 7), ('S', 2, 1, 0, 0, 5)]),
    ('reentrant', [('S', 0, 1, 1, 0, 10), ('S', 1, 3, 0, 0, 10), ('S', 2, 2, 2, 0, 20), ('S', 2, 3, 0, 3, 1)]),
    ('mutating', [('S', 0, 1, 3, 0, 10), ('S', 1, 1, 0, 0, 5), ('S', 2, 2, 5, 0, 10), ('S', 1, 3, 2, 0, 10)]),
]
EX_ATOMS = [('B', 0, 1), ('B', 0, 2), ('B', 0, 3), ('R',), ('S', 1, 2, 1, 0, 10), ('S', 0, 3, 2, 3, 30), ('U', 1, 1), ('UA', 0)]
EX_IGNORE = [2]


def scripts_of_size(n, atoms, ignore_classes, memo):
    """all scripts with exactly n action nodes"""
    if n in memo:
        return memo[n]
    if n == 0:
        memo[0] = [[]]
        return memo[0]
    out = []
    for k in range(1, n + 1):
        firsts = []
        if k == 1:
            firsts += atoms
        for body in scripts_of_size(k - 1, atoms, ignore_classes, memo):
            firsts.append(('D', body))
            if k > 1:
                for c in ignore_classes:
                    firsts.append(('I', c, body))
        for rest in scripts_of_size(n - k, atoms, ignore_classes, memo):
            for f in firsts:
                out.append([f] + rest)
    memo[n] = out
    return out


def renumber(script, start=1, mode='distinct', kind='Bf'):
    """identities of the broadcasts of a script: mode 'distinct' = all different, in program order;
    mode 'class' = one identity per class (so a class broadcast twice is the same identity twice); kind = 'B' | 'Bf'"""
    n = [start]

    def go(s):
        out = []
        for a in s:
            if a[0] in ('B', 'Bf'):
                if mode == 'distinct':
                    out.append((kind, n[0], a[2]))
                    n[0] += 1
                else:
                    out.append((kind, start + a[2], a[2]))
            elif a[0] == 'D':
                out.append(('D', go(a[1])))
            elif a[0] == 'I':
                out.append(('I', a[1], go(a[2])))
            else:
                out.append(a)
        return out
    return go(script)


def broadcast_classes(script):
    out = []
    for a in script:
        if a[0] in ('B', 'Bf'):
            out.append(a[2])
        elif a[0] == 'D':
            out += broadcast_classes(a[1])
        elif a[0] == 'I':
            out += broadcast_classes(a[2])
    return out


def rand_identities(script, rng, base):
    """random identities: about half of the broadcasts draw from a pool of two identities (so that an identity recurs
    inside and outside delay blocks and across nested blocks), each either the kept object or a fresh equal-looking one"""
    n = [base + 10]

    def go(s):
        out = []
        for a in s:
            if a[0] in ('B', 'Bf'):
                kind = 'B' if rng.random() < 0.5 else 'Bf'
                if rng.random() < 0.55:
                    out.append((kind, base + 1 + rng.randrange(2), a[2]))
                else:
                    out.append((kind, n[0], a[2]))
                    n[0] += 1
            elif a[0] == 'D':
                out.append(('D', go(a[1])))
            elif a[0] == 'I':
                out.append(('I', a[1], go(a[2])))
            else:
                out.append(a)
        return out
    return go(script)


def rand_script(rng, size, depth, ncls, nlst, nh, top):
    out = []
    while size > 0:
        r = rng.random()
        if r < 0.40:
            out.append(('B', 0, rng.randrange(ncls)))
            size -= 1
        elif r < 0.58 and depth > 0:
            k = rng.randint(0, min(size - 1, 5))
            out.append(('D', rand_script(rng, k, depth - 1, ncls, nlst, nh, top)))
            size -= k + 1
        elif r < 0.68 and depth > 0:
            k = rng.randint(0, min(size - 1, 4))
            out.append(('I', rng.randrange(ncls), rand_script(rng, k, depth - 1, ncls, nlst, nh, top)))
            size -= k + 1
        elif r < 0.82:
            out.append(rand_sub(rng, ncls, nlst, nh))
            size -= 1
        elif r < 0.90:
            out.append(('U', rng.randrange(nlst), rng.randrange(ncls)))
            size -= 1
        elif r < 0.94:
            out.append(('UA', rng.randrange(nlst)))
            size -= 1
        elif r < 0.97 and top:
            out.append(('R',))
            size -= 1
        else:
            out.append(('B', 0, rng.randrange(ncls)))
            size -= 1
    return out


def rand_sub(rng, ncls, nlst, nh):
    return ('S', rng.randrange(nlst), rng.randrange(ncls), rng.randrange(nh),
            rng.choice([0, 0, 0, 0, 1, 2, 3]), rng.choice([10, 10, 10, 5, 20, 1, -3, 0]))


TREES = [[0, 0, 1, 0], [0, 0, 0, 1, 1], [0, 0, 1, 2], [0, 1, 0, 1], [0, 0], [0, 0, 1, 1, 3, 0]]


def rand_case(rng, big):
    parents = rng.choice(TREES)
    ncls = len(parents)
    nlst = rng.randint(1, 3)
    nh = rng.randint(1, 5)
    handlers = [[]]
    for h in range(1, nh):
        # handlers mostly broadcast leaf classes so that most cases terminate
        hs = rand_script(rng, rng.randint(0, 4 if big else 3), 2, ncls, nlst, nh, top=False)
        handlers.append(rand_identities(hs, rng, 100 * h))
    setup = [rand_sub(rng, ncls, nlst, nh) for _ in range(rng.randint(1, 5))]
    script = rand_script(rng, rng.randint(2, 12 if big else 8), 4 if big else 3, ncls, nlst, nh, top=True)
    return {'parents': parents, 'handlers': handlers, 'script': setup + rand_identities(script, rng, 0)}


# ------------------------------------------------------------------ comparison
def features(case, ref):
    log = ref[2]
    calls = sum(1 for e in log if e[0] == 'call')

    def walk(s, d, inh):
        f = set()
        for a in s:
            if a[0] == 'D':
                f.add('delay')
                if d > 0:
                    f.add('nested-delay')
                f |= walk(a[1], d + 1, inh)
            elif a[0] == 'I':
                f.add('ignore')
                f |= walk(a[2], d, inh)
            elif a[0] == 'R':
                f.add('raise-in-delay' if d > 0 else 'raise')
        return f
    f = walk(case['script'], 0, False)
    f |= identity_features(case['script'], '')
    used = set(e[2] for e in log if e[0] == 'call')
    for h in used:
        if h < len(case['handlers']):
            hf = walk(case['handlers'][h], 0, True)
            f |= identity_features(case['handlers'][h], 'handler-')
            f |= set('handler-' + x for x in hf)
            if any(a[0] in ('S', 'U', 'UA') for a in case['handlers'][h]):
                f.add('handler-(un)subscribes')
            if any(a[0] in ('B', 'Bf') for a in case['handlers'][h]):
                f.add('handler-broadcasts')
    return calls, f


def flat_broadcasts(script):
    out = []
    for a in script:
        if a[0] in ('B', 'Bf'):
            out.append(a)
        elif a[0] == 'D':
            out += flat_broadcasts(a[1])
        elif a[0] == 'I':
            out += flat_broadcasts(a[2])
    return out


def identity_features(script, prefix):
    """does an identity recur: anywhere in the script / inside one outermost delay block; carried by the same object or not"""
    f = set()

    def repeated(bs, where):
        seen = {}
        for k, i, c in bs:
            if (i, c) in seen:
                same = k == 'B' and seen[(i, c)] == 'B'
                f.add(prefix + 'identity-twice-' + where + (':same-object' if same else ':equal-looking-objects'))
            seen.setdefault((i, c), k)
    repeated(flat_broadcasts(script), 'in-script')

    def blocks(s):
        for a in s:
            if a[0] == 'D':
                repeated(flat_broadcasts(a[1]), 'in-one-delay-block')
                if any(x[0] == 'D' for x in a[1]):
                    inner = [b for x in a[1] if x[0] == 'D' for b in flat_broadcasts(x[1])]
                    outer = [b for x in a[1] if x[0] != 'D' for b in flat_broadcasts([x])]
                    if set((i, c) for _, i, c in inner) & set((i, c) for _, i, c in outer):
                        f.add(prefix + 'identity-twice-across-nested-delay-blocks')
            elif a[0] == 'I':
                blocks(a[2])
    blocks(script)
    return f


def first_diff(a, b):
    for i, (x, y) in enumerate(zip(a, b)):
        if x != y:
            return i
    return min(len(a), len(b))


GEN_STATS = collections.Counter()


def judge(case, real, ref, model, gmodel=None):
    """-> list of (kind, detail); model = hand-written model, gmodel = the translated hub methods run by the extracted interpreter"""
    out = []
    if ref[0] == 'diverged':
        return out
    if real[0] == 'diverged':
        out.append(('oracle', {'why': 'the hub recursed without bound; the reference semantics terminates',
                               'expected_log': ref[2], 'impl_log_start': real[1][:60]}))
    else:
        inv = log_invariants(real[2])
        if real[3][0] != 0 or real[3][1] or real[3][2]:
            inv = inv or 'hub not idle after the script: paused=%r queue=%r ignore=%r' % real[3][:3]
        if inv or real[1] != ref[1] or real[2] != ref[2]:
            i = first_diff(real[2], ref[2])
            out.append(('oracle', {'why': inv or ('delivery log differs from the reference at event %d' % i
                                                  if real[2] != ref[2] else 'exception status differs'),
                                   'status': {'impl': real[1], 'expected': ref[1]},
                                   'impl_log': real[2], 'expected_log': ref[2]}))
    if model is not None:
        if model[0] == 'bad':
            out.append(('correspondence', {'why': 'model output not understood', 'model': repr(model[1])[:300]}))
        elif model[0] != real[0] or (model[0] == 'ok' and model[1:] != tuple(real[1:])):
            d = {'why': 'model and implementation differ'}
            if model[0] == 'ok' and real[0] == 'ok':
                d.update(status={'impl': real[1], 'model': model[1]}, first_log_difference=first_diff(real[2], model[2]),
                         impl_log=real[2], model_log=model[2], impl_state=real[3], model_state=model[3])
            else:
                d.update(impl=real[0], model=model[0])
            out.append(('correspondence', d))
    if gmodel is not None and ref[0] != 'diverged':
        GEN_STATS['cases'] += 1
        if gmodel[0] == 'bad':
            out.append(('correspondence', {'why': 'translated hub (gen/Gen_hub.v): output not understood', 'model': repr(gmodel[1])[:300]}))
        elif gmodel[0] != real[0] or (gmodel[0] == 'ok' and gmodel[1:] != tuple(real[1:])):
            d = {'why': 'translated hub (gen/Gen_hub.v) and implementation differ'}
            if gmodel[0] == 'ok' and real[0] == 'ok':
                d.update(status={'impl': real[1], 'translated (2 = KeyError/ValueError inside the hub)': gmodel[1]},
                         first_log_difference=first_diff(real[2], gmodel[2]),
                         impl_log=real[2], translated_log=gmodel[2], impl_state=real[3], translated_state=gmodel[3])
            else:
                d.update(impl=real[0], translated=gmodel[0])
            GEN_STATS['disagreements'] += 1
            out.append(('correspondence', d))
    return out


def shrink(case, bad):
    """greedy removal of actions while bad(case) holds"""
    def variants(s):
        for i, a in enumerate(s):
            yield s[:i] + s[i + 1:]
            if a[0] == 'D':
                yield s[:i] + a[1] + s[i + 1:]
                for v in variants(a[1]):
                    yield s[:i] + [('D', v)] + s[i + 1:]
            elif a[0] == 'I':
                yield s[:i] + a[2] + s[i + 1:]
                for v in variants(a[2]):
                    yield s[:i] + [('I', a[1], v)] + s[i + 1:]
    cur = case
    for _ in range(200):
        for cand in itertools.chain(
                ({'parents': cur['parents'], 'handlers': cur['handlers'], 'script': v} for v in variants(cur['script'])),
                ({'parents': cur['parents'], 'handlers': cur['handlers'][:h] + [v] + cur['handlers'][h + 1:], 'script': cur['script']}
                 for h in range(len(cur['handlers'])) for v in variants(cur['handlers'][h]))):
            try:
                if bad(cand):
                    cur = cand
                    break
            except Exception:
                pass
        else:
            return cur
    return cur


def case_json(case, **extra):
    d = {'parents': list(case['parents']), 'handlers': case['handlers'], 'script': case['script']}
    d.update(extra)
    return d


def case_from_json(j):
    def act(a):
        a = list(a)
        if a[0] == 'D':
            return ('D', [act(x) for x in a[1]])
        if a[0] == 'I':
            return ('I', a[1], [act(x) for x in a[2]])
        return tuple(a)
    return {'parents': list(j['parents']), 'handlers': [[act(a) for a in h] for h in j['handlers']],
            'script': [act(a) for a in j['script']]}


def why_class(why):
    for k in ('translated hub', 'recursed without bound', 'while', 'does not match', 'twice', 'not idle', 'exception status', 'delivery log differs'):
        if k in why:
            return k
    return why[:30]


def reference_for(case, real, ref=None):
    """the reference run to compare `real` with (ties of priority resolved as the implementation did, see reference)"""
    ref = ref or reference(case)
    if ref[0] == 'ok' and real[0] == 'ok' and ref[2] != real[2]:
        guided = reference(case, guide=real[2])
        if guided[0] == 'ok':
            return guided
    if ref[0] == 'ok' and real[0] == 'diverged':
        # does the property allow this runaway recursion under the implementation's choice among equal priorities?
        guided = reference(case, guide=real[1])
        if guided[0] == 'diverged':
            return guided
    return ref


def oracle_bad(case):
    ref = reference(case)
    if ref[0] != 'ok':
        return False
    real = run_real(case)
    return any(k == 'oracle' for k, _ in judge(case, real, reference_for(case, real, ref), None))


class Failures(object):
    """collects failures per class and hands them to R round-robin, so that the few replays the check writes show different defects"""

    def __init__(self):
        self.by_class = collections.OrderedDict()

    def add(self, klass, kind, case, detail):
        self.by_class.setdefault(klass, []).append((kind, case, detail))

    def flush(self, R):
        rows = list(self.by_class.values())
        for i in range(max([len(r) for r in rows] or [0])):
            for r in rows:
                if i < len(r):
                    R.fail(r[i][0], r[i][1], r[i][2], key=None) if r[i][0] == 'oracle' else R.fail(r[i][0], r[i][1], r[i][2])
        self.by_class.clear()


FAILS = Failures()


def process(R, name, cases):
    """run one stream: real + reference for every case, the model in one batch"""
    # the translated hub (entry 3) is run on every case; the hand-written model (entry 1) is proved to give the very same
    # result with the same fuel (Property.gen_refines), so in the quick tier it is run on every third case only
    enc1 = [enc_case(c) for c in cases]
    gmodels = [None] * len(cases)
    models = [None] * len(cases)
    if R.model_available:
        graw = model_raw(R, ['(3' + e[2:] for e in enc1])
        gmodels = [dec_model(parse(t)) for t in graw]
        idx = [i for i in range(len(cases)) if not R.quick() or i % 3 == 0]
        for i, t in zip(idx, model_raw(R, [enc1[i] for i in idx])):
            models[i] = gmodels[i] if t == graw[i] else dec_model(parse(t))
            GEN_STATS['hand model also run'] += 1
            if gmodels[i] != models[i] and not (gmodels[i][0] == 'bad' or models[i][0] == 'bad'):
                R.fail('correspondence', case_json(cases[i], stream=name),
                       {'why': 'translated hub and hand-written model differ although Property.gen_refines is proved: extraction / wire problem',
                        'model': repr(models[i])[:400], 'translated': repr(gmodels[i])[:400]})
    stats = collections.Counter()
    reported = collections.Counter()
    for case, model, gmodel, e1 in zip(cases, models, gmodels, enc1):
        ref = reference(case)
        if ref[0] == 'diverged':
            stats['divergent (skipped)'] += 1
            if model is not None and model[0] == 'ok':
                stats['divergent for the reference guard but the model terminates'] += 1
            R.count(('div', e1), nontrivial=False, stream=name, outcome='divergent')
            continue
        real = run_real(case)
        ref = reference_for(case, real, ref)
        if ref[0] == 'diverged':
            stats['divergent under the tie order of the implementation (skipped)'] += 1
            R.count(('div', e1), nontrivial=False, stream=name, outcome='divergent')
            if model is not None and model[0] == 'ok':
                R.fail('correspondence', case_json(case, stream=name),
                       {'why': 'the implementation recurses without bound where the model terminates (order among equal priorities differs)'})
            continue
        calls, feats = features(case, ref)
        key = (e1, ''.join('k' if b[0] == 'B' else 'f' for h in [case['script']] + case['handlers'] for b in flat_broadcasts(h)))
        R.count(key, nontrivial=calls > 0, stream=name, deliveries=min(calls, 12), handler_nesting=ref[3],
                outcome='raised' if ref[1] else 'normal')
        for f in feats:
            R.hist['feature'][f] += 1
        stats['cases'] += 1
        for kind, detail in judge(case, real, ref, model, gmodel):
            stats[kind] += 1
            klass = (kind, why_class(detail.get('why', '')))
            reported[klass] += 1
            if reported[klass] <= 2:
                if kind == 'oracle':
                    small = shrink(case, oracle_bad)
                    r2 = run_real(small)
                    js = judge(small, r2, reference_for(small, r2), None)
                    detail = dict(js[0][1], shrunk_from=case_json(case)) if js else detail
                    FAILS.add(klass, 'oracle', case_json(small, stream=name), detail)
                else:
                    FAILS.add(klass, 'correspondence', case_json(case, stream=name), detail)
            elif reported[klass] <= 10:
                FAILS.add(klass, kind, case_json(case, stream=name), {'why': detail.get('why')})
    return stats


def stream_exhaustive(R):
    memo = {}
    total = collections.Counter()
    ncases = 0
    deep = 'reentrant'
    for sname, setup in EX_SETUPS:
        cases = []
        nmax = 5 if (sname == deep and not R.quick()) else 4
        for n in range(1, nmax + 1):
            for s in scripts_of_size(n, EX_ATOMS, EX_IGNORE, memo):
                cases.append({'parents': TREE, 'handlers': EX_HANDLERS, 'script': setup + renumber(s)})
                bc = broadcast_classes(s)
                if len(bc) != len(set(bc)):
                    # a class broadcast twice: also as the SAME message object twice, and as two equal-looking objects
                    cases.append({'parents': TREE, 'handlers': EX_HANDLERS, 'script': setup + renumber(s, 1, 'class', 'B')})
                    if not R.quick() or sname in ('plain', 'reentrant'):
                        cases.append({'parents': TREE, 'handlers': EX_HANDLERS, 'script': setup + renumber(s, 1, 'class', 'Bf')})
        ncases += len(cases)
        total += process(R, 'exhaustive/' + sname, cases)
    R.sample(case_json({'parents': TREE, 'handlers': EX_HANDLERS,
                        'script': EX_SETUPS[2][1] + renumber([('D', [('B', 0, 1), ('D', [('B', 0, 2)]), ('B', 0, 3)])])}))
    R.stream('exhaustive', cases=ncases, exhaustive=True, stats=dict(total),
             bound='every script of 1..4 action nodes (1..%d after the set-up "reentrant") over %d atoms (3 broadcasts, raise, 2 subscribes, unsubscribe, unsubscribe_all), '
                   'each with all identities distinct and, when a class is broadcast twice, also with one identity per class carried by the same object / by equal-looking objects, '
                   'delay blocks and ignore blocks of class 2 nested freely, after each of %d fixed subscription set-ups; class tree %r; '
                   '6 handler scripts (record / broadcast / open a delay block / unsubscribe_all / subscribe+unsubscribe / ignore+nested delay)'
                   % (R.pick(4, 5), len(EX_ATOMS), len(EX_SETUPS), TREE))


def stream_random(R):
    n = R.pick(4000, 60000)
    cases = []
    for i in range(n):
        cases.append(rand_case(R.subrng('rand', i), big=(i % 3 == 0)))
    stats = process(R, 'random', cases)
    for c in cases[:2]:
        R.sample(case_json(c))
    R.stream('random', cases=n, exhaustive=False, stats=dict(stats),
             bound='class trees %r; 1-3 listeners; up to 5 random handler scripts (<= 4 nodes, nesting <= 2, no raise); '
                   '1-5 initial subscriptions; scripts of 2-12 nodes, delay/ignore nesting <= 4' % TREES)


def stream_find_handlers(R):
    """Hub._find_handlers alone on random subscription tables: who, most specific class, filter, priority order, ties"""
    from glue.core.hub import Hub
    import functools
    n = R.pick(1000, 6000)
    lines, expect, keys = [], [], []
    glines = []
    bad = 0
    for i in range(n):
        rng = R.subrng('fh', i)
        parents = rng.choice(TREES)
        ncls = len(parents)
        case = {'parents': parents, 'handlers': [[]] * 6, 'script': []}
        rr = RealRun(case)
        table = collections.OrderedDict()
        for _ in range(rng.randint(1, 9)):
            l, c, h = rng.randrange(5), rng.randrange(ncls), rng.randrange(6)
            f, p = rng.choice([0, 0, 0, 1, 2, 3]), rng.choice([10, 10, 5, 20, 20, 0, -1])
            rr.interp([('S', l, c, h, f, p)])
            table.setdefault(l, collections.OrderedDict())[c] = (h, f, p)
            if rng.random() < 0.15:
                l2, c2 = rng.randrange(5), rng.randrange(ncls)
                rr.interp([('U', l2, c2)])
                table.get(l2, {}).pop(c2, None)
        for c in range(ncls):
            for ident in (1, 2):
                msg = rr.classes[c](None, tag=ident)
                impl = [(sub.lid, 0 if isinstance(hd, functools.partial) else hd.h) for sub, hd in rr.hub._find_handlers(msg)]
                # the property, directly: per listener the nearest subscribed ancestor, its filter, stable priority order
                anc = [c]
                while parents[anc[-1]] != anc[-1]:
                    anc.append(parents[anc[-1]])
                want = []
                for l, d in table.items():
                    near = [a for a in anc if a in d]
                    if near and REF_FILTERS[d[near[0]][1]](ident):
                        want.append((l, d[near[0]][0], d[near[0]][2]))
                prio_of = {(l, h): p for l, h, p in want}
                want = [(l, h) for l, h, p in sorted(want, key=lambda x: -x[2])]
                tb = [(l, [(cc,) + v for cc, v in d.items()]) for l, d in table.items()]
                R.count(('fh', tuple(parents), repr(tb), c, ident), nontrivial=len(want) > 0, stream='find_handlers', recipients=len(want))
                lines.append(enc((2, [(0, list(parents)), (0, [(l, [(0, list(e)) for e in ent]) for l, ent in tb]), ident, c])))
                glines.append(enc((4, [(0, list(parents)), (0, [(l, [(0, list(e)) for e in ent]) for l, ent in tb]), ident, c])))
                expect.append(impl)
                keys.append({'stream': 'find_handlers', 'parents': list(parents), 'table': tb, 'message': [ident, c]})
                # the property: the right (listener, handler) pairs, each once, priorities never increasing (ties: any order)
                ok = sorted(impl) == sorted(want) and all(prio_of[a] >= prio_of[b] for a, b in zip(impl, impl[1:]))
                if not ok:
                    bad += 1
                    if bad <= 3:
                        R.fail('oracle', keys[-1], {'why': '_find_handlers differs from the property', 'impl': impl,
                                                    'expected (ties in any order)': want}, key=None)
    if R.model_available:
        bad = 0
        for k, impl, t in zip(keys, expect, R.model(lines)):
            model = [tuple(x[0] for x in kids(e)) for e in kids(t)]
            if model != impl:
                bad += 1
                if bad <= 3:
                    R.fail('correspondence', k, {'why': 'find_handlers: model and implementation differ', 'impl': impl, 'model': model})
        bad = 0
        for k, impl, t in zip(keys, expect, R.model(glines)):
            GEN_STATS['find_handlers'] += 1
            gm = None if is_err(t) else [tuple(x[0] for x in kids(e)) for e in kids(t)]
            # (listener, handler script, the listener the stored handler object acts for)
            if gm is None or [x[:2] for x in gm] != impl or any(x[0] != x[2] for x in gm):
                bad += 1
                GEN_STATS['disagreements'] += 1
                if bad <= 3:
                    R.fail('correspondence', k, {'why': 'translated hub (gen/Gen_hub.v): hub_find_handlers and Hub._find_handlers differ',
                                                 'impl': impl, 'translated': gm if gm is not None else 'KeyError/ValueError'})
    R.stream('find_handlers', cases=len(lines), exhaustive=False,
             bound='%d random tables (<= 5 listeners, <= 9 (un)subscriptions, 7 priorities with ties, 4 filters) x every class x 2 identities' % n)


def stream_divergent(R):
    """scripts that must recurse without bound: model = fuel exhausted, hub = runaway recursion"""
    cases = []
    for c in (0, 1):
        for body in ([('B', 900, 1)], [('D', []), ('B', 900, 2)], [('I', 3, [('B', 900, 1)])]):
            cases.append({'parents': TREE, 'handlers': [[], body], 'script': [('S', 0, c, 1, 0, 10), ('B', 1, 2)]})
    models = [dec_model(t) for t in R.model([enc_case(c) for c in cases])] if R.model_available else []
    gmodels = [dec_model(t) for t in R.model([enc_case(c, 3) for c in cases])] if R.model_available else []
    for case, model, gmodel in zip(cases, models, gmodels):
        real = run_real(case)
        R.count(('divergent', enc_case(case)), nontrivial=True, stream='divergent', outcome='divergent')
        GEN_STATS['cases'] += 1
        if real[0] != 'diverged' or model[0] != 'diverged' or gmodel[0] != 'diverged':
            R.fail('correspondence', case_json(case, stream='divergent'), {'impl': real[0], 'model': model[0], 'translated': gmodel[0],
                                                                             'why': 'expected unbounded recursion on all sides'})
    R.stream('divergent', cases=len(cases), exhaustive=False, bound='handlers that re-broadcast a class they receive')


def run(R):
    sys.setrecursionlimit(max(sys.getrecursionlimit(), 8000))
    R.rule = ('a case = class tree + handler scripts + script; distinct = distinct wire encodings; non-trivial = the reference '
              'semantics makes at least one delivery; cases whose reference run nests more than %d handler calls or makes more than %d are '
              'divergent and skipped' % (REF_GUARD, REF_CALLS))
    R.exhaustive = True
    FAILS.by_class.clear()
    GEN_STATS.clear()
    try:
        stream_divergent(R)
        stream_find_handlers(R)
        stream_exhaustive(R)
        stream_random(R)
        R.stream('translated', cases=GEN_STATS['cases'] + GEN_STATS['find_handlers'], exhaustive=True, stats=dict(GEN_STATS),
                 bound='every case of the streams divergent / exhaustive / random once more through run_case entry 3 (the extracted script '
                       'interpreter calling the functions translated from hub.py by tools/gen/gen_hub.py: hub_broadcast, hub_delay_callbacks, '
                       'hub_ignore_callbacks, hub_subscribe, hub_unsubscribe, hub_unsubscribe_all, hub_find_handlers and their loops) and every '
                       'table of the stream find_handlers through entry 4 (hub_find_handlers alone); compared with the live Hub: status, log, final state')
    finally:
        FAILS.flush(R)


def replay_find_handlers(R, case):
    import functools
    parents, tb, (ident, c) = case['parents'], case['table'], case['message']
    rr = RealRun({'parents': parents, 'handlers': [[]] * 6, 'script': []})
    for l, ent in tb:
        for cc, h, f, p in ent:
            rr.interp([('S', l, cc, h, f, p)])
    impl = [(sub.lid, 0 if isinstance(hd, functools.partial) else hd.h)
            for sub, hd in rr.hub._find_handlers(rr.classes[c](None, tag=ident))]
    anc = [c]
    while parents[anc[-1]] != anc[-1]:
        anc.append(parents[anc[-1]])
    want = []
    for l, ent in tb:
        d = {e[0]: e[1:] for e in ent}
        near = [a for a in anc if a in d]
        if near and REF_FILTERS[d[near[0]][1]](ident):
            want.append((l, d[near[0]][0], d[near[0]][2]))
    prio_of = {(l, h): p for l, h, p in want}
    want = [(l, h) for l, h, p in sorted(want, key=lambda x: -x[2])]
    ok = sorted(impl) == sorted(want) and all(prio_of[a] >= prio_of[b] for a, b in zip(impl, impl[1:]))
    model = None
    if R.model_available:
        t = R.model([enc((2, [(0, list(parents)), (0, [(l, [(0, list(e)) for e in ent]) for l, ent in tb]), ident, c]))])[0]
        model = [tuple(x[0] for x in kids(e)) for e in kids(t)]
    return {'case': case, 'implementation': impl, 'expected (ties in any order)': want, 'model': model, 'violates': not ok}


def replay(R, case):
    sys.setrecursionlimit(max(sys.getrecursionlimit(), 8000))
    if case.get('stream') == 'find_handlers':
        return replay_find_handlers(R, case)
    c = case_from_json(case)
    real = run_real(c)
    ref = reference_for(c, real)
    model = dec_model(R.model([enc_case(c)])[0]) if R.model_available else None
    gmodel = dec_model(R.model([enc_case(c, 3)])[0]) if R.model_available else None
    js = judge(c, real, ref, model, gmodel)
    return {'case': case_json(c), 'implementation': real, 'reference': ref, 'model': model, 'translated': gmodel,
            'findings': [{'kind': k, 'why': d.get('why')} for k, d in js],
            'violates': any(k == 'oracle' for k, _ in js)}
