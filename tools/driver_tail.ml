(* ---- generic driver (hand-written, trusted): one S-expression per line ----
   syntax:  tree ::= INT | '(' INT tree* ')'
   Integers are decimal, converted to the extracted Z by extracted Z.add/Z.mul;
   printing uses extracted Z.div_eucl.  No OCaml int ever represents model data. *)

let rec pos_of_int n = if n = 1 then XH else if n land 1 = 0 then XO (pos_of_int (n lsr 1)) else XI (pos_of_int (n lsr 1))
let z_of_small n = if n = 0 then Z0 else if n > 0 then Zpos (pos_of_int n) else Zneg (pos_of_int (-n))
let z10 = z_of_small 10

let z_of_string s =
  let neg = String.length s > 0 && s.[0] = '-' in
  let acc = ref Z0 in
  String.iteri (fun i c -> if i = 0 && neg then () else begin
      if c < '0' || c > '9' then failwith ("bad int: " ^ s);
      acc := Z.add (Z.mul !acc z10) (z_of_small (Char.code c - 48)) end) s;
  if neg then Z.opp !acc else !acc

let rec small_of_pos = function XH -> 1 | XO p -> 2 * small_of_pos p | XI p -> 2 * small_of_pos p + 1
let small_of_z = function Z0 -> 0 | Zpos p -> small_of_pos p | Zneg p -> - (small_of_pos p)

let string_of_z z =
  let neg, z = (match z with Zneg p -> true, Zpos p | _ -> false, z) in
  if z = Z0 then "0" else begin
    let buf = Buffer.create 16 in
    let cur = ref z in
    while !cur <> Z0 do
      let (q, r) = Z.div_eucl !cur z10 in
      Buffer.add_char buf (Char.chr (48 + small_of_z r));
      cur := q
    done;
    let s = Buffer.contents buf in
    let n = String.length s in
    let r = String.init n (fun i -> s.[n - 1 - i]) in
    if neg then "-" ^ r else r
  end

let parse_line (s : string) : tree =
  let n = String.length s in
  let pos = ref 0 in
  let skip () = while !pos < n && (s.[!pos] = ' ' || s.[!pos] = '\t' || s.[!pos] = '\r') do incr pos done in
  let read_int () =
    skip ();
    let st = !pos in
    if !pos < n && s.[!pos] = '-' then incr pos;
    while !pos < n && s.[!pos] >= '0' && s.[!pos] <= '9' do incr pos done;
    if !pos = st then failwith ("int expected at " ^ string_of_int st);
    z_of_string (String.sub s st (!pos - st)) in
  let rec read_tree () =
    skip ();
    if !pos < n && s.[!pos] = '(' then begin
      incr pos;
      let v = read_int () in
      let kids = ref [] in
      skip ();
      while !pos < n && s.[!pos] <> ')' do
        kids := read_tree () :: !kids; skip ()
      done;
      if !pos >= n then failwith "unclosed paren";
      incr pos;
      T (v, List.rev !kids)
    end else T (read_int (), []) in
  let t = read_tree () in
  skip ();
  if !pos <> n then failwith "trailing input";
  t

let rec print_tree buf (T (v, kids)) =
  match kids with
  | [] -> Buffer.add_string buf (string_of_z v)
  | _ -> Buffer.add_char buf '('; Buffer.add_string buf (string_of_z v);
    List.iter (fun k -> Buffer.add_char buf ' '; print_tree buf k) kids;
    Buffer.add_char buf ')'

let () =
  let buf = Buffer.create 65536 in
  (try
     while true do
       let line = input_line stdin in
       if String.length line > 0 then begin
         (try print_tree buf (run_case (parse_line line))
          with Failure m -> Buffer.add_string buf ("PARSE-ERROR " ^ m)
             | Stack_overflow -> Buffer.add_string buf "STACK-OVERFLOW");
         Buffer.add_char buf '\n';
         if Buffer.length buf > 60000 then (print_string (Buffer.contents buf); Buffer.clear buf)
       end
     done
   with End_of_file -> ());
  print_string (Buffer.contents buf)
