#!/usr/bin/env python3
"""
Fail-closed translator from a small subset of Python (as used by the pure
helper functions of glue/utils/array.py) to Gallina.

TRUSTED.  What it does, rule by rule (anything else raises Unsupported and the
translation is reported as broken, never silently approximated):

types    Z (Python int), bool, list Z, slice (Common.PyInt.slice),
         pair (Z*Z) for 2-argument slice(a, b), triple for slice(a, b, c) results,
         tuples of those.
exprs    int constants; names; + - * ; // -> Z.div ; % -> Z.modulo (both agree with
         Python for every non-zero divisor: floor / sign of divisor);
         unary - ; comparisons on ints -> <? <=? >? >=? =? and negb(=?);
         list <= list -> list_le (lexicographic, Python semantics);
         and/or/not -> && || negb; min/max -> Z.min/Z.max; len -> zlen;
         l[i] -> znth l i (negative i counts from the end); l[::-1] -> rev l;
         tuple(x)/list(x) -> x; [e] * n / [0]*n -> repeat; [f(i) for i in range(n)] -> map over py_range;
         np.prod(l) -> zprod l; any(p for (x,y) in zip(a,b)) -> existsb over combine;
         slice(a,b) -> (a,b); slice(a,b,c) -> (a,b,c);  x is None / is not None on optional args.
stmts    x = e ; x op= e ; l.append(e) ; l[i] = e ; l[i] op= e ; a,b,c = s.indices(n) (None -> ValueError);
         if/elif/else (branches that end in return/raise are 'terminal'; otherwise the
         assigned variables are joined through a tuple); return e ; raise ValueError(..) -> Err ValueError;
         for x in seq: body (assign-only body, optional trailing `break` guarded by ifs) ->
             fold_left over the tuple of assigned variables (+ a `brk` flag when break occurs);
         generator functions: `yield e` appends to the output list; a bare `return` ends it;
         while cond: body (must be the last statement) -> Fixpoint on explicit fuel that returns
             Err OutOfFuel when the fuel is exhausted; `break` must be the last statement of the body
             guarded by a single if.
"""
import ast
import sys
import textwrap


class Unsupported(Exception):
    pass


def fail(node, why):
    line = getattr(node, 'lineno', '?')
    raise Unsupported("line %s: %s: %s" % (line, why, ast.dump(node)[:200] if isinstance(node, ast.AST) else node))


RESERVED = {'end', 'in', 'at', 'as', 'fix', 'fun', 'let', 'match', 'with', 'then', 'else', 'if', 'return', 'length',
            'forall', 'exists', 'Type', 'Prop', 'Set', 'cofix', 'for', 'where', 'using', 'max', 'min', 'rev', 'map', 'seq'}


def nm(name):
    return name + '_' if name in RESERVED else name


CMP = {ast.Lt: '<?', ast.LtE: '<=?', ast.Gt: '>?', ast.GtE: '>=?', ast.Eq: '=?'}
BIN = {ast.Add: '+', ast.Sub: '-', ast.Mult: '*', ast.FloorDiv: '/', ast.Mod: 'mod'}

TY_Z, TY_B, TY_L, TY_SL, TY_P2, TY_P3 = 'Z', 'bool', 'list Z', 'slice', '(Z * Z)', '(Z * Z * Z)'


class FuncTranslator:
    def __init__(self, fn, argtypes, rettype, known_funcs):
        self.fn = fn
        self.name = fn.name
        self.env = dict(argtypes)          # python name -> type string; 'opt Z' for optional ints
        self.rettype = rettype             # element type for generators, value type otherwise
        self.known = known_funcs           # name -> (argtypes, rettype, raises)
        self.is_gen = any(isinstance(n, (ast.Yield,)) for n in ast.walk(fn))
        self.aux = []                      # auxiliary Fixpoint texts
        self.raises = any(isinstance(n, ast.Raise) for n in ast.walk(fn)) or \
            any(isinstance(n, ast.Attribute) and n.attr == 'indices' for n in ast.walk(fn)) or self.is_gen

    # ---------------- expressions ----------------
    def expr(self, e):
        if isinstance(e, ast.Constant):
            if isinstance(e.value, bool):
                return ('true' if e.value else 'false'), TY_B
            if isinstance(e.value, int):
                return ('(%d)' % e.value), TY_Z
            fail(e, 'constant')
        if isinstance(e, ast.Name):
            if e.id not in self.env:
                fail(e, 'unknown name')
            t = self.env[e.id]
            if t == 'none' or t.startswith('opt '):
                fail(e, 'None-valued optional used as value')
            return nm(e.id), t
        if isinstance(e, ast.UnaryOp):
            if isinstance(e.op, ast.USub):
                a, t = self.expr(e.operand)
                self.want(e, t, TY_Z)
                return '(- %s)' % a, TY_Z
            if isinstance(e.op, ast.Not):
                a, t = self.expr(e.operand)
                self.want(e, t, TY_B)
                return '(negb %s)' % a, TY_B
            fail(e, 'unary op')
        if isinstance(e, ast.BinOp):
            if isinstance(e.op, ast.Mult) and isinstance(e.left, ast.List):
                if len(e.left.elts) != 1:
                    fail(e, 'list repeat')
                a, ta = self.expr(e.left.elts[0])
                b, tb = self.expr(e.right)
                self.want(e, ta, TY_Z), self.want(e, tb, TY_Z)
                return '(repeat %s (Z.to_nat %s))' % (a, b), TY_L
            if type(e.op) not in BIN:
                fail(e, 'binary op')
            a, ta = self.expr(e.left)
            b, tb = self.expr(e.right)
            self.want(e, ta, TY_Z), self.want(e, tb, TY_Z)
            return '(%s %s %s)' % (a, BIN[type(e.op)], b), TY_Z
        if isinstance(e, ast.BoolOp):
            parts = []
            for v in e.values:
                a, t = self.expr(v)
                self.want(e, t, TY_B)
                parts.append(a)
            op = ' && ' if isinstance(e.op, ast.And) else ' || '
            return '(' + op.join(parts) + ')', TY_B
        if isinstance(e, ast.Compare):
            if len(e.ops) != 1:
                fail(e, 'chained comparison')
            op = e.ops[0]
            rhs = e.comparators[0]
            if isinstance(op, (ast.Is, ast.IsNot)):
                if not (isinstance(rhs, ast.Constant) and rhs.value is None and isinstance(e.left, ast.Name)
                        and self.env.get(e.left.id, '').startswith('opt')):
                    fail(e, 'is/is not')
                test = '(is_none %s)' % nm(e.left.id)
                return (test if isinstance(op, ast.Is) else '(negb %s)' % test), TY_B
            a, ta = self.expr(e.left)
            b, tb = self.expr(rhs)
            if ta == TY_L and tb == TY_L and isinstance(op, ast.LtE):
                return '(list_le %s %s)' % (a, b), TY_B
            self.want(e, ta, TY_Z), self.want(e, tb, TY_Z)
            if isinstance(op, ast.NotEq):
                return '(negb (%s =? %s))' % (a, b), TY_B
            if type(op) not in CMP:
                fail(e, 'comparison')
            return '(%s %s %s)' % (a, CMP[type(op)], b), TY_B
        if isinstance(e, ast.Subscript):
            v, tv = self.expr(e.value)
            self.want(e, tv, TY_L)
            s = e.slice
            if isinstance(s, ast.Slice):
                if s.lower is None and s.upper is None and isinstance(s.step, ast.UnaryOp) and \
                        isinstance(s.step.op, ast.USub) and isinstance(s.step.operand, ast.Constant) and s.step.operand.value == 1:
                    return '(rev %s)' % v, TY_L
                fail(e, 'slice subscript')
            i, ti = self.expr(s)
            self.want(e, ti, TY_Z)
            return '(znth %s %s)' % (v, i), TY_Z
        if isinstance(e, ast.List):
            parts = []
            for x in e.elts:
                a, t = self.expr(x)
                self.want(e, t, TY_Z)
                parts.append(a)
            return '[' + '; '.join(parts) + ']', TY_L
        if isinstance(e, ast.ListComp):
            return self.comp(e)
        if isinstance(e, ast.Call):
            return self.call(e)
        fail(e, 'expression')

    def want(self, node, got, exp):
        if got != exp:
            fail(node, 'type %s where %s expected' % (got, exp))

    def comp(self, e):
        if len(e.generators) != 1 or e.generators[0].ifs:
            fail(e, 'comprehension')
        g = e.generators[0]
        if not isinstance(g.target, ast.Name):
            fail(e, 'comprehension target')
        seq, ts = self.expr(g.iter)
        self.want(e, ts, TY_L)
        saved = self.env.get(g.target.id)
        self.env[g.target.id] = TY_Z
        body, tb = self.expr(e.elt)
        if saved is None:
            del self.env[g.target.id]
        else:
            self.env[g.target.id] = saved
        if tb == TY_Z:
            return '(map (fun %s => %s) %s)' % (nm(g.target.id), body, seq), TY_L
        if tb == TY_P2:
            return '(map (fun %s => %s) %s)' % (nm(g.target.id), body, seq), 'list (Z * Z)'
        fail(e, 'comprehension element type')

    def call(self, e):
        f = e.func
        if e.keywords:
            fail(e, 'keyword arguments')
        if isinstance(f, ast.Name):
            n = f.id
            if n in ('min', 'max') and len(e.args) == 2:
                a, ta = self.expr(e.args[0])
                b, tb = self.expr(e.args[1])
                self.want(e, ta, TY_Z), self.want(e, tb, TY_Z)
                return '(Z.%s %s %s)' % (n, a, b), TY_Z
            if n == 'len' and len(e.args) == 1:
                a, ta = self.expr(e.args[0])
                if not ta.startswith('list'):
                    fail(e, 'len of non-list')
                return '(zlen %s)' % a, TY_Z
            if n in ('tuple', 'list') and len(e.args) == 1:
                return self.expr(e.args[0])
            if n == 'range':
                args = [self.expr(a) for a in e.args]
                for _, t in args:
                    self.want(e, t, TY_Z)
                a = [x for x, _ in args]
                if len(a) == 1:
                    return '(py_range 0 %s 1)' % a[0], TY_L
                if len(a) == 2:
                    return '(py_range %s %s 1)' % (a[0], a[1]), TY_L
                if len(a) == 3:
                    return '(py_range %s %s %s)' % tuple(a), TY_L
                fail(e, 'range arity')
            if n == 'slice':
                args = [self.expr(a) for a in e.args]
                for _, t in args:
                    self.want(e, t, TY_Z)
                a = [x for x, _ in args]
                if len(a) == 2:
                    return '(%s, %s)' % tuple(a), TY_P2
                if len(a) == 3:
                    return '(%s, %s, %s)' % tuple(a), TY_P3
                fail(e, 'slice arity')
            if n == 'any' and len(e.args) == 1 and isinstance(e.args[0], ast.GeneratorExp):
                g = e.args[0]
                if len(g.generators) != 1 or g.generators[0].ifs:
                    fail(e, 'any()')
                gen = g.generators[0]
                it = gen.iter
                if not (isinstance(it, ast.Call) and isinstance(it.func, ast.Name) and it.func.id == 'zip'
                        and len(it.args) == 2 and isinstance(gen.target, ast.Tuple) and len(gen.target.elts) == 2):
                    fail(e, 'any() over non-zip')
                a, ta = self.expr(it.args[0])
                b, tb = self.expr(it.args[1])
                self.want(e, ta, TY_L), self.want(e, tb, TY_L)
                x, y = gen.target.elts
                saved = dict(self.env)
                self.env[x.id] = TY_Z
                self.env[y.id] = TY_Z
                body, tbody = self.expr(g.elt)
                self.env = saved
                self.want(e, tbody, TY_B)
                return "(existsb (fun xy => let '(%s, %s) := xy in %s) (combine %s %s))" % (nm(x.id), nm(y.id), body, a, b), TY_B
            if n in self.known:
                argt, rett, raises = self.known[n]
                if raises:
                    fail(e, 'call of raising function in expression position')
                parts = []
                for a, t in zip(e.args, argt):
                    if t.startswith('opt '):
                        t = t[4:]
                        if isinstance(a, ast.Name) and self.env.get(a.id) == 'none':
                            parts.append('None')
                        else:
                            x, tx = self.expr(a)
                            self.want(e, tx, t)
                            parts.append('(Some %s)' % x)
                    else:
                        x, tx = self.expr(a)
                        self.want(e, tx, t)
                        parts.append(x)
                return '(%s %s)' % (n, ' '.join(parts)), rett
            fail(e, 'call')
        if isinstance(f, ast.Attribute):
            if isinstance(f.value, ast.Name) and f.value.id == 'np' and f.attr == 'prod' and len(e.args) == 1:
                a, ta = self.expr(e.args[0])
                self.want(e, ta, TY_L)
                return '(zprod %s)' % a, TY_Z
        fail(e, 'call')

    # ---------------- statements ----------------
    def assigned(self, stmts):
        """names assigned (in order of first assignment) by a statement list"""
        out = []

        def add(n):
            if n not in out:
                out.append(n)
        for s in stmts:
            if isinstance(s, ast.Assign):
                for t in s.targets:
                    if isinstance(t, ast.Name):
                        add(t.id)
                    elif isinstance(t, ast.Subscript) and isinstance(t.value, ast.Name):
                        add(t.value.id)
                    elif isinstance(t, ast.Tuple):
                        for x in t.elts:
                            add(x.id)
                    else:
                        fail(s, 'assignment target')
            elif isinstance(s, ast.AugAssign):
                t = s.target
                if isinstance(t, ast.Name):
                    add(t.id)
                elif isinstance(t, ast.Subscript) and isinstance(t.value, ast.Name):
                    add(t.value.id)
                else:
                    fail(s, 'augassign target')
            elif isinstance(s, ast.Expr) and isinstance(s.value, ast.Call) and isinstance(s.value.func, ast.Attribute) \
                    and s.value.func.attr == 'append' and isinstance(s.value.func.value, ast.Name):
                add(s.value.func.value.id)
            elif isinstance(s, ast.Expr) and isinstance(s.value, ast.Yield):
                add('out0_')
            elif isinstance(s, ast.If):
                for n in self.assigned(s.body) + self.assigned(s.orelse):
                    add(n)
            elif isinstance(s, ast.For):
                for n in self.assigned(s.body):
                    add(n)
            elif isinstance(s, ast.Break):
                add('brk0_')
            elif isinstance(s, (ast.Return, ast.Raise, ast.Expr, ast.Pass)):
                pass
            else:
                fail(s, 'statement')
        return out

    def terminal(self, stmts):
        if not stmts:
            return False
        last = stmts[-1]
        if isinstance(last, (ast.Return, ast.Raise)):
            return True
        if isinstance(last, ast.If):
            return bool(last.orelse) and self.terminal(last.body) and self.terminal(last.orelse)
        return False

    def tup(self, names):
        if len(names) == 1:
            return nm(names[0])
        return '(' + ', '.join(nm(n) for n in names) + ')'

    def pat(self, names):
        if len(names) == 1:
            return nm(names[0])
        return "'(" + ', '.join(nm(n) for n in names) + ')'

    def simple(self, s, rest):
        """translate one simple (non-control) statement followed by the text `rest`"""
        if isinstance(s, ast.Assign):
            if len(s.targets) != 1:
                fail(s, 'multiple targets')
            t = s.targets[0]
            if isinstance(t, ast.Tuple):
                v = s.value
                if isinstance(v, ast.Call) and isinstance(v.func, ast.Attribute) and v.func.attr == 'indices' \
                        and len(t.elts) == 3 and len(v.args) == 1:
                    sl, tsl = self.expr(v.func.value)
                    self.want(s, tsl, TY_SL)
                    n, tn = self.expr(v.args[0])
                    self.want(s, tn, TY_Z)
                    for x in t.elts:
                        self.env[x.id] = TY_Z
                    names = ', '.join(nm(x.id) for x in t.elts)
                    return 'match slice_indices %s %s with None => Err ValueError | Some (%s) =>\n%s end' % (sl, n, names, rest())
                fail(s, 'tuple assignment')
            if isinstance(t, ast.Name):
                v, tv = self.expr(s.value)
                if t.id in self.env and self.env[t.id] not in (tv, 'none'):
                    fail(s, 'variable changes type')
                self.env[t.id] = tv
                return 'let %s : %s := %s in\n%s' % (nm(t.id), tv, v, rest())
            if isinstance(t, ast.Subscript) and isinstance(t.value, ast.Name):
                l, tl = self.expr(t.value)
                self.want(s, tl, TY_L)
                i, ti = self.expr(t.slice)
                self.want(s, ti, TY_Z)
                v, tv = self.expr(s.value)
                self.want(s, tv, TY_Z)
                return 'let %s := zupd %s %s %s in\n%s' % (l, l, i, v, rest())
            fail(s, 'assignment')
        if isinstance(s, ast.AugAssign):
            if type(s.op) not in BIN:
                fail(s, 'augassign op')
            new = ast.BinOp(left=self.load(s.target), op=s.op, right=s.value)
            asg = ast.Assign(targets=[s.target], value=new, lineno=s.lineno)
            return self.simple(asg, rest)
        if isinstance(s, ast.Expr) and isinstance(s.value, ast.Call) and isinstance(s.value.func, ast.Attribute) \
                and s.value.func.attr == 'append':
            l, tl = self.expr(s.value.func.value)
            self.want(s, tl, TY_L)
            v, tv = self.expr(s.value.args[0])
            self.want(s, tv, TY_Z)
            return 'let %s := %s ++ [%s] in\n%s' % (l, l, v, rest())
        if isinstance(s, ast.Expr) and isinstance(s.value, ast.Yield):
            v, tv = self.expr(s.value.value)
            if 'list ' + tv != self.rettype and 'list (' + tv + ')' != self.rettype:
                fail(s, 'yield type %s vs %s' % (tv, self.rettype))
            return 'let out0_ := out0_ ++ [%s] in\n%s' % (v, rest())
        if isinstance(s, ast.Expr) and isinstance(s.value, ast.Constant) and isinstance(s.value.value, str):
            return rest()   # docstring
        if isinstance(s, ast.Pass):
            return rest()
        fail(s, 'statement')

    def load(self, target):
        t = ast.parse(ast.unparse(target), mode='eval').body
        return t

    def assign_block(self, stmts, vars_):
        """statements that only assign; value = tuple of vars_"""
        if not stmts:
            return self.tup(vars_)
        s = stmts[0]
        rest = lambda: self.assign_block(stmts[1:], vars_)
        if isinstance(s, ast.Break):
            if len(stmts) != 1:
                fail(s, 'break not last in block')
            return 'let brk0_ := true in\n' + self.tup(vars_)
        if isinstance(s, ast.If):
            return self.join_if(s, rest)
        if isinstance(s, ast.For):
            return self.for_loop(s, rest)
        if isinstance(s, (ast.Return, ast.Raise)):
            fail(s, 'return/raise inside an assign-only block')
        return self.simple(s, rest)

    def join_if(self, s, rest):
        c, tc = self.expr(s.test)
        self.want(s, tc, TY_B)
        vs = self.assigned([s])
        for v in vs:
            if v not in self.env and v not in ('brk0_', 'out0_'):
                fail(s, 'variable %s first assigned inside a branch' % v)
        a = self.assign_block(s.body, vs)
        b = self.assign_block(s.orelse, vs)
        return 'let %s := (if %s then\n%s\nelse\n%s) in\n%s' % (self.pat(vs), c, a, b, rest())

    def for_loop(self, s, rest):
        if s.orelse or not isinstance(s.target, ast.Name):
            fail(s, 'for loop form')
        seq, ts = self.expr(s.iter)
        self.want(s, ts, TY_L)
        vs = self.assigned(s.body)
        has_brk = 'brk0_' in vs
        vs = [v for v in vs if v != 'brk0_'] + (['brk0_'] if has_brk else [])
        for v in vs:
            if v not in self.env and v not in ('brk0_', 'out0_'):
                fail(s, 'loop variable %s not initialised before the loop' % v)
        saved = self.env.get(s.target.id)
        self.env[s.target.id] = TY_Z
        body = self.assign_block(s.body, vs)
        if saved is None:
            del self.env[s.target.id]
        else:
            self.env[s.target.id] = saved
        if has_brk:
            body = 'if brk0_ then %s else\n%s' % (self.tup(vs), body)
            init = self.tup([v for v in vs if v != 'brk0_']).rstrip(')')
            init = '(%s, false)' % ', '.join(nm(v) for v in vs if v != 'brk0_')
            outpat = self.pat(vs)
        else:
            init = self.tup(vs)
            outpat = self.pat(vs)
        def ty(v):
            return TY_B if v == 'brk0_' else (self.rettype if v == 'out0_' else self.env[v])
        stty = ' * '.join('(%s)' % ty(v) for v in vs)
        return 'let %s := fold_left (fun (st0_ : %s) (%s : Z) => let %s := st0_ in\n%s) %s %s in\n%s' % (
            outpat, stty, nm(s.target.id), self.pat(vs), body, seq, init, rest())

    def ret(self, text):
        return ('Ok %s' % text) if self.raises else text

    def block(self, stmts):
        """statements of a function body: value = the function result"""
        if not stmts:
            if self.is_gen:
                return 'Ok out0_'
            fail(self.fn, 'function may fall off the end')
        s = stmts[0]
        rest = lambda: self.block(stmts[1:])
        if isinstance(s, ast.Return):
            if s.value is None:
                if not self.is_gen:
                    fail(s, 'bare return')
                return 'Ok out0_'
            v, tv = self.expr(s.value)
            if tv != self.rettype:
                fail(s, 'return type %s vs %s' % (tv, self.rettype))
            return self.ret(v)
        if isinstance(s, ast.Raise):
            exc = s.exc
            if isinstance(exc, ast.Call) and isinstance(exc.func, ast.Name) and exc.func.id in ('ValueError', 'IndexError', 'TypeError'):
                return 'Err %s' % exc.func.id
            fail(s, 'raise')
        if isinstance(s, ast.If) and self.static(s.test) is not None:
            taken = s.body if self.static(s.test) else s.orelse
            if self.terminal(taken):
                return self.block(list(taken))
            return self.block(list(taken) + stmts[1:])
        if isinstance(s, ast.If):
            if self.terminal(s.body) and not self.assigned_only(s.orelse):
                c, tc = self.expr(s.test)
                self.want(s, tc, TY_B)
                saved = dict(self.env)
                a = self.block(s.body)
                self.env = dict(saved)
                if s.orelse:
                    if self.terminal(s.orelse):
                        if len(stmts) > 1:
                            fail(stmts[1], 'unreachable code after terminal if/else')
                        b = self.block(s.orelse)
                    else:
                        b = self.block(s.orelse + stmts[1:])
                else:
                    b = rest()
                return 'if %s then\n%s\nelse\n%s' % (c, a, b)
            if s.orelse and self.terminal(s.orelse) and not self.terminal(s.body):
                # if c: assigns else: terminal   ==> if not c: terminal ; assigns
                c, tc = self.expr(s.test)
                self.want(s, tc, TY_B)
                saved = dict(self.env)
                b = self.block(s.orelse)
                self.env = dict(saved)
                a = self.block(s.body + stmts[1:])
                return 'if %s then\n%s\nelse\n%s' % (c, a, b)
            if self.mixed_chain(s):
                # elif chain where some branches are terminal and others assign: push the rest into each branch
                c, tc = self.expr(s.test)
                self.want(s, tc, TY_B)
                saved = dict(self.env)
                a = self.block(s.body + ([] if self.terminal(s.body) else stmts[1:]))
                self.env = dict(saved)
                b = self.block(s.orelse + ([] if self.terminal(s.orelse) else stmts[1:]))
                return 'if %s then\n%s\nelse\n%s' % (c, a, b)
            return self.join_if(s, rest)
        if isinstance(s, ast.For):
            return self.for_loop(s, rest)
        if isinstance(s, ast.While):
            if len(stmts) != 1:
                fail(s, 'while must be the last statement')
            return self.while_loop(s)
        return self.simple(s, rest)

    def assigned_only(self, stmts):
        return False

    def static(self, t):
        """compile-time value of a test over optional arguments (True/False) or None if dynamic"""
        if isinstance(t, ast.Compare) and len(t.ops) == 1 and isinstance(t.ops[0], (ast.Is, ast.IsNot)) \
                and isinstance(t.left, ast.Name) and isinstance(t.comparators[0], ast.Constant) \
                and t.comparators[0].value is None and t.left.id in self.optional:
            isnone = self.env[t.left.id] == 'none'
            return isnone if isinstance(t.ops[0], ast.Is) else (not isnone)
        if isinstance(t, ast.BoolOp):
            vals = [self.static(v) for v in t.values]
            if isinstance(t.op, ast.And):
                if any(v is False for v in vals):
                    return False
                if all(v is True for v in vals):
                    return True
                return None
            if any(v is True for v in vals):
                return True
            if all(v is False for v in vals):
                return False
            return None
        if isinstance(t, ast.UnaryOp) and isinstance(t.op, ast.Not):
            v = self.static(t.operand)
            return None if v is None else (not v)
        return None

    def mixed_chain(self, s):
        def has_term(st):
            return any(isinstance(n, (ast.Return, ast.Raise)) for x in st for n in ast.walk(x))
        return has_term(s.body) or has_term(s.orelse)

    def names_read(self, nodes):
        out = []
        for n in nodes:
            for x in ast.walk(n):
                if isinstance(x, ast.Name) and x.id in self.env and x.id not in out:
                    out.append(x.id)
        return out

    def while_loop(self, s):
        if s.orelse or not self.is_gen:
            fail(s, 'while form')
        body = list(s.body)
        # trailing "if c: break"
        brk_cond = None
        if body and isinstance(body[-1], ast.If) and len(body[-1].body) == 1 and isinstance(body[-1].body[0], ast.Break) \
                and not body[-1].orelse:
            brk_cond = body[-1].test
            body = body[:-1]
        if any(isinstance(n, ast.Break) for b in body for n in ast.walk(b) if not isinstance(b, ast.For)) or \
                any(isinstance(n, (ast.Return, ast.Raise, ast.While)) for b in body for n in ast.walk(b)):
            fail(s, 'while body form')
        vs = [v for v in self.assigned(body) if v != 'out0_']
        # variables first assigned inside the body are locals of one iteration; state = those live before
        state = [v for v in vs if v in self.env]
        reads = self.names_read([s])
        free = [v for v in reads if v not in state]
        cond, tc = self.expr(s.test)
        self.want(s, tc, TY_B)
        loop = '%s_loop' % self.name
        env_before = dict(self.env)
        call = '%s fuel0_ %s out0_' % (loop, ' '.join(nm(v) for v in free + state))

        def after():
            if brk_cond is None:
                return call
            b, tb = self.expr(brk_cond)
            self.want(s, tb, TY_B)
            return 'if %s then Ok out0_ else %s' % (b, call)
        body_txt = self.loop_block(body, after)
        params = ' '.join('(%s : %s)' % (nm(v), env_before[v]) for v in free + state)
        self.aux.append(
            'Fixpoint %s (fuel0_ : nat) %s (out0_ : %s) {struct fuel0_} : result (%s) :=\n'
            'match fuel0_ with O => Err OutOfFuel | S fuel0_ =>\nif %s then\n%s\nelse Ok out0_ end.\n'
            % (loop, params, self.rettype, self.rettype, cond, body_txt))
        self.env = env_before
        return '%s fuel0_ %s out0_' % (loop, ' '.join(nm(v) for v in free + state))

    def loop_block(self, stmts, after):
        if not stmts:
            return after()
        s = stmts[0]
        rest = lambda: self.loop_block(stmts[1:], after)
        if isinstance(s, ast.If):
            return self.join_if(s, rest)
        if isinstance(s, ast.For):
            return self.for_loop(s, rest)
        return self.simple(s, rest)

    # ---------------- function ----------------
    def translate(self):
        import itertools
        fn = self.fn
        args = [a.arg for a in fn.args.args]
        for a in args:
            if a not in self.argtypes0:
                fail(fn, 'untyped argument %s' % a)
        self.optional = [a for a in args if self.argtypes0[a].startswith('opt ')]
        arms = []
        loops = {}
        for combo in itertools.product([False, True], repeat=len(self.optional)):
            self.env = {a: t for a, t in self.argtypes0.items() if not t.startswith('opt ')}
            for a, some in zip(self.optional, combo):
                self.env[a] = self.argtypes0[a][4:] if some else 'none'
            self.aux = []
            txt = self.block(list(fn.body))
            for k, a in enumerate(self.aux):
                key = a.replace('%s_loop' % self.name, '@LOOP@')
                if key not in loops:
                    loops[key] = '%s_loop%d' % (self.name, len(loops))
                txt = txt.replace('%s_loop ' % self.name, loops[key] + ' ')
            pats = ', '.join(('Some %s' % nm(a)) if some else 'None' for a, some in zip(self.optional, combo))
            arms.append((pats, txt))
        params = []
        for a in args:
            t = self.argtypes0[a]
            params.append('(%s : %s)' % (nm(a), ('option (%s)' % t[4:]) if t.startswith('opt ') else t))
        rt = self.rettype
        if self.raises:
            rt = 'result (%s)' % rt
        extra = ''
        pre = ''
        if self.is_gen:
            extra = '(fuel0_ : nat) '
            pre = 'let out0_ : %s := [] in\n' % self.rettype
        if self.optional:
            body = 'match %s with\n' % ', '.join(nm(a) for a in self.optional)
            for pats, txt in arms:
                body += '| %s =>\n%s\n' % (pats, txt)
            body += 'end'
        else:
            body = arms[0][1]
        auxtxt = ''.join(key.replace('@LOOP@', name) for key, name in loops.items())
        header = 'Definition %s %s%s : %s :=\n%s%s.\n' % (self.name, extra, ' '.join(params), rt, pre, body)
        return auxtxt + '\n' + header


def opt_rewrite(fn, optargs):
    """`if n_max is None: return X` at the top and `elif chunk_shape is None:` style tests on optional
    arguments are kept as tests; after a terminal `is None` test the argument is known to be Some:
    the translator handles this by matching on the option at the point of the test."""
    return fn


class OptMatch(ast.NodeTransformer):
    pass


def translate_function(src, name, argtypes, rettype, known):
    mod = ast.parse(src)
    fns = [n for n in mod.body if isinstance(n, ast.FunctionDef) and n.name == name]
    if len(fns) != 1:
        raise Unsupported('function %s not found exactly once' % name)
    fn = fns[0]
    tr = FuncTranslator(fn, argtypes, rettype, known)
    tr.argtypes0 = dict(argtypes)
    return tr


HEADER = '''(* GENERATED by tools/py2gallina.py from %s on every run -- do not edit. *)
From Coq Require Import ZArith List Bool.
Import ListNotations.
From GV Require Import Common.PyInt.
Open Scope Z_scope.
Definition is_none {A} (o : option A) : bool := match o with None => true | Some _ => false end.

'''


def main():
    raise SystemExit('use tools/gen/gen_array.py')


if __name__ == '__main__':
    main()
