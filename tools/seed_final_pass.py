#!/usr/bin/env python3
"""Final regression pass: run the current quick check of each property against every stored seeded change.
   usage: seed_final_pass.py Cxx [Cyy ...]   (properties are processed sequentially; run disjoint sets in parallel)"""
import glob, json, os, subprocess, sys, tempfile, shutil
VERIF = os.path.dirname(os.path.dirname(os.path.abspath(__file__)))
def sh(cmd, cwd=None, env=None, timeout=5400):
    p = subprocess.run(cmd, shell=True, cwd=cwd, env=env, stdout=subprocess.PIPE, stderr=subprocess.STDOUT, timeout=timeout)
    return p.returncode, p.stdout.decode(errors='replace')
for prop in sys.argv[1:]:
    for d in sorted(glob.glob(os.path.join(VERIF, 'seeded', prop + '-*'))):
        mp = os.path.join(d, 'meta.json'); meta = json.load(open(mp)); sid = os.path.basename(d)
        wt = tempfile.mkdtemp(prefix='seedfin_'); os.rmdir(wt)
        try:
            rc, out = sh('git -C /repo worktree add --detach %s HEAD' % wt); assert rc == 0, out
            rc, out = sh('git apply %s' % os.path.join(d, 'patch.diff'), cwd=wt)
            if rc != 0:
                meta['final_pass'] = {'applies_on_final_tree': False, 'why': out.strip()[-300:]}
            else:
                demo = 'demo.py' if os.path.exists(os.path.join(d, 'demo.py')) else 'demo_test.py'
                shutil.copy(os.path.join(d, demo), os.path.join(wt, demo))
                env = dict(os.environ, PYTHONPATH=wt, MPLBACKEND='Agg', PYTHONHASHSEED='0', PYTHONDONTWRITEBYTECODE='1')
                rcd, _ = sh(('/venv/bin/python %s' % demo) if demo == 'demo.py' else ('/venv/bin/python -m pytest -q -p no:cacheprovider %s' % demo), cwd=wt, env=env, timeout=1800)
                rc, out = sh('./check %s --tier quick' % prop, cwd=VERIF, env=dict(os.environ, GLUE_REPO=wt))
                viol = [l for l in out.splitlines() if l.startswith('VIOLATION')]
                meta['final_pass'] = {'applies_on_final_tree': True, 'demo_fails_with_patch': rcd != 0, 'caught': bool(viol),
                                      'lines': [l[:200] for l in out.splitlines() if l.startswith(('VIOLATION', prop))][:3]}
        finally:
            sh('git -C /repo worktree remove --force %s' % wt); shutil.rmtree(wt, ignore_errors=True)
        json.dump(meta, open(mp, 'w'), indent=1)
        print(sid, meta['final_pass'].get('applies_on_final_tree'), meta['final_pass'].get('demo_fails_with_patch'), meta['final_pass'].get('caught'), flush=True)
    rc, out = sh('./check %s --tier quick' % prop, cwd=VERIF, env=dict(os.environ, GLUE_REPO='/repo'))
    print(prop, 'clean run exit', rc, [l[:120] for l in out.splitlines() if l.startswith(('VIOLATION', 'BROKEN'))][:2], flush=True)
