#!/usr/bin/env python3
"""Re-run the current check against an already confirmed seeded change: tools/seed_recheck.py <seed-id> ["note text"]
   (applies seeded/<id>/patch.diff in a fresh scratch worktree, runs ./check with GLUE_REPO, records caught_final in meta.json,
   then re-runs the check on /repo so that coq/gen and evidence describe the unchanged tree again)."""
import json, os, subprocess, sys, tempfile, shutil
VERIF = os.path.dirname(os.path.dirname(os.path.abspath(__file__)))
def sh(cmd, cwd=None, env=None, timeout=5400):
    p = subprocess.run(cmd, shell=True, cwd=cwd, env=env, stdout=subprocess.PIPE, stderr=subprocess.STDOUT, timeout=timeout)
    return p.returncode, p.stdout.decode(errors='replace')
sid = sys.argv[1]
d = os.path.join(VERIF, 'seeded', sid)
meta = json.load(open(os.path.join(d, 'meta.json')))
prop = meta['property']
wt = tempfile.mkdtemp(prefix='seedre_'); os.rmdir(wt)
try:
    rc, out = sh('git -C /repo worktree add --detach %s HEAD' % wt); assert rc == 0, out
    rc, out = sh('git apply %s' % os.path.join(d, 'patch.diff'), cwd=wt); assert rc == 0, out
    rc, out = sh('./check %s --tier quick' % prop, cwd=VERIF, env=dict(os.environ, GLUE_REPO=wt))
    viol = [l for l in out.splitlines() if l.startswith('VIOLATION')]
    meta['caught_final'] = bool(viol)
    meta['recheck_lines'] = [l[:300] for l in out.splitlines() if l.startswith(('VIOLATION', 'KNOWN', 'BROKEN', prop))][:8]
    if len(sys.argv) > 2:
        meta['note'] = sys.argv[2]
    rc2, _ = sh('./check %s --tier quick' % prop, cwd=VERIF, env=dict(os.environ, GLUE_REPO='/repo'))
    meta['recheck_clean_exit'] = rc2
finally:
    sh('git -C /repo worktree remove --force %s' % wt); shutil.rmtree(wt, ignore_errors=True)
json.dump(meta, open(os.path.join(d, 'meta.json'), 'w'), indent=1)
print(sid, 'caught_final =', meta['caught_final'], 'clean exit', meta.get('recheck_clean_exit'))
