#!/usr/bin/env python3
"""
Confirm a seeded breaking change and run the check against it.

  tools/seed_verify.py <dir with patch.diff + demo.py|demo_test.py + meta.json> <Cxx> <seed-id> [--no-suite]

Steps (all in a fresh scratch worktree of /repo's HEAD under $TMPDIR, removed afterwards):
  1. demo without the patch must pass, 2. patch applies, 3. demo with the patch must fail,
  4. the whole test suite (pytest -n 12) with the patch: every test of BASELINE.stable_pass still passes,
  5. ./check Cxx --tier quick with GLUE_REPO=<worktree> : records whether it reports a VIOLATION.
The result is stored as /verif/seeded/<seed-id>/{patch.diff, demo*, meta.json}.
"""
import json
import os
import shutil
import subprocess
import sys
import tempfile
import xml.etree.ElementTree as ET

VERIF = os.path.dirname(os.path.dirname(os.path.abspath(__file__)))


def sh(cmd, cwd=None, env=None, timeout=3600):
    p = subprocess.run(cmd, shell=True, cwd=cwd, env=env, stdout=subprocess.PIPE, stderr=subprocess.STDOUT, timeout=timeout)
    return p.returncode, p.stdout.decode(errors='replace')


def main():
    src, prop, sid = sys.argv[1], sys.argv[2], sys.argv[3]
    no_suite = '--no-suite' in sys.argv
    tier = 'thorough' if '--thorough' in sys.argv else 'quick'
    wt = tempfile.mkdtemp(prefix='seedverify_')
    os.rmdir(wt)
    res = {'seed': sid, 'property': prop}
    try:
        rc, out = sh('git -C /repo worktree add --detach %s HEAD' % wt)
        assert rc == 0, out
        env = dict(os.environ, PYTHONPATH=wt, MPLBACKEND='Agg', PYTHONHASHSEED='0', PYTHONDONTWRITEBYTECODE='1')
        demo = 'demo.py' if os.path.exists(os.path.join(src, 'demo.py')) else 'demo_test.py'
        shutil.copy(os.path.join(src, demo), os.path.join(wt, demo))
        run_demo = ('/venv/bin/python %s' % demo) if demo == 'demo.py' else ('/venv/bin/python -m pytest -q -p no:cacheprovider %s' % demo)
        rc0, out0 = sh(run_demo, cwd=wt, env=env)
        res['demo_without_patch'] = 'pass' if rc0 == 0 else 'FAIL: ' + out0[-400:]
        rc, out = sh('git apply %s' % os.path.abspath(os.path.join(src, 'patch.diff')), cwd=wt)
        res['patch_applies'] = rc == 0
        assert rc == 0, out
        rc1, out1 = sh(run_demo, cwd=wt, env=env)
        res['demo_with_patch'] = 'fails (as required)' if rc1 != 0 else 'PASSES (bad seed)'
        res['demo_output_with_patch'] = out1[-600:]
        if not no_suite:
            junit = os.path.join(wt, 'junit.xml')
            rc, out = sh('/venv/bin/python -m pytest -q -p no:cacheprovider -n %s --timeout=900 --continue-on-collection-errors '
                         '--junitxml=%s glue 2>&1 | tail -5' % (os.environ.get('SEED_N', '12'), junit), cwd=wt, env=env, timeout=5400)
            base = set(json.load(open('/root/.vp/BASELINE.json'))['stable_pass'])
            failed = set()
            seen = set()
            for tc in ET.parse(junit).getroot().iter('testcase'):
                tid = '%s::%s' % (tc.get('classname'), tc.get('name'))
                seen.add(tid)
                if any(ch.tag in ('failure', 'error') for ch in tc):
                    failed.add(tid)
            newly = sorted(t for t in failed if t in base)
            missing = sorted(t for t in base if t not in seen)
            res['suite_tail'] = out[-300:]
            res['suite_new_failures'] = newly[:20]
            res['suite_missing_tests'] = len(missing)
            res['suite_ok'] = not newly and len(missing) == 0
        env2 = dict(os.environ, GLUE_REPO=wt)
        rc, out = sh('./check %s --tier %s' % (prop, tier), cwd=VERIF, env=env2, timeout=5400)
        viol = [l for l in out.splitlines() if l.startswith('VIOLATION')]
        res['check_exit'] = rc
        res['check_reports_violation'] = bool(viol)
        res['check_lines'] = [l[:300] for l in out.splitlines() if l.startswith(('VIOLATION', 'KNOWN', 'BROKEN', prop))][:8]
        if viol:
            # keep the first replay next to the seed
            path = viol[0].split('replay=')[1].split()[0]
            if os.path.exists(path):
                res['replay_excerpt'] = open(path).read()[:1500]
        # the run above rewrote coq/gen and evidence/<prop>.json from the PATCHED tree: run the check again on the real /repo
        # so that the generated files and the evidence describe the unchanged tree again
        rc2, out2 = sh('./check %s --tier quick' % prop, cwd=VERIF, env=dict(os.environ, GLUE_REPO='/repo'), timeout=5400)
        res['clean_rerun_exit'] = rc2
    finally:
        sh('git -C /repo worktree remove --force %s' % wt)
        shutil.rmtree(wt, ignore_errors=True)
    dst = os.path.join(VERIF, 'seeded', sid)
    os.makedirs(dst, exist_ok=True)
    for f in os.listdir(src):
        if f in ('patch.diff', 'demo.py', 'demo_test.py'):
            shutil.copy(os.path.join(src, f), os.path.join(dst, f))
    meta = {}
    if os.path.exists(os.path.join(src, 'meta.json')):
        try:
            meta = json.load(open(os.path.join(src, 'meta.json')))
        except Exception:
            meta = {'raw': open(os.path.join(src, 'meta.json')).read()[:2000]}
    meta['property'] = prop
    meta['confirmed_by_integrator'] = res
    json.dump(meta, open(os.path.join(dst, 'meta.json'), 'w'), indent=1)
    print(json.dumps(res, indent=1))


if __name__ == '__main__':
    main()
