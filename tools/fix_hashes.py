#!/usr/bin/env python3
"""Rewrite the commit hashes in known_findings/*.json 'fixed' entries to the hashes of the same-subject commits on /repo main."""
import glob, json, subprocess
def sh(c):
    return subprocess.run(c, shell=True, stdout=subprocess.PIPE, stderr=subprocess.DEVNULL).stdout.decode().strip()
main = {}
for line in sh('git -C /repo log --format="%h %s" 56f48f0..main').splitlines():
    h, s = line.split(' ', 1)
    main[s] = h
for f in sorted(glob.glob('/verif/known_findings/*.json')):
    j = json.load(open(f))
    ch = False
    for e in j.get('fixed', []):
        h = e.get('commit', '')
        if h in main.values():
            continue
        subj = sh('git -C /repo log -1 --format=%%s %s' % h)   # worktree branches share the object store
        if subj in main:
            e['commit'] = main[subj]; ch = True
        else:
            print('UNRESOLVED', f, h, subj)
    if ch:
        json.dump(j, open(f, 'w'), indent=1)
        print('updated', f)
