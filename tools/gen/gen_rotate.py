#!/usr/bin/env python3
"""
Regenerate coq/gen/Gen_rotate.v from /repo/glue/core/roi.py: the ANGLE LOGIC of Roi.rotate_by and of the rotate_to methods of
RectangularROI, EllipticalROI, PolygonalROI and Projected3dROI, translated from the source.  Fail-closed: anything outside the
shapes below aborts with TRANSLATION-FAILED (exit 3) and the check reports itself broken.

Angles are rotation pairs (cosine, sine) in the model (coq/C08/Model.v: ang, ang_add, ang_sub, ang_zero, theta_or_zero).
Angle expressions translate as

    theta, dtheta, <local name>          -> the Gallina variable of that name
    self.theta                           -> self_theta
    getattr(self, 'theta', 0.0)          -> theta_or_zero self_theta_opt
    0, 0.0                               -> ang_zero
    a + b, a - b                         -> ang_add a b, ang_sub a b
    a % (k * np.pi)                      -> only as the quantity of the polygon's skip test: emitted as (a, k half turns), and
                                            GenLink.v proves k = 2 (the full turn is the only modulus a rotation pair can express)
    0 if x is None else x                -> match x with None => ang_zero | Some t => t end

and nothing else (no calls such as np.fmod, no other modulus, no scaling, no negation).

Expected shapes:
    Roi.rotate_by(self, dtheta, **kwargs):      self.rotate_to(<A>, **kwargs)
    RectangularROI / EllipticalROI.rotate_to:   self.theta = <A or the None-default>
    PolygonalROI.rotate_to(self, theta, center=None):
        theta = 0 if theta is None else theta
        center = self.center() if center is None else center
        dtheta = <A>
        if self.defined() and not np.isclose(<A> % (<k> * np.pi | np.pi), 0.0, atol=<const>):
            dx, dy = np.array([self.vx, self.vy]) - np.array(center).reshape(2, 1)
            self.vx, self.vy = (rotation_matrix_2d(<A>) @ (dx, dy) + np.array(center).reshape(2, 1)).tolist()
        self.theta = <A>
    Projected3dROI.rotate_to(self, theta):      return self.roi_2d.rotate_to(theta)
"""
import ast
import os
import sys
from fractions import Fraction

REPO = os.environ.get('GLUE_REPO', '/repo')
SRC = os.path.join(REPO, 'glue/core/roi.py')
HERE = os.path.dirname(os.path.abspath(__file__))
OUT = os.environ.get('GEN_ROTATE_OUT') or os.path.join(os.path.dirname(os.path.dirname(HERE)), 'coq/gen/Gen_rotate.v')


class Unsupported(Exception):
    pass


def fail(node, why):
    raise Unsupported('line %s: %s: %s' % (getattr(node, 'lineno', '?'), why, ast.unparse(node)[:160]))


def is_pi(e):
    return ast.unparse(e) in ('np.pi', 'numpy.pi', 'math.pi')


def half_turns(e):
    """the modulus of a `%`: k * pi with a positive integer literal k (np.pi alone is k = 1)"""
    if is_pi(e):
        return 1
    if isinstance(e, ast.BinOp) and isinstance(e.op, ast.Mult):
        for a, b in ((e.left, e.right), (e.right, e.left)):
            if is_pi(b) and isinstance(a, ast.Constant) and isinstance(a.value, int) and not isinstance(a.value, bool) and a.value > 0:
                return a.value
    fail(e, 'modulus must be k * np.pi')


def none_default(e, names):
    """`0 if x is None else x` -> (x, gallina)"""
    if (isinstance(e, ast.IfExp) and isinstance(e.test, ast.Compare) and len(e.test.ops) == 1 and isinstance(e.test.ops[0], ast.Is)
            and isinstance(e.test.left, ast.Name) and isinstance(e.test.comparators[0], ast.Constant) and e.test.comparators[0].value is None
            and isinstance(e.orelse, ast.Name) and e.orelse.id == e.test.left.id
            and isinstance(e.body, ast.Constant) and e.body.value in (0, 0.0) and not isinstance(e.body.value, bool)):
        return e.orelse.id
    return None


def angle(e, names):
    """angle expression -> Gallina term over the variables in `names` (python name -> gallina name)"""
    if isinstance(e, ast.Name):
        if e.id not in names:
            fail(e, 'unknown name in an angle expression')
        return names[e.id]
    if isinstance(e, ast.Attribute) and ast.unparse(e) == 'self.theta':
        if 'self.theta' not in names:
            fail(e, 'self.theta not available here')
        return names['self.theta']
    if isinstance(e, ast.Call) and ast.unparse(e) in ("getattr(self, 'theta', 0.0)", "getattr(self, 'theta', 0)"):
        if 'getattr' not in names:
            fail(e, 'getattr(self, theta) not available here')
        return '(theta_or_zero %s)' % names['getattr']
    if isinstance(e, ast.Constant) and not isinstance(e.value, bool) and e.value in (0, 0.0):
        return 'ang_zero'
    if isinstance(e, ast.BinOp) and isinstance(e.op, (ast.Add, ast.Sub)):
        return '(%s %s %s)' % ('ang_add' if isinstance(e.op, ast.Add) else 'ang_sub', angle(e.left, names), angle(e.right, names))
    fail(e, 'unsupported angle expression (only names, self.theta, getattr(self, "theta", 0.0), 0, + and - are angles; a modulus is accepted only as '
            'the quantity of the skip test)')


def body_of(fn):
    return [s for s in fn.body if not (isinstance(s, ast.Expr) and isinstance(s.value, ast.Constant) and isinstance(s.value.value, str))]


def method(mod, cls, name):
    c = [n for n in mod.body if isinstance(n, ast.ClassDef) and n.name == cls]
    if len(c) != 1:
        raise Unsupported('class %s not found exactly once' % cls)
    f = [n for n in c[0].body if isinstance(n, ast.FunctionDef) and n.name == name]
    if len(f) != 1:
        raise Unsupported('%s.%s not found exactly once' % (cls, name))
    return f[0]


def args_of(fn):
    a = fn.args
    return ([x.arg for x in a.args], [ast.unparse(d) for d in a.defaults], a.vararg and a.vararg.arg, a.kwarg and a.kwarg.arg)


def tr_rotate_by(mod):
    fn = method(mod, 'Roi', 'rotate_by')
    if args_of(fn) != (['self', 'dtheta'], [], None, 'kwargs'):
        fail(fn, 'signature of Roi.rotate_by')
    b = body_of(fn)
    if len(b) != 1 or not (isinstance(b[0], ast.Expr) and isinstance(b[0].value, ast.Call)):
        fail(fn, 'Roi.rotate_by must be the single call self.rotate_to(<angle>, **kwargs)')
    call = b[0].value
    if ast.unparse(call.func) != 'self.rotate_to' or len(call.args) != 1 or len(call.keywords) != 1 or call.keywords[0].arg is not None \
            or ast.unparse(call.keywords[0].value) != 'kwargs':
        fail(call, 'Roi.rotate_by must be the single call self.rotate_to(<angle>, **kwargs)')
    t = angle(call.args[0], {'dtheta': 'dtheta', 'getattr': 'self_theta'})
    return ('(* Roi.rotate_by(self, dtheta): the angle handed to self.rotate_to; self_theta = None for a class without a theta attribute *)\n'
            'Definition rotate_by_arg (self_theta : option ang) (dtheta : ang) : ang := %s.\n' % t)


def tr_store_theta(mod, cls, gname):
    fn = method(mod, cls, 'rotate_to')
    if args_of(fn) != (['self', 'theta'], [], None, None):
        fail(fn, 'signature of %s.rotate_to' % cls)
    b = body_of(fn)
    if len(b) != 1 or not (isinstance(b[0], ast.Assign) and len(b[0].targets) == 1 and ast.unparse(b[0].targets[0]) == 'self.theta'):
        fail(fn, '%s.rotate_to must be the single assignment self.theta = <angle>' % cls)
    v = b[0].value
    if none_default(v, None) == 'theta':
        t = 'match theta with None => ang_zero | Some t => t end'
    else:
        fail(v, 'stored angle must be `0 if theta is None else theta`')
    return ('(* %s.rotate_to(self, theta): the angle stored in self.theta *)\n'
            'Definition %s (self_theta : ang) (theta : option ang) : ang := %s.\n' % (cls, gname, t))


DX = 'dx, dy = np.array([self.vx, self.vy]) - np.array(center).reshape(2, 1)'


def tr_polygon(mod):
    fn = method(mod, 'PolygonalROI', 'rotate_to')
    if args_of(fn) != (['self', 'theta', 'center'], ['None'], None, None):
        fail(fn, 'signature of PolygonalROI.rotate_to')
    b = body_of(fn)
    if len(b) != 5:
        fail(fn, 'PolygonalROI.rotate_to: five statements expected')
    s0, s1, s2, s3, s4 = b
    if not (isinstance(s0, ast.Assign) and ast.unparse(s0.targets[0]) == 'theta' and len(s0.targets) == 1 and none_default(s0.value, None) == 'theta'):
        fail(s0, 'first statement must be theta = 0 if theta is None else theta')
    if ast.unparse(s1) != 'center = self.center() if center is None else center':
        fail(s1, 'second statement must default the centre to self.center()')
    if not (isinstance(s2, ast.Assign) and len(s2.targets) == 1 and ast.unparse(s2.targets[0]) == 'dtheta'):
        fail(s2, 'third statement must assign dtheta')
    names = {'theta': 'theta', 'self.theta': 'self_theta'}
    dth = angle(s2.value, names)
    names2 = dict(names, dtheta='dtheta')
    # the skip test
    if not (isinstance(s3, ast.If) and not s3.orelse and isinstance(s3.test, ast.BoolOp) and isinstance(s3.test.op, ast.And) and len(s3.test.values) == 2
            and ast.unparse(s3.test.values[0]) == 'self.defined()' and isinstance(s3.test.values[1], ast.UnaryOp)
            and isinstance(s3.test.values[1].op, ast.Not) and isinstance(s3.test.values[1].operand, ast.Call)):
        fail(s3, 'fourth statement must be `if self.defined() and not np.isclose(...)`')
    call = s3.test.values[1].operand
    if ast.unparse(call.func) not in ('np.isclose', 'numpy.isclose') or len(call.args) != 2 or [k.arg for k in call.keywords] != ['atol']:
        fail(call, 'skip test must be np.isclose(<angle>, 0.0, atol=<const>)')
    ref = call.args[1]
    if not (isinstance(ref, ast.Constant) and not isinstance(ref.value, bool) and ref.value in (0, 0.0)):
        fail(ref, 'skip test must compare with 0.0')
    atol = call.keywords[0].value
    if not (isinstance(atol, ast.Constant) and isinstance(atol.value, float) and 0 < atol.value < 1):
        fail(atol, 'atol must be a float literal in (0, 1)')
    atol_q = Fraction(repr(atol.value))
    quantity = call.args[0]
    if not (isinstance(quantity, ast.BinOp) and isinstance(quantity.op, ast.Mod)):
        fail(quantity, 'the skip test must reduce the angle modulo k * np.pi')
    k = half_turns(quantity.right)
    skip_inner = angle(quantity.left, names2)
    # the rotation
    if len(s3.body) != 2 or ast.unparse(s3.body[0]) != DX:
        fail(s3, 'rotation body, first statement')
    r = s3.body[1]
    ok = (isinstance(r, ast.Assign) and len(r.targets) == 1 and ast.unparse(r.targets[0]) == '(self.vx, self.vy)' or
          isinstance(r, ast.Assign) and len(r.targets) == 1 and ast.unparse(r.targets[0]) == 'self.vx, self.vy')
    calls = [n for n in ast.walk(r.value) if isinstance(n, ast.Call) and ast.unparse(n.func) == 'rotation_matrix_2d'] if ok else []
    if not ok or len(calls) != 1 or len(calls[0].args) != 1 or calls[0].keywords:
        fail(r, 'rotation body, second statement')
    marker = '__ANGLE__'
    templ = ast.unparse(r.value).replace(ast.unparse(calls[0]), 'rotation_matrix_2d(%s)' % marker)
    if templ != '(rotation_matrix_2d(%s) @ (dx, dy) + np.array(center).reshape(2, 1)).tolist()' % marker:
        fail(r, 'rotation body: vertices must become R(angle) @ (v - center) + center')
    mat = angle(calls[0].args[0], names2)
    if not (isinstance(s4, ast.Assign) and len(s4.targets) == 1 and ast.unparse(s4.targets[0]) == 'self.theta'):
        fail(s4, 'last statement must store self.theta')
    new = angle(s4.value, names2)
    sig = '(self_theta theta dtheta : ang)'
    return ('(* PolygonalROI.rotate_to(self, theta, center=None) *)\n'
            'Definition poly_rotate_to_theta (theta : option ang) : ang := match theta with None => ang_zero | Some t => t end.\n'
            'Definition poly_rotate_to_dtheta (self_theta theta : ang) : ang := %s.\n'
            '(* the rotation is skipped when np.isclose(<skip_quantity> %% (<skip_half_turns> * pi), 0.0, atol=<skip_atol>) *)\n'
            'Definition poly_rotate_to_skip_quantity %s : ang := %s.\n'
            'Definition poly_rotate_to_skip_half_turns : Z := %d.\n'
            'Definition poly_rotate_to_skip_atol : Q := %d # %d.\n'
            '(* the vertices become R(<matrix_angle>) @ (v - center) + center *)\n'
            'Definition poly_rotate_to_matrix_angle %s : ang := %s.\n'
            'Definition poly_rotate_to_new_theta %s : ang := %s.\n'
            % (dth, sig, skip_inner, k, atol_q.numerator, atol_q.denominator, sig, mat, sig, new))


def tr_projected(mod):
    fn = method(mod, 'Projected3dROI', 'rotate_to')
    if args_of(fn) != (['self', 'theta'], [], None, None):
        fail(fn, 'signature of Projected3dROI.rotate_to')
    b = body_of(fn)
    if len(b) != 1 or ast.unparse(b[0]) != 'return self.roi_2d.rotate_to(theta)':
        fail(fn, 'Projected3dROI.rotate_to must forward to the wrapped region')
    return ('(* Projected3dROI.rotate_to(self, theta): forwards theta unchanged to the wrapped region *)\n'
            'Definition projected_rotate_to_arg (theta : ang) : ang := theta.\n')


def generate():
    mod = ast.parse(open(SRC).read())
    parts = [tr_rotate_by(mod), tr_store_theta(mod, 'RectangularROI', 'rect_rotate_to_theta'),
             tr_store_theta(mod, 'EllipticalROI', 'ellipse_rotate_to_theta'), tr_polygon(mod), tr_projected(mod)]
    out = ('(* GENERATED by tools/gen/gen_rotate.py from glue/core/roi.py on every run -- do not edit. *)\n'
           'From Coq Require Import ZArith QArith.\nFrom GV Require Import C08.Model.\nOpen Scope Q_scope.\n\n' + '\n'.join(parts))
    if not os.path.exists(OUT) or open(OUT).read() != out:
        open(OUT, 'w').write(out)


if __name__ == '__main__':
    try:
        generate()
    except Unsupported as e:
        print('TRANSLATION-FAILED: %s' % e)
        sys.exit(3)
    print('ok', OUT)
