#!/usr/bin/env python3
"""
Regenerate coq/gen/Gen_versioned.v from /repo/glue/core/state.py: the guards of VersionedDict.__setitem__
(which decide whether a (key, version) assignment is accepted) and the selection made by __getitem__,
translated from the source.  Fail-closed: any statement outside the forms below aborts.

__setitem__ forms (after the key unpacking / int() conversion prologue, which must be exactly the known one):
    if <cond>: raise ValueError(..) | KeyError(..)      cond over  version <|>|<=|>=|== INT,
                                                         (version +|- INT) [not] in self._data[item], and/or/not
    self._data[item][version] = value                    (must be last)
  -> Definition vd_setitem_guard (has : Z -> bool) (version : Z) : Z   (0 = stored; ValueError = 1; KeyError = 2)
__getitem__ forms:
    if key not in self._data: raise KeyError(key)
    versions = self._data[key]
    return versions[max(versions)], max(versions)
  -> Definition vd_getitem_newest : bool := true   (the returned pair is (value at the maximal version, maximal version))
"""
import ast
import os
import sys

REPO = os.environ.get('GLUE_REPO', '/repo')
SRC = os.path.join(REPO, 'glue/core/state.py')
HERE = os.path.dirname(os.path.abspath(__file__))
OUT = os.path.join(os.path.dirname(os.path.dirname(HERE)), 'coq/gen/Gen_versioned.v')
CMP = {ast.Lt: '<?', ast.LtE: '<=?', ast.Gt: '>?', ast.GtE: '>=?', ast.Eq: '=?'}


class Unsupported(Exception):
    pass


def fail(node, why):
    raise Unsupported('line %s: %s: %s' % (getattr(node, 'lineno', '?'), why, ast.unparse(node)[:140]))


def zexpr(e):
    if isinstance(e, ast.Name) and e.id == 'version':
        return 'version'
    if isinstance(e, ast.Constant) and isinstance(e.value, int) and not isinstance(e.value, bool):
        return '(%d)' % e.value
    if isinstance(e, ast.BinOp) and isinstance(e.op, (ast.Add, ast.Sub)):
        return '(%s %s %s)' % (zexpr(e.left), '+' if isinstance(e.op, ast.Add) else '-', zexpr(e.right))
    fail(e, 'integer expression')


def cond(e):
    if isinstance(e, ast.BoolOp):
        op = ' && ' if isinstance(e.op, ast.And) else ' || '
        return '(' + op.join(cond(v) for v in e.values) + ')'
    if isinstance(e, ast.UnaryOp) and isinstance(e.op, ast.Not):
        return '(negb %s)' % cond(e.operand)
    if isinstance(e, ast.Compare) and len(e.ops) == 1:
        op, rhs = e.ops[0], e.comparators[0]
        if isinstance(op, (ast.In, ast.NotIn)):
            if ast.unparse(rhs) != 'self._data[item]':
                fail(e, 'membership in something else than self._data[item]')
            t = '(has %s)' % zexpr(e.left)
            return t if isinstance(op, ast.In) else '(negb %s)' % t
        if type(op) in CMP:
            return '(%s %s %s)' % (zexpr(e.left), CMP[type(op)], zexpr(rhs))
        if isinstance(op, ast.NotEq):
            return '(negb (%s =? %s))' % (zexpr(e.left), zexpr(rhs))
    fail(e, 'condition')


PROLOGUE = [
    "if len(key) != 2:\n    raise ValueError('Key must be a (item, version) pair')",
    "(item, version) = key",
    "try:\n    version = int(version)\nexcept ValueError:\n    raise ValueError('Version must be an integer: %s' % version)",
]


def generate():
    mod = ast.parse(open(SRC).read())
    cls = [n for n in mod.body if isinstance(n, ast.ClassDef) and n.name == 'VersionedDict']
    if len(cls) != 1:
        raise Unsupported('class VersionedDict not found exactly once')
    meths = {n.name: n for n in cls[0].body if isinstance(n, ast.FunctionDef)}
    fn = meths.get('__setitem__')
    if fn is None or [a.arg for a in fn.args.args] != ['self', 'key', 'value']:
        raise Unsupported('VersionedDict.__setitem__(self, key, value) not found')
    body = [s for s in fn.body if not (isinstance(s, ast.Expr) and isinstance(s.value, ast.Constant))]
    def norm(t):
        return t.replace('(item, version) = key', 'item, version = key')
    for want, got in zip(PROLOGUE, body[:3]):
        if norm(ast.unparse(got)) != norm(want):
            fail(got, 'prologue of __setitem__ changed (expected %r)' % want)
    rest = body[3:]
    if not rest or ast.unparse(rest[-1]) != 'self._data[item][version] = value':
        fail(rest[-1] if rest else fn, 'last statement must be self._data[item][version] = value')
    txt = ''
    for s in rest[:-1]:
        if not (isinstance(s, ast.If) and not s.orelse and len(s.body) == 1 and isinstance(s.body[0], ast.Raise)
                and isinstance(s.body[0].exc, ast.Call) and isinstance(s.body[0].exc.func, ast.Name)
                and s.body[0].exc.func.id in ('ValueError', 'KeyError')):
            fail(s, 'guard form')
        txt += 'if %s then %s else\n' % (cond(s.test), s.body[0].exc.func.id)
    txt += '0'
    g = meths.get('__getitem__')
    gbody = [ast.unparse(s) for s in g.body if not (isinstance(s, ast.Expr) and isinstance(s.value, ast.Constant))] if g else []
    if gbody != ["if key not in self._data:\n    raise KeyError(key)", "versions = self._data[key]",
                 "return (versions[max(versions)], max(versions))"] and gbody[:2] + [gbody[-1].replace('return versions[max(versions)], max(versions)', 'return (versions[max(versions)], max(versions))')] != [
                     "if key not in self._data:\n    raise KeyError(key)", "versions = self._data[key]",
                     "return (versions[max(versions)], max(versions))"]:
        raise Unsupported('VersionedDict.__getitem__ changed: %r' % gbody)
    out = ('(* GENERATED by tools/gen/gen_versioned.py from glue/core/state.py on every run -- do not edit. *)\n'
           'From Coq Require Import ZArith List Bool.\nFrom GV Require Import Common.PyInt.\nOpen Scope Z_scope.\n\n'
           'Definition KeyError : Z := 2.\n\n'
           '(* VersionedDict.__setitem__ after key unpacking: [has v] = (v in self._data[item]); 0 = the value is stored *)\n'
           'Definition vd_setitem_guard (has : Z -> bool) (version : Z) : Z :=\n%s.\n\n'
           '(* VersionedDict.__getitem__ returns (versions[max(versions)], max(versions)) and raises KeyError for an unknown key *)\n'
           'Definition vd_getitem_newest : bool := true.\n' % txt)
    if not os.path.exists(OUT) or open(OUT).read() != out:
        open(OUT, 'w').write(out)


if __name__ == '__main__':
    try:
        generate()
    except Unsupported as e:
        print('TRANSLATION-FAILED: %s' % e)
        sys.exit(3)
    print('ok', OUT)
