#!/usr/bin/env python3
"""
Regenerate coq/gen/Gen_arraypure.v from the *current* source of glue/utils/array.py (ast only, nothing imported).

Property C20 treats the helpers of glue/utils/array.py as pure functions of their arguments.  This generator dumps, for every
function the property's anchors name (and, transitively, every module-level function or class they refer to), the facts that
decide whether that is true of the code:

  r_decos            the decorator list (DProperty / DSetter p / DOther "<source text>")
  r_rebound          the name is bound more than once at module level (e.g. `view_shape = lru_cache()(view_shape)`)
  r_globals          names declared `global` / `nonlocal`
  r_module_writes    stores / deletes / augmented assignments / method calls on module-level variables
  r_module_reads     reads of module-level variables whose value is not an immutable literal
  r_func_attrs       attributes of module-level functions or classes used as state (`f.cache`, `f.cache_info`, ...)
  r_attr_writes      attribute / item stores on an argument or an alias of one (`self._codes = ...`; `result = value; result.x = ...`)
  r_param_stored     parameters (or aliases of them) stored into an attribute / item: the callee keeps the caller's object
  r_mutable_defaults parameters whose default value is built once at definition time (list / dict / set / call)
  r_returns_param    parameters the function can hand back unchanged (`return <param>`, `x = <param>; ...; return x`, yield)
  r_calls            module-level functions / classes of the same file referred to

plus the class attributes of every class in the table (shared by all instances), the module-level variables, and a
fail-closed translation of `view_shape` itself (two lines; the numpy indexing stays an opaque operation):

  view_shape_gen np_index_shape shape view : option (list Z)

Anything outside the accepted shapes raises Unsupported -> TRANSLATION-FAILED (exit 3).  coq/C20/Purity.v states the table
theorem (no cache decorator, no module state, nothing handed back or kept except an explicit allow-list with reasons).
"""
import ast
import os
import sys

HERE = os.path.dirname(os.path.abspath(__file__))
REPO = os.environ.get('GLUE_REPO', '/repo')
SRC = os.path.join(REPO, 'glue', 'utils', 'array.py')
OUT = os.path.join(HERE, '..', '..', 'coq', 'gen', 'Gen_arraypure.v')

# the functions / classes named by the anchors of property C20
ROOT_FUNCTIONS = ['unbroadcast', 'broadcast_arrays_minimal', 'view_shape', 'find_chunk_shape', 'iterate_chunks', 'combine_slices',
                  'unique', 'index_lookup']
ROOT_CLASSES = ['categorical_ndarray']

MUTATING_METHODS = None   # every method call on a module-level variable counts as a possible write


class Unsupported(Exception):
    pass


def bad(node, why):
    raise Unsupported('line %s: %s: %s' % (getattr(node, 'lineno', '?'), why, ast.unparse(node)[:160] if isinstance(node, ast.AST) else node))


def coq_str(s):
    return '"' + s.replace('"', '""') + '"'


def coq_list(items):
    return '[' + '; '.join(items) + ']'


def immutable_literal(node):
    if isinstance(node, ast.Constant):
        return True
    if isinstance(node, ast.Tuple):
        return all(immutable_literal(e) for e in node.elts)
    if isinstance(node, ast.UnaryOp) and isinstance(node.operand, ast.Constant):
        return True
    return False


class Module:
    def __init__(self, tree):
        self.functions = {}      # name -> FunctionDef
        self.classes = {}        # name -> ClassDef
        self.imports = set()
        self.variables = {}      # name -> immutable? (bool)
        self.bind_count = {}
        for st in tree.body:
            if isinstance(st, (ast.FunctionDef,)):
                self.functions[st.name] = st
                self.bump(st.name)
            elif isinstance(st, ast.AsyncFunctionDef):
                bad(st, 'async function at module level')
            elif isinstance(st, ast.ClassDef):
                self.classes[st.name] = st
                self.bump(st.name)
            elif isinstance(st, ast.Import):
                for a in st.names:
                    n = (a.asname or a.name).split('.')[0]
                    self.imports.add(n)
                    self.bump(n)
            elif isinstance(st, ast.ImportFrom):
                for a in st.names:
                    if a.name == '*':
                        bad(st, 'star import: module-level names are no longer known')
                    n = a.asname or a.name
                    self.imports.add(n)
                    self.bump(n)
            elif isinstance(st, ast.Assign):
                for t in st.targets:
                    if not isinstance(t, ast.Name):
                        bad(st, 'module-level assignment to something that is not a plain name')
                    self.variables[t.id] = immutable_literal(st.value) and self.variables.get(t.id, True)
                    self.bump(t.id)
            elif isinstance(st, ast.Expr) and isinstance(st.value, ast.Constant) and isinstance(st.value.value, str):
                pass
            else:
                bad(st, 'module-level statement outside the accepted forms (import, def, class, NAME = value, docstring)')

    def bump(self, n):
        self.bind_count[n] = self.bind_count.get(n, 0) + 1


def local_names(fn):
    """parameters and every name the function binds"""
    a = fn.args
    params = [x.arg for x in a.posonlyargs + a.args + a.kwonlyargs]
    if a.vararg:
        params.append(a.vararg.arg)
    if a.kwarg:
        params.append(a.kwarg.arg)
    bound = set(params)
    declared = set()
    for n in ast.walk(fn):
        if isinstance(n, (ast.Global, ast.Nonlocal)):
            declared |= set(n.names)
    for n in ast.walk(fn):
        if isinstance(n, ast.Name) and isinstance(n.ctx, (ast.Store, ast.Del)) and n.id not in declared:
            bound.add(n.id)
        elif isinstance(n, (ast.FunctionDef, ast.ClassDef, ast.AsyncFunctionDef)) and n is not fn:
            bound.add(n.name)
        elif isinstance(n, (ast.Import, ast.ImportFrom)):
            for al in n.names:
                bound.add((al.asname or al.name).split('.')[0])
        elif isinstance(n, ast.ExceptHandler) and n.name:
            bound.add(n.name)
    return params, bound, declared


def base_name(node):
    """the Name at the bottom of an attribute / subscript chain, or None"""
    while isinstance(node, (ast.Attribute, ast.Subscript)):
        node = node.value
    return node.id if isinstance(node, ast.Name) else None


def analyse(mod, qual, fn, cls=None):
    params, bound, declared = local_names(fn)
    row = {'name': qual, 'decos': [], 'rebound': False, 'globals': sorted(declared), 'module_writes': [], 'module_reads': [],
           'func_attrs': [], 'attr_writes': [], 'param_stored': [], 'mutable_defaults': [], 'returns_param': [], 'calls': []}
    # decorators
    for d in fn.decorator_list:
        if isinstance(d, ast.Name) and d.id == 'property':
            row['decos'].append('DProperty')
        elif isinstance(d, ast.Attribute) and d.attr == 'setter' and isinstance(d.value, ast.Name):
            row['decos'].append('DSetter %s' % coq_str(d.value.id))
        else:
            row['decos'].append('DOther %s' % coq_str(ast.unparse(d)))
    if cls is None:
        row['rebound'] = mod.bind_count.get(fn.name, 0) != 1
    # defaults
    a = fn.args
    pos = a.posonlyargs + a.args
    for p, dflt in list(zip(pos[len(pos) - len(a.defaults):], a.defaults)) + [(p, d) for p, d in zip(a.kwonlyargs, a.kw_defaults) if d is not None]:
        if not immutable_literal(dflt):
            row['mutable_defaults'].append(p.arg)
    # may-alias closure of the parameters (flow-insensitive): x = <alias>, x = <alias> if c else e, x = y = <alias>
    aliases = {p: p for p in params}

    def alias_of(e):
        if isinstance(e, ast.Name) and e.id in aliases:
            return aliases[e.id]
        if isinstance(e, ast.IfExp):
            return alias_of(e.body) or alias_of(e.orelse)
        if isinstance(e, ast.NamedExpr):
            return alias_of(e.value)
        return None
    changed = True
    while changed:
        changed = False
        for n in ast.walk(fn):
            tgts, val = [], None
            if isinstance(n, ast.Assign):
                tgts, val = n.targets, n.value
            elif isinstance(n, ast.AnnAssign) and n.value is not None:
                tgts, val = [n.target], n.value
            elif isinstance(n, ast.NamedExpr):
                tgts, val = [n.target], n.value
            for t in tgts:
                if isinstance(t, ast.Name) and val is not None:
                    src = alias_of(val)
                    if src and t.id not in aliases:
                        aliases[t.id] = src
                        changed = True
                elif isinstance(t, (ast.Tuple, ast.List)) and isinstance(val, (ast.Tuple, ast.List)) and len(t.elts) == len(val.elts):
                    for tt, vv in zip(t.elts, val.elts):
                        src = alias_of(vv)
                        if isinstance(tt, ast.Name) and src and tt.id not in aliases:
                            aliases[tt.id] = src
                            changed = True

    def add(key, s):
        if s not in row[key]:
            row[key].append(s)

    def returned(e):
        if e is None:
            return
        src = alias_of(e)
        if src:
            add('returns_param', src)
        if isinstance(e, (ast.Tuple, ast.List)):
            for x in e.elts:
                returned(x.value if isinstance(x, ast.Starred) else x)
        if isinstance(e, ast.IfExp):
            returned(e.body)
            returned(e.orelse)

    module_names = set(mod.functions) | set(mod.classes) | set(mod.variables) | mod.imports

    def is_module_level(name):
        return name in module_names and (name not in bound or name in declared)

    for n in ast.walk(fn):
        if isinstance(n, (ast.FunctionDef, ast.AsyncFunctionDef, ast.Lambda, ast.ClassDef)) and n is not fn:
            if not isinstance(n, ast.Lambda):
                bad(n, 'nested function / class inside a helper (closures can hold state)')
        if isinstance(n, ast.Return):
            returned(n.value)
        elif isinstance(n, (ast.Yield, ast.YieldFrom)):
            returned(n.value)
        # stores
        tgts = []
        if isinstance(n, ast.Assign):
            tgts = [(t, n.value) for t in n.targets]
        elif isinstance(n, ast.AugAssign):
            tgts = [(n.target, None)]
        elif isinstance(n, ast.AnnAssign):
            tgts = [(n.target, n.value)]
        elif isinstance(n, ast.Delete):
            tgts = [(t, None) for t in n.targets]
        for t, val in tgts:
            ts = t.elts if isinstance(t, (ast.Tuple, ast.List)) else [t]
            for tt in ts:
                if isinstance(tt, ast.Name):
                    if tt.id in declared:
                        add('module_writes', tt.id)
                elif isinstance(tt, (ast.Attribute, ast.Subscript)):
                    b = base_name(tt)
                    text = ast.unparse(tt)
                    if b is None:
                        add('module_writes', text)          # store through an expression we cannot name: treated as state
                    elif is_module_level(b):
                        add('module_writes', text)
                    else:
                        if b in aliases:
                            add('attr_writes', text)        # the object is an argument (or self): the call changes it
                        src = alias_of(val) if val is not None else None
                        if src:
                            add('param_stored', '%s <- %s' % (text, src))
        # method calls / attribute uses on module-level things
        if isinstance(n, ast.Attribute):
            b = n.value.id if isinstance(n.value, ast.Name) else None
            if b is not None and is_module_level(b):
                if b in mod.functions or b in mod.classes:
                    if not (b in mod.classes and isinstance(n.ctx, ast.Load) and n.attr in ('__name__',)):
                        add('func_attrs', ast.unparse(n))
                elif b in mod.variables:
                    add('module_writes' if True else '', ast.unparse(n))     # any attribute / method of a module variable
        if isinstance(n, ast.Name) and isinstance(n.ctx, ast.Load) and is_module_level(n.id):
            if n.id in mod.variables and not mod.variables[n.id]:
                add('module_reads', n.id)
            if n.id in mod.functions or n.id in mod.classes:
                add('calls', n.id)
        # the function's own attributes through its name are covered by func_attrs (its name is module-level)
        if isinstance(n, ast.Call):
            # container mutation through a parameter alias: cache.append(param) etc. keeps the caller's object
            if isinstance(n.func, ast.Attribute) and n.func.attr in ('append', 'add', 'insert', 'extend', 'setdefault', 'update', 'appendleft') \
                    and not (isinstance(n.func.value, ast.Name) and n.func.value.id not in aliases):
                # (a plain local list that is not an argument is private to the call)
                for arg in n.args:
                    src = alias_of(arg)
                    if src:
                        add('param_stored', '%s(...) <- %s' % (ast.unparse(n.func), src))
    # calls on self: self.method / self.property of the same class
    if cls is not None and params:
        selfname = params[0]
        members = {m.name for m in cls.body if isinstance(m, ast.FunctionDef)}
        for n in ast.walk(fn):
            if isinstance(n, ast.Attribute) and isinstance(n.value, ast.Name) and n.value.id in bound and n.attr in members:
                add('calls', '%s.%s' % (cls.name, n.attr))
    return row


def method_qual(cls, m):
    for d in m.decorator_list:
        if isinstance(d, ast.Attribute) and d.attr in ('setter', 'deleter', 'getter') and isinstance(d.value, ast.Name):
            return '%s.%s.%s' % (cls.name, m.name, d.attr)
    return '%s.%s' % (cls.name, m.name)


# ---------------------------------------------------------------- translation of view_shape
def translate_view_shape(fn):
    a = fn.args
    if [x.arg for x in a.args] != ['shape', 'view'] or a.vararg or a.kwarg or a.kwonlyargs or a.defaults or a.posonlyargs:
        bad(fn, 'view_shape must take exactly (shape, view)')
    if fn.decorator_list:
        bad(fn, 'view_shape must not be decorated')
    body = list(fn.body)
    if body and isinstance(body[0], ast.Expr) and isinstance(body[0].value, ast.Constant) and isinstance(body[0].value.value, str):
        body = body[1:]

    def expr(e, view_bound):
        # shape -> Some shape
        if isinstance(e, ast.Name) and e.id == 'shape':
            return 'Some shape'
        # np.broadcast_to(<constant>, shape)[view].shape   (or np.zeros / np.empty / np.ones (shape))  -> the opaque numpy indexing
        if (isinstance(e, ast.Attribute) and e.attr == 'shape' and isinstance(e.value, ast.Subscript)
                and isinstance(e.value.slice, ast.Name) and e.value.slice.id == 'view'):
            arr = e.value.value
            ok = False
            if isinstance(arr, ast.Call) and isinstance(arr.func, ast.Attribute) and isinstance(arr.func.value, ast.Name) and arr.func.value.id == 'np' \
                    and not arr.keywords:
                if arr.func.attr == 'broadcast_to' and len(arr.args) == 2 and isinstance(arr.args[0], ast.Constant) \
                        and isinstance(arr.args[1], ast.Name) and arr.args[1].id == 'shape':
                    ok = True
                if arr.func.attr in ('zeros', 'empty', 'ones') and len(arr.args) == 1 and isinstance(arr.args[0], ast.Name) and arr.args[0].id == 'shape':
                    ok = True
            if ok:
                if not view_bound:
                    bad(e, 'indexing with a view that is None on this path')
                return 'np_index_shape shape view'
        bad(e, 'view_shape: expression outside the translated subset')

    def block(stmts, view_bound):
        if not stmts:
            bad(fn, 'view_shape: a path falls off the end without a return')
        st = stmts[0]
        if isinstance(st, ast.Return) and st.value is not None:
            return expr(st.value, view_bound)
        if isinstance(st, ast.If):
            t = st.test
            if (isinstance(t, ast.Compare) and len(t.ops) == 1 and isinstance(t.left, ast.Name) and t.left.id == 'view'
                    and isinstance(t.comparators[0], ast.Constant) and t.comparators[0].value is None
                    and isinstance(t.ops[0], (ast.Is, ast.IsNot)) and view_bound is None):
                rest = stmts[1:]
                none_branch, some_branch = (st.body, st.orelse) if isinstance(t.ops[0], ast.Is) else (st.orelse, st.body)
                return ('match view with\n  | None => %s\n  | Some view => %s\n  end'
                        % (block(list(none_branch) + rest, False), block(list(some_branch) + rest, True)))
        bad(st, 'view_shape: statement outside the translated subset (if view is None / return)')
    text = block(body, None)
    return ('(* view_shape(shape, view): view = None is Python\'s None; np_index_shape is the opaque numpy operation\n'
            '   np.broadcast_to(1, shape)[view].shape (None = the indexing raises) *)\n'
            'Definition view_shape_gen {V : Type} (np_index_shape : list Z -> V -> option (list Z)) (shape : list Z) (view : option V)\n'
            '  : option (list Z) :=\n  %s.\n' % text)


def generate():
    src = open(SRC).read()
    tree = ast.parse(src)
    mod = Module(tree)
    rows = {}
    order = []
    work = []
    for f in ROOT_FUNCTIONS:
        if f not in mod.functions:
            bad(f, 'anchor function missing from glue/utils/array.py')
        work.append(f)
    for c in ROOT_CLASSES:
        if c not in mod.classes:
            bad(c, 'anchor class missing from glue/utils/array.py')
        work.append(c)
    class_rows = []
    seen = set()
    while work:
        name = work.pop(0)
        if name in seen:
            continue
        seen.add(name)
        if name in mod.functions:
            r = analyse(mod, name, mod.functions[name])
            rows[name] = r
            order.append(name)
            work += [c for c in r['calls'] if c not in seen and '.' not in c]
        elif name in mod.classes:
            cls = mod.classes[name]
            if cls.decorator_list or cls.keywords:
                bad(cls, 'class decorators / metaclass keywords are outside the accepted forms')
            for st in cls.body:
                if isinstance(st, ast.FunctionDef):
                    q = method_qual(cls, st)
                    if q in rows:
                        bad(st, 'method defined twice')
                    r = analyse(mod, q, st, cls)
                    rows[q] = r
                    order.append(q)
                    work += [c for c in r['calls'] if c not in seen and '.' not in c]
                elif isinstance(st, ast.Assign) and all(isinstance(t, ast.Name) for t in st.targets):
                    for t in st.targets:
                        class_rows.append((name, t.id, not immutable_literal(st.value)))
                elif isinstance(st, ast.Expr) and isinstance(st.value, ast.Constant) and isinstance(st.value.value, str):
                    pass
                else:
                    bad(st, 'class-level statement outside the accepted forms (def, NAME = value, docstring)')
            if mod.bind_count.get(name, 0) != 1:
                bad(cls, 'class name bound more than once at module level')
    # self.x members referred to as Class.member: map property names to their getter rows
    out = ['(* GENERATED by tools/gen/gen_arraypure.py from glue/utils/array.py on every run -- do not edit. *)',
           'From Coq Require Import ZArith List Bool String.', 'Import ListNotations.', 'Local Open Scope string_scope.', '',
           'Inductive deco := DProperty | DSetter (prop : string) | DOther (src : string).',
           'Record fn_row := mk_row { r_name : string; r_decos : list deco; r_rebound : bool; r_globals : list string;',
           '  r_module_writes : list string; r_module_reads : list string; r_func_attrs : list string; r_attr_writes : list string;',
           '  r_param_stored : list string; r_mutable_defaults : list string; r_returns_param : list string; r_calls : list string }.', '']
    out.append('Definition helper_table : list fn_row := [')
    items = []
    for q in order:
        r = rows[q]

        def L(k):
            return coq_list([coq_str(s) for s in r[k]])
        items.append('  mk_row %s %s %s %s\n    %s %s %s %s\n    %s %s %s %s' % (
            coq_str(r['name']), coq_list(r['decos']), 'true' if r['rebound'] else 'false', L('globals'),
            L('module_writes'), L('module_reads'), L('func_attrs'), L('attr_writes'),
            L('param_stored'), L('mutable_defaults'), L('returns_param'), L('calls')))
    out.append(';\n'.join(items))
    out.append('].')
    out.append('')
    out.append('(* class attributes (shared by all instances): (class, name, built from a mutable / non-literal value) *)')
    out.append('Definition class_attrs_gen : list (string * string * bool) := %s.' % coq_list(
        ['(%s, %s, %s)' % (coq_str(c), coq_str(n), 'true' if m else 'false') for c, n, m in class_rows]))
    out.append('(* module-level variables: (name, immutable literal) *)')
    out.append('Definition module_vars_gen : list (string * bool) := %s.' % coq_list(
        ['(%s, %s)' % (coq_str(n), 'true' if im else 'false') for n, im in sorted(mod.variables.items())]))
    out.append('Definition roots_gen : list string := %s.' % coq_list([coq_str(x) for x in ROOT_FUNCTIONS + ROOT_CLASSES]))
    out.append('')
    out.append('Local Open Scope Z_scope.')
    out.append(translate_view_shape(mod.functions['view_shape']))
    return '\n'.join(out) + '\n'


def main():
    out_path = sys.argv[1] if len(sys.argv) > 1 else OUT
    try:
        text = generate()
    except Unsupported as e:
        print('TRANSLATION-FAILED: %s' % e)
        sys.exit(3)
    except SyntaxError as e:
        print('TRANSLATION-FAILED: %s' % e)
        sys.exit(3)
    if not os.path.exists(out_path) or open(out_path).read() != text:
        with open(out_path + '.tmp', 'w') as f:
            f.write(text)
        os.replace(out_path + '.tmp', out_path)
    print('ok', out_path)


if __name__ == '__main__':
    main()
