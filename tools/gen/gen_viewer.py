#!/usr/bin/env python3
r"""
Regenerate coq/gen/Gen_viewer.v from the *current* source of

  glue/core/layer_artist.py            LayerArtistContainer.__contains__, __len__, __iter__, __getitem__, layers, _notify,
                                       append, remove, pop
  glue/viewers/common/layer_artist.py  LayerArtist.__init__
  glue/viewers/common/viewer.py        Viewer.__init__ (the callback registrations), _sync_state_layers,
                                       _sync_layer_artist_container, add_subset, add_data, remove_data, remove_subset,
                                       remove_layer, _add_subset, _update_data_numerical, _update_data, _update_subset,
                                       _remove_subset, _remove_data, _subset_has_data, _has_data_or_subset, register_to_hub
                                       (+ the class constants allow_duplicate_data, allow_duplicate_subset, large_data_size)

translated statement by statement / expression by expression into state-passing Gallina over the heap declared in the
preamble below (the container's artist list, state.layers, the collection as the viewer reads it, echo's delay counter and
snapshot for 'layers', a trace of opaque calls).  Callbacks (container.on_changed, state.add_callback('layers', ..)) are
passed to every translated procedure as a record `cb`; the recursion through them is closed by `knot` (explicit fuel;
exhaustion sets the error flag h_err).  FAIL-CLOSED: every accepted form is listed here; anything else aborts with the
line number (exit 3).

Types   viewer, container, vstate, session, dc, hub (no Gallina value: the one object of that kind)
        obj / dataobj / subobj (Gallina `layer`: a dataset LData d or a subset LSub s d g; refined by isinstance tests and by the
        message category), artist, optartist, lstate, artists, lstates, objs, objset, bool, int, optint, msg, str
Expressions
  names, True, False, None, integer literals, 'style' (only in `message.attribute == 'style'`)
  self.state, self._viewer_state (vstate), self._layer_artist_container (container), self.session(.data_collection)
  self.allow_duplicate_data / allow_duplicate_subset / large_data_size        (class constants, read from the class body)
  vstate.layers, container.artists, container.layers (the translated property), container._ignore_change_callbacks / _ignore_empty_callbacks
  artist.layer, artist.zorder, artist.state, lstate.layer, lstate.zorder, subobj.data, dataobj.subsets, dataobj.size
  message.subset / .data / .sender / .attribute     (allowed per message category, see register_to_hub below)
  A is B, A is not B (objects), X is [not] None (optint, optartist), A in L / A not in L (obj in container | objs | objset | dc;
  artist in artists; lstate in lstates), A == B, A >= B, A > B, A <= B, A < B (int; an optint operand is unwrapped), A + B
  not A, A and B, A or B (bool)
  isinstance(X, BaseData | Subset) (X : obj; refines X in the branches), isinstance(X, int) with X : obj (statically false)
  any(E for v in L), max(E for v in L), len(L), len(self) (container), [E for v in L], [E for v in L if C], (E for v in L)
  set(L), list(L), iter(L), tuple(L) (set results may only be tested with `in`), sorted(L, key=lambda x: E), L[::-1],
  self._layer_artist_container[X]
Statements
  docstrings, pass, return, return True/False/name, raise IncompatibleDataException(..)
  if / elif / else (the continuation is duplicated into branches that fall through)
  `if v is None: return ..` on an optartist binds the artist for the rest
  for v in L: ..  (state.layers itself: index-based live iteration `iter_live`; every other iterable is a snapshot: fold_left;
                   no return/raise/break/continue inside)
  for cb in self.change_callbacks / self.empty_callbacks: cb()
  with delay_callback(self.state, 'layers'): ..      with ignore_callback(X.state, 'zorder'): ..  (no model effect)
  v = E    artist.zorder = E    proceed = self.warn(..) (opaque answer)
  v = get_layer_artist_from_registry(X, self) or self.get_data_layer_artist(X) / get_subset_layer_artist(X)
      (registry: checked empty on the live package; get_*_layer_artist / get_layer_artist: checked one-line delegations to the
       constructor of _data_artist_cls / _subset_artist_cls = LayerArtist)
  self.artists.append(a) / .remove(a),  vstate.layers.append(s) / .remove(s)
  calls of translated methods; X.update(), X.remove() (artist), X._on_components_changed(..) inside
  `try: v = message.components_changed; X._on_components_changed(v) except AttributeError: pass`, self.draw_legend()  -> trace events
  in LayerArtist.__init__ only: super(..).__init__(..), self._viewer_state = viewer_state, self.layer = layer or layer_state.layer,
  self.state = layer_state or self._layer_state_cls(viewer_state=viewer_state, layer=self.layer), self.zorder = self.state.zorder,
  and, without model effect, self.visible = .., self._sync_zorder = .., self._sync_visible = .., self.state.add_callback('visible', ..),
  self._reset_cache()    (layer_state is None in every modelled call)
  in Viewer.__init__ only: super(..).__init__(..), self.state = .., self.state.data_collection = .., self._layer_artist_container = ..,
  self._layer_artist_container.on_changed(self.M), self.state.add_callback('layers', self.M[, priority=N])
  in register_to_hub only: super(..).register_to_hub(hub), hub.subscribe(self, msg.C, [handler=]self.H[, filter=self.F])
"""
import ast
import os
import sys

REPO = os.environ.get('GLUE_REPO', '/repo')
HERE = os.path.dirname(os.path.abspath(__file__))
OUT = os.path.join(os.path.dirname(os.path.dirname(HERE)), 'coq/gen/Gen_viewer.v')

V = 'glue/viewers/common/viewer.py'
LAC = 'glue/core/layer_artist.py'
VLA = 'glue/viewers/common/layer_artist.py'


class Unsupported(Exception):
    pass


CUR = {}


def fail(node, why):
    raise Unsupported('%s line %s: %s: %s' % (CUR.get('file', '?'), getattr(node, 'lineno', '?'), why, ast.unparse(node)[:140]))


VALUELESS = ('viewer', 'container', 'vstate', 'session', 'dc', 'hub', 'none', 'artistself')
OBJ = ('obj', 'dataobj', 'subobj')
COQ_TYPE = {'obj': 'layer', 'dataobj': 'layer', 'subobj': 'layer', 'artist': 'artist', 'optartist': 'option artist', 'lstate': 'lstate',
            'artists': 'list artist', 'lstates': 'list lstate', 'objs': 'list layer', 'subobjs': 'list layer', 'objset': 'list layer', 'bool': 'bool', 'int': 'Z',
            'optint': 'option Z', 'msg': 'message'}
ELEM = {'artists': 'artist', 'lstates': 'lstate', 'objs': 'obj', 'subobjs': 'subobj'}
RESERVED = {'end', 'in', 'let', 'match', 'with', 'fun', 'if', 'then', 'else', 'return', 'as', 'at', 'fix', 'forall', 'exists', 'Type', 'Set',
            'Prop', 'h', 'cb', 'layer', 'artist', 'message', 'lstate'}

# (file, class, method, kind, self type, [(param, type)])      kind: pure:<type> | proc | bool | ctor
FUNCS = [
    (LAC, 'LayerArtistContainer', '__contains__', 'pure:bool', 'container', [('item', 'obj')]),
    (LAC, 'LayerArtistContainer', '__len__', 'pure:int', 'container', []),
    (LAC, 'LayerArtistContainer', '__iter__', 'pure:artists', 'container', []),
    (LAC, 'LayerArtistContainer', '__getitem__', 'pure:artists', 'container', [('layer', 'obj')]),
    (LAC, 'LayerArtistContainer', 'layers', 'pure:objset', 'container', []),
    (LAC, 'LayerArtistContainer', '_notify', 'proc', 'container', []),
    (LAC, 'LayerArtistContainer', 'append', 'proc', 'container', [('artist', 'artist')]),
    (LAC, 'LayerArtistContainer', 'remove', 'proc', 'container', [('artist', 'artist')]),
    (LAC, 'LayerArtistContainer', 'pop', 'proc', 'container', [('layer', 'obj')]),
    (VLA, 'LayerArtist', '__init__', 'ctor', 'artistself', [('viewer_state', 'vstate'), ('layer_state', 'none'), ('layer', 'obj')]),
    (V, 'Viewer', '_sync_state_layers', 'proc', 'viewer', []),
    (V, 'Viewer', '_sync_layer_artist_container', 'proc', 'viewer', []),
    (V, 'Viewer', 'add_subset', 'bool', 'viewer', [('subset', 'subobj')]),
    (V, 'Viewer', 'add_data', 'bool', 'viewer', [('data', 'dataobj')]),
    (V, 'Viewer', 'remove_data', 'proc', 'viewer', [('data', 'dataobj')]),
    (V, 'Viewer', 'remove_subset', 'proc', 'viewer', [('subset', 'obj')]),
    (V, 'Viewer', 'remove_layer', 'proc', 'viewer', [('layer', 'obj')]),
    (V, 'Viewer', '_add_subset', 'proc', 'viewer', [('message', 'msg')]),
    (V, 'Viewer', '_update_data', 'proc', 'viewer', [('message', 'msg')]),
    (V, 'Viewer', '_update_data_numerical', 'proc', 'viewer', [('message', 'msg')]),
    (V, 'Viewer', '_update_subset', 'proc', 'viewer', [('message', 'msg')]),
    (V, 'Viewer', '_remove_subset', 'proc', 'viewer', [('message', 'msg')]),
    (V, 'Viewer', '_remove_data', 'proc', 'viewer', [('message', 'msg')]),
    (V, 'Viewer', '_subset_has_data', 'pure:bool', 'viewer', [('x', 'msg')]),
    (V, 'Viewer', '_has_data_or_subset', 'pure:bool', 'viewer', [('x', 'msg')]),
]
# the message vocabulary of the model (always declared, so that the hand-written environment of coq/C18/Model.v part 5 can
# name them even when register_to_hub no longer subscribes one of them)
KNOWN_CLASSES = ['SubsetCreateMessage', 'SubsetUpdateMessage', 'SubsetDeleteMessage', 'NumericalDataChangedMessage',
                 'DataCollectionDeleteMessage', 'ComponentsChangedMessage', 'ExternallyDerivableComponentsChangedMessage']
VARARGS_OK = {'_sync_state_layers', '_sync_layer_artist_container'}
TRANSLATED = {}      # (selftype, method) -> dict(name, kind, params, raising)
MSGCATS = {}         # method name -> set of message categories its `message` parameter may carry
CONSTS = {}          # Viewer class constants
# message classes whose handlers have no structural effect and are not translated (their filters neither)
OTHER_HANDLERS = {'_update_appearance_from_settings', '_update_computation', 'draw_legend'}
OTHER_FILTERS = {'_is_appearance_settings', '_has_layer_artist'}


def vn(name):
    return name + '_' if name in RESERVED else name


def is_name(e, n=None):
    return isinstance(e, ast.Name) and (n is None or e.id == n)


class Fn:
    def __init__(self, cls, name, kind, selft):
        self.cls, self.name, self.kind, self.selft = cls, name, kind, selft
        self.raising = False
        self.in_loop = False
        self.cats = MSGCATS.get(name, set())


def tenv(env, e):
    """a refined type recorded for the expression text (flow typing through isinstance), if any"""
    return env.get('#' + ast.unparse(e))


# ------------------------------------------------------------------ expressions
def ex(e, env, F):
    """-> (gallina text, type)"""
    r = tenv(env, e)
    if r is not None:
        v, _ = ex_raw(e, env, F)
        return v, r
    return ex_raw(e, env, F)


def ex_raw(e, env, F):
    if isinstance(e, ast.Constant):
        if e.value is True:
            return 'true', 'bool'
        if e.value is False:
            return 'false', 'bool'
        if e.value is None:
            return 'None', 'nonelit'
        if isinstance(e.value, int):
            return ('%d' % e.value) if e.value >= 0 else ('(%d)' % e.value), 'int'
        if e.value == 'style':
            return 'ATTR_style', 'str'
        fail(e, 'constant')
    if isinstance(e, ast.Name):
        if e.id not in env:
            fail(e, 'unknown variable')
        t = env[e.id]
        return (vn(e.id) if t not in VALUELESS else '(* %s *)' % e.id), t
    if isinstance(e, ast.Attribute):
        return ex_attr(e, env, F)
    if isinstance(e, ast.Compare) and len(e.ops) == 1:
        return ex_compare(e, env, F)
    if isinstance(e, ast.BoolOp):
        parts = [ex(v, env, F) for v in e.values]
        if any(t != 'bool' for _, t in parts):
            fail(e, 'and/or over non-booleans')
        sym = ' && ' if isinstance(e.op, ast.And) else ' || '
        return '(' + sym.join(v for v, _ in parts) + ')', 'bool'
    if isinstance(e, ast.UnaryOp) and isinstance(e.op, ast.Not):
        v, t = ex(e.operand, env, F)
        if t != 'bool':
            fail(e, 'not of a %s' % t)
        return '(negb %s)' % v, 'bool'
    if isinstance(e, ast.BinOp) and isinstance(e.op, (ast.Add, ast.Sub)):
        (va, ta), (vb, tb) = ex(e.left, env, F), ex(e.right, env, F)
        if ta != 'int' or tb != 'int':
            fail(e, 'arithmetic on %s, %s' % (ta, tb))
        return '(%s %s %s)' % (va, '+' if isinstance(e.op, ast.Add) else '-', vb), 'int'
    if isinstance(e, (ast.ListComp, ast.GeneratorExp)):
        return ex_comp(e, env, F)
    if isinstance(e, ast.Subscript):
        if isinstance(e.slice, ast.Slice) and e.slice.lower is None and e.slice.upper is None and ast.unparse(e.slice.step or ast.Constant(0)) == '-1':
            v, t = ex(e.value, env, F)
            if t not in ELEM:
                fail(e, 'reversal of a %s' % t)
            return '(rev %s)' % v, t
        v, t = ex(e.value, env, F)
        if t == 'container':
            key = ('container', '__getitem__')
            if key not in TRANSLATED:
                fail(e, 'container[..] before __getitem__ is translated')
            a, at = ex(e.slice, env, F)
            if at not in OBJ:
                fail(e, 'container[<%s>]' % at)
            return '(%s %s h)' % (TRANSLATED[key]['name'], a), 'artists'
        fail(e, 'subscript')
    if isinstance(e, ast.Call):
        return ex_call(e, env, F)
    fail(e, 'expression')


def ex_attr(e, env, F):
    a = e.attr
    v, t = ex(e.value, env, F)
    if t == 'viewer':
        if a == 'state':
            return '(* self.state *)', 'vstate'
        if a == '_layer_artist_container':
            return '(* container *)', 'container'
        if a == 'session':
            return '(* session *)', 'session'
        if a in ('allow_duplicate_data', 'allow_duplicate_subset'):
            if not isinstance(CONSTS.get(a), bool):
                fail(e, 'class constant is not a boolean literal')
            return 'Viewer_%s' % a, 'bool'
        if a == 'large_data_size':
            return 'Viewer_large_data_size', 'optint'
    if t == 'artistself':
        if a == '_viewer_state' and env.get('#self._viewer_state') == 'vstate':
            return '(* viewer state *)', 'vstate'
        if a == 'layer' and 'self.layer' in env:
            return 'self_layer', env['self.layer']
        if a == 'state' and 'self.state' in env:
            return 'self_state', 'lstate'
    if t == 'session' and a == 'data_collection':
        return '(* dc *)', 'dc'
    if t == 'vstate' and a == 'layers':
        return '(h_layers h)', 'lstates'
    if t == 'container':
        if a == 'artists':
            return '(h_artists h)', 'artists'
        if a == 'layers':
            key = ('container', 'layers')
            if key not in TRANSLATED:
                fail(e, '.layers before the property is translated')
            return '(%s h)' % TRANSLATED[key]['name'], 'objset'
        if a == '_ignore_change_callbacks':
            return '(h_ignore_change h)', 'bool'
        if a == '_ignore_empty_callbacks':
            return '(h_ignore_empty h)', 'bool'
    if t == 'artist':
        if a == 'layer':
            return '(art_layer %s)' % v, 'obj'
        if a == 'zorder':
            return '(art_z %s)' % v, 'int'
        if a == 'state':
            return '(art_state %s)' % v, 'lstate'
    if t == 'lstate':
        if a == 'layer':
            return '(ls_layer %s)' % v, 'obj'
        if a == 'zorder':
            return '(lstate_zorder %s)' % v, 'int'
    if t == 'subobj' and a == 'data':
        return '(obj_data %s)' % v, 'dataobj'
    if t == 'dataobj' and a == 'subsets':
        return '(subsets_of %s h)' % v, 'subobjs'
    if t == 'dataobj' and a == 'size':
        return '(size_of %s h)' % v, 'int'
    if t == 'msg':
        c = F.cats
        if not c:
            fail(e, 'message of unknown category')
        if a == 'subset' and c <= {'subset'}:
            return '(msg_obj %s)' % v, 'subobj'
        if a == 'data' and c <= {'data', 'dcdata'}:
            return '(msg_obj %s)' % v, 'dataobj'
        if a == 'sender' and c <= {'subset', 'data'}:
            return '(msg_obj %s)' % v, ('subobj' if c == {'subset'} else 'dataobj' if c == {'data'} else 'obj')
        if a == 'attribute' and c <= {'subset'}:
            return '(msg_attribute %s)' % v, 'str'
    fail(e, 'attribute .%s of a value of type %s' % (a, t))


def ex_compare(e, env, F):
    op, a, b = e.ops[0], e.left, e.comparators[0]
    if isinstance(op, (ast.Is, ast.IsNot)):
        neg = isinstance(op, ast.IsNot)
        (va, ta), (vb, tb) = ex(a, env, F), ex(b, env, F)
        if tb == 'nonelit':
            if ta in ('optint', 'optartist'):
                r = '(is_some %s)' % va
                return (r if neg else '(negb %s)' % r), 'bool'
            fail(e, 'None test on a %s' % ta)
        if ta in OBJ and tb in OBJ:
            r = '(layer_eqb %s %s)' % (va, vb)
        elif ta == tb == 'artist':
            r = '(art_id %s =? art_id %s)' % (va, vb)
        elif ta == tb == 'lstate':
            r = '(ls_id %s =? ls_id %s)' % (va, vb)
        else:
            fail(e, 'identity test between %s and %s' % (ta, tb))
        return (('(negb %s)' % r) if neg else r), 'bool'
    if isinstance(op, (ast.In, ast.NotIn)):
        neg = isinstance(op, ast.NotIn)
        (va, ta), (vb, tb) = ex(a, env, F), ex(b, env, F)
        if ta in OBJ and tb == 'container':
            key = ('container', '__contains__')
            if key not in TRANSLATED:
                fail(e, '`in container` before __contains__ is translated')
            r = '(%s %s h)' % (TRANSLATED[key]['name'], va)
        elif ta in OBJ and tb in ('objs', 'subobjs', 'objset'):
            r = '(layer_mem %s %s)' % (va, vb)
        elif ta in OBJ and tb == 'dc':
            if ta == 'subobj':
                fail(e, 'a subset tested against the collection')
            if not CUR.get('dc_contains_ok'):
                fail(e, 'DataCollection.__contains__ is not `obj in self._data or ...`')
            r = '(dc_contains %s h)' % va
        elif ta == 'artist' and tb == 'artists':
            r = '(artist_mem %s %s)' % (va, vb)
        elif ta == 'lstate' and tb == 'lstates':
            r = '(lstate_mem %s %s)' % (va, vb)
        else:
            fail(e, 'membership of %s in %s' % (ta, tb))
        return (('(negb %s)' % r) if neg else r), 'bool'
    sym = {ast.Eq: '=?', ast.GtE: '>=?', ast.Gt: '>?', ast.LtE: '<=?', ast.Lt: '<?'}
    for k, s in sym.items():
        if isinstance(op, k):
            (va, ta), (vb, tb) = ex(a, env, F), ex(b, env, F)
            if ta == tb == 'str' and k is ast.Eq:
                return '(%s =? %s)' % (va, vb), 'bool'
            if ta == 'optint':
                va, ta = '(opt_get %s)' % va, 'int'
            if tb == 'optint':
                vb, tb = '(opt_get %s)' % vb, 'int'
            if ta != 'int' or tb != 'int':
                fail(e, 'comparison of %s with %s' % (ta, tb))
            return '(%s %s %s)' % (va, s, vb), 'bool'
    fail(e, 'comparison')


def comp_parts(e, env, F):
    if len(e.generators) != 1:
        fail(e, 'comprehension with several generators')
    g = e.generators[0]
    if g.is_async or not is_name(g.target) or len(g.ifs) > 1:
        fail(e, 'comprehension form')
    lv, lt = iterable(g.iter, env, F)
    var = g.target.id
    env2 = dict(env, **{var: ELEM[lt]})
    cond = None
    if g.ifs:
        cond, ct = ex(g.ifs[0], env2, F)
        if ct != 'bool':
            fail(e, 'comprehension filter of type %s' % ct)
    bv, bt = ex(e.elt, env2, F)
    src = lv if cond is None else '(filter (fun %s => %s) %s)' % (vn(var), cond, lv)
    return src, vn(var), bv, bt, is_name(e.elt, var), lt


def ex_comp(e, env, F):
    src, var, bv, bt, ident, lt = comp_parts(e, env, F)
    if ident:
        return src, lt
    if bt in OBJ:
        return '(map (fun %s => %s) %s)' % (var, bv, src), 'objs'
    fail(e, 'comprehension producing a list of %s' % bt)


def iterable(e, env, F):
    """what a for / comprehension walks, as a snapshot: -> (gallina list, list type)"""
    v, t = ex(e, env, F)
    if t == 'container':
        key = ('container', '__iter__')
        if key not in TRANSLATED:
            fail(e, 'iteration over the container before __iter__ is translated')
        return '(%s h)' % TRANSLATED[key]['name'], 'artists'
    if t in ELEM:
        return v, t
    fail(e, 'iteration over a %s' % t)


def ex_call(e, env, F):
    fn = e.func
    if is_name(fn) and fn.id == 'isinstance' and len(e.args) == 2 and not e.keywords and is_name(e.args[1]):
        v, t = ex(e.args[0], env, F)
        cls = e.args[1].id
        if t in OBJ and cls == 'int':
            return 'false', 'static-false'
        if t in OBJ and cls in ('BaseData', 'Subset'):
            r = '(is_data %s)' % v
            return (r if cls == 'BaseData' else '(negb %s)' % r), 'bool'
        fail(e, 'isinstance test')
    if is_name(fn) and fn.id in ('any', 'max') and len(e.args) == 1 and isinstance(e.args[0], ast.GeneratorExp) and not e.keywords:
        src, var, bv, bt, ident, lt = comp_parts(e.args[0], env, F)
        if fn.id == 'any':
            if bt != 'bool':
                fail(e, 'any() over %s' % bt)
            return '(existsb (fun %s => %s) %s)' % (var, bv, src), 'bool'
        if bt != 'int':
            fail(e, 'max() over %s' % bt)
        return '(list_max (map (fun %s => %s) %s))' % (var, bv, src), 'int'
    if is_name(fn) and fn.id == 'len' and len(e.args) == 1 and not e.keywords:
        v, t = ex(e.args[0], env, F)
        if t == 'container':
            key = ('container', '__len__')
            if key not in TRANSLATED:
                fail(e, 'len(container) before __len__ is translated')
            return '(%s h)' % TRANSLATED[key]['name'], 'int'
        if t in ELEM:
            return '(Z.of_nat (length %s))' % v, 'int'
        fail(e, 'len of a %s' % t)
    if is_name(fn) and fn.id in ('set', 'list', 'iter', 'tuple') and len(e.args) == 1 and not e.keywords:
        v, t = ex(e.args[0], env, F)
        if fn.id == 'set':
            if t not in ('objs', 'subobjs', 'objset'):
                fail(e, 'set of a %s' % t)
            return v, 'objset'
        if t == 'objset' and fn.id == 'list':
            return v, 'objset'
        if t == 'container':
            return iterable(e.args[0], env, F)
        if t in ELEM:
            return v, t
        fail(e, '%s of a %s' % (fn.id, t))
    if is_name(fn) and fn.id == 'sorted' and len(e.args) == 1 and len(e.keywords) == 1 and e.keywords[0].arg == 'key':
        v, t = ex(e.args[0], env, F)
        lam = e.keywords[0].value
        if t not in ELEM or not (isinstance(lam, ast.Lambda) and len(lam.args.args) == 1 and not lam.args.defaults):
            fail(e, 'sorted form')
        x = lam.args.args[0].arg
        kv, kt = ex(lam.body, dict(env, **{x: ELEM[t]}), F)
        if kt != 'int':
            fail(e, 'sort key of type %s' % kt)
        return '(sort_by (fun %s => %s) %s)' % (vn(x), kv, v), t
    # calls of translated pure methods
    if isinstance(fn, ast.Attribute):
        rv, rt = ex(fn.value, env, F)
        key = (rt, fn.attr)
        if key in TRANSLATED and TRANSLATED[key]['kind'].startswith('pure:'):
            T = TRANSLATED[key]
            vals = call_args(T, e, env, F)
            return '(%s%s h)' % (T['name'], ''.join(' ' + x for x in vals)), T['kind'][5:]
    fail(e, 'call in an expression')


def call_args(T, c, env, F):
    if c.keywords or len(c.args) != len(T['params']):
        fail(c, 'arguments of %s' % T['name'])
    vals = []
    for a, (pn, pt) in zip(c.args, T['params']):
        v, t = ex(a, env, F)
        ok = (t == pt) or (pt == 'obj' and t in OBJ) or (pt in OBJ and t == 'obj' and False)
        if not ok:
            fail(c, 'argument %s has type %s, expected %s' % (pn, t, pt))
        if pt == 'msg':
            callee = T['name'].split('_', 1)[1]
            if not (F.cats <= MSGCATS.get(T['method'], set())):
                fail(c, 'message categories %s passed to %s' % (sorted(F.cats), T['method']))
        vals.append(v)
    return vals


# ------------------------------------------------------------------ statements
def done(F):
    if F.kind == 'proc' or F.in_loop:
        return 'h'
    fail(CUR['fn'], 'the function may end without an explicit return')


def contains(stmts, kinds):
    for s in stmts:
        for n in ast.walk(s):
            if isinstance(n, kinds):
                return n
    return None


def bind(val, rest):
    return 'let h := %s in\n%s' % (val, rest)


def strip_refinements(env, base):
    """after an if: keep the variables the branch bound, drop the isinstance refinements it added"""
    out = {k: v for k, v in env.items() if not k.startswith('#') or k in base}
    return out


def proc_call(c, env, F):
    """a call used as a statement -> gallina heap expression"""
    fn = c.func
    txt = ast.unparse(c)
    if not isinstance(fn, ast.Attribute):
        fail(c, 'call statement')
    m = fn.attr
    # list primitives
    if m in ('append', 'remove') and isinstance(fn.value, ast.Attribute) and len(c.args) == 1 and not c.keywords:
        lv, lt = ex(fn.value, env, F)
        av, at = ex(c.args[0], env, F)
        if lv == '(h_artists h)' and at == 'artist':
            return ('hset_artists (h_artists h ++ [%s]) h' % av) if m == 'append' else ('hset_artists (remove_artist %s (h_artists h)) h' % av)
        if lv == '(h_layers h)' and at == 'lstate':
            return ('state_layers_append cb %s h' % av) if m == 'append' else ('state_layers_remove cb %s h' % av)
    rv, rt = ex(fn.value, env, F)
    if rt == 'artist' and m == 'update' and not c.args and not c.keywords:
        return 'ev (EUpdate (art_layer %s)) h' % rv
    if rt == 'artist' and m == 'remove' and not c.args and not c.keywords:
        return 'ev (EArtistRemove (art_layer %s)) h' % rv
    if rt == 'viewer' and m == 'draw_legend' and not c.args and not c.keywords:
        return 'Viewer_draw_legend cb h'
    key = (rt, m)
    if key in TRANSLATED:
        T = TRANSLATED[key]
        vals = call_args(T, c, env, F)
        call = '%s cb%s h' % (T['name'], ''.join(' ' + x for x in vals))
        if T['kind'] == 'proc':
            return call
        if T['kind'] == 'bool':
            if T['raising']:
                fail(c, 'call of a raising function as a statement')
            return 'heap_of (%s)' % call
        fail(c, 'a pure function called as a statement')
    fail(c, 'call of .%s on a %s' % (m, rt))


def artist_source(v, env, F):
    """get_layer_artist_from_registry(X, self) or self.get_<kind>_layer_artist(X)  ->  gallina of type option artist * heap"""
    if not (isinstance(v, ast.BoolOp) and isinstance(v.op, ast.Or) and len(v.values) == 2):
        return None
    a, b = v.values
    if not (isinstance(a, ast.Call) and is_name(a.func, 'get_layer_artist_from_registry') and len(a.args) == 2 and not a.keywords
            and is_name(a.args[1], 'self') and F.selft == 'viewer'):
        return None
    if not (isinstance(b, ast.Call) and isinstance(b.func, ast.Attribute) and is_name(b.func.value, 'self')
            and b.func.attr in ('get_data_layer_artist', 'get_subset_layer_artist') and len(b.args) == 1 and not b.keywords):
        return None
    xv, xt = ex(a.args[0], env, F)
    yv, yt = ex(b.args[0], env, F)
    want = 'dataobj' if b.func.attr == 'get_data_layer_artist' else 'subobj'
    if xt != want or yt != want:
        fail(v, 'layer artist for a %s / %s through %s' % (xt, yt, b.func.attr))
    if not CUR.get('artist_factory_ok'):
        fail(v, 'get_*_layer_artist / get_layer_artist are not the expected one-line delegations')
    ctor = TRANSLATED[('artistself', '__init__')]['name']
    return ("match registry_lookup %s h with Some a_ => (Some a_, h) | None => let '(a_, h) := %s cb %s h in (Some a_, h) end" % (xv, ctor, yv))


def tr_block(stmts, env, F, k):
    """stmts, then the continuation k (a function env -> gallina; None = end of the function)"""
    if not stmts:
        return k(env) if k is not None else done(F)
    s, rest = stmts[0], stmts[1:]

    def cont(env2=None):
        return tr_block(rest, env if env2 is None else env2, F, k)
    if isinstance(s, ast.Expr) and isinstance(s.value, ast.Constant) and isinstance(s.value.value, str):
        return cont()
    if isinstance(s, ast.Pass):
        return cont()
    if isinstance(s, ast.Return):
        if F.in_loop:
            fail(s, 'return inside a loop / with')
        if rest:
            fail(rest[0], 'code after return')
        if F.kind == 'proc':
            if s.value is not None and not is_name(s.value) and not isinstance(s.value, ast.Constant):
                fail(s, 'return value')
            if is_name(s.value) and s.value.id not in env:
                fail(s, 'unknown variable')
            return 'h'
        if F.kind == 'bool':
            if not (isinstance(s.value, ast.Constant) and isinstance(s.value.value, bool)):
                fail(s, 'return value')
            return 'Done %s h' % ('true' if s.value.value else 'false')
        fail(s, 'return')
    if isinstance(s, ast.Raise):
        if not (isinstance(s.exc, ast.Call) and is_name(s.exc.func, 'IncompatibleDataException')) or F.kind != 'bool' or F.in_loop:
            fail(s, 'raise form')
        F.raising = True
        return 'Raised E_IncompatibleData h'
    if isinstance(s, ast.If):
        return tr_if(s, rest, env, F, k)
    if isinstance(s, ast.For):
        return tr_for(s, env, F, cont)
    if isinstance(s, ast.With):
        if len(s.items) != 1 or s.items[0].optional_vars is not None or not isinstance(s.items[0].context_expr, ast.Call):
            fail(s, 'with form')
        c = s.items[0].context_expr
        n = contains(s.body, (ast.Return, ast.Raise, ast.Break, ast.Continue))
        if n is not None:
            fail(n, 'return/raise inside a with block')
        if is_name(c.func, 'delay_callback') and len(c.args) == 2 and not c.keywords and ex(c.args[0], env, F)[1] == 'vstate' \
                and isinstance(c.args[1], ast.Constant) and c.args[1].value == 'layers':
            old = F.in_loop
            F.in_loop = True
            inner = tr_block(s.body, env, F, lambda e_: '\x00')
            F.in_loop = old
            return bind('delay_enter h', inner.replace('\x00', bind('delay_exit cb h', cont())))
        if is_name(c.func, 'ignore_callback') and len(c.args) == 2 and not c.keywords and ex(c.args[0], env, F)[1] == 'lstate' \
                and isinstance(c.args[1], ast.Constant) and c.args[1].value == 'zorder':
            old = F.in_loop
            F.in_loop = True
            inner = tr_block(s.body, env, F, lambda e_: '\x00')
            F.in_loop = old
            return '(* with %s: no model effect *)\n' % ast.unparse(c) + inner.replace('\x00', cont())
        fail(s, 'context manager')
    if isinstance(s, ast.Try):
        # try: v = message.components_changed; X._on_components_changed(v)  except AttributeError: pass
        ok = len(s.body) == 2 and len(s.handlers) == 1 and not s.orelse and not s.finalbody \
            and is_name(s.handlers[0].type, 'AttributeError') and len(s.handlers[0].body) == 1 and isinstance(s.handlers[0].body[0], ast.Pass)
        if ok:
            a, b = s.body
            ok = isinstance(a, ast.Assign) and len(a.targets) == 1 and is_name(a.targets[0]) and isinstance(a.value, ast.Attribute) \
                and a.value.attr == 'components_changed' and ex(a.value.value, env, F)[1] == 'msg' \
                and isinstance(b, ast.Expr) and isinstance(b.value, ast.Call) and isinstance(b.value.func, ast.Attribute) \
                and b.value.func.attr == '_on_components_changed' and len(b.value.args) == 1 and is_name(b.value.args[0], a.targets[0].id)
        if not ok:
            fail(s, 'try form')
        mv = ex(a.value.value, env, F)[0]
        av, at = ex(b.value.func.value, env, F)
        if at != 'artist':
            fail(s, '_on_components_changed on a %s' % at)
        return bind('(if msg_has_components_changed %s then ev (EOnComponentsChanged (art_layer %s)) h else h)' % (mv, av), cont())
    if isinstance(s, ast.Assign) and len(s.targets) == 1:
        return tr_assign(s, env, F, cont)
    if isinstance(s, ast.Expr) and isinstance(s.value, ast.Call):
        c = s.value
        if F.kind == 'ctor':
            txt = ast.unparse(c)
            if txt.startswith('super(LayerArtist, self).__init__(') or txt.startswith("self.state.add_callback('visible',") or txt == 'self._reset_cache()':
                return '(* %s : no model effect *)\n' % txt[:60] + cont()
        return bind(proc_call(c, env, F), cont())
    fail(s, 'statement')


def tr_if(s, rest, env, F, k):
    base = set(x for x in env if x.startswith('#'))

    def after(e_):
        return tr_block(rest, strip_refinements(e_, base), F, k)
    t = s.test
    # `if v is None:` on an optartist
    if isinstance(t, ast.Compare) and len(t.ops) == 1 and isinstance(t.ops[0], ast.Is) and is_name(t.left) \
            and env.get(t.left.id) == 'optartist' and isinstance(t.comparators[0], ast.Constant) and t.comparators[0].value is None:
        if s.orelse or not isinstance(s.body[-1], (ast.Return, ast.Raise)):
            fail(s, '`if v is None` must end with return and have no else')
        x = vn(t.left.id)
        a = tr_block(s.body, env, F, None)
        b = after(dict(env, **{t.left.id: 'artist'}))
        return 'match %s with\n| None =>\n%s\n| Some %s =>\n%s\nend' % (x, a, x, b)
    cv, ct = ex(t, env, F)
    if ct == 'static-false':
        return '(* `%s` is statically false: the branch is not translated *)\n' % ast.unparse(t) + tr_block(list(s.orelse) + rest, env, F, k)
    if ct != 'bool':
        fail(s, 'condition of type %s' % ct)
    env_t, env_f = dict(env), dict(env)
    if isinstance(t, ast.Call) and is_name(t.func, 'isinstance') and is_name(t.args[1]) and t.args[1].id in ('BaseData', 'Subset'):
        key = '#' + ast.unparse(t.args[0])
        yes, no = ('dataobj', 'subobj') if t.args[1].id == 'BaseData' else ('subobj', 'dataobj')
        env_t[key], env_f[key] = yes, no
    a = tr_block(s.body, env_t, F, after)
    b = tr_block(s.orelse, env_f, F, after)
    return 'if %s then\n%s\nelse\n%s' % (cv, a, b)


def tr_for(s, env, F, cont):
    if s.orelse:
        fail(s, 'for-else')
    n = contains(s.body, (ast.Break, ast.Continue, ast.Return, ast.Raise))
    if n is not None:
        fail(n, 'break/continue/return/raise inside a loop')
    # for cb in self.change_callbacks: cb()
    if is_name(s.target) and isinstance(s.iter, ast.Attribute) and s.iter.attr in ('change_callbacks', 'empty_callbacks') \
            and ex(s.iter.value, env, F)[1] == 'container':
        b = s.body
        if not (len(b) == 1 and isinstance(b[0], ast.Expr) and isinstance(b[0].value, ast.Call) and is_name(b[0].value.func, s.target.id)
                and not b[0].value.args and not b[0].value.keywords):
            fail(s, 'callback loop body')
        return bind('%s cb h' % ('cb_changed' if s.iter.attr == 'change_callbacks' else 'cb_empty'), cont())
    if not is_name(s.target):
        fail(s, 'loop target')
    iv, it = ex(s.iter, env, F)
    old = F.in_loop
    F.in_loop = True
    if iv == '(h_layers h)':
        # the live list: Python walks it by index while the body may shrink it
        body = tr_block(s.body, dict(env, **{s.target.id: 'lstate'}), F, lambda e_: 'h')
        F.in_loop = old
        return bind('iter_live (S (length (h_layers h))) 0 (fun h => h_layers h) (fun %s h =>\n%s) h' % (vn(s.target.id), body), cont())
    lv, lt = iterable(s.iter, env, F)
    if lv == '(h_artists h)':
        fail(s, 'iteration over the live artist list')
    body = tr_block(s.body, dict(env, **{s.target.id: ELEM[lt]}), F, lambda e_: 'h')
    F.in_loop = old
    return bind('fold_left (fun h %s =>\n%s) %s h' % (vn(s.target.id), body, lv), cont())


def tr_assign(s, env, F, cont):
    t, v = s.targets[0], s.value
    if isinstance(t, ast.Name):
        src = artist_source(v, env, F)
        if src is not None:
            return "let '(%s, h) := %s in\n%s" % (vn(t.id), src, cont(dict(env, **{t.id: 'optartist'})))
        if isinstance(v, ast.Call) and ast.unparse(v.func) == 'self.warn' and F.selft == 'viewer':
            return "let '(%s, h) := Viewer_warn h in\n%s" % (vn(t.id), cont(dict(env, **{t.id: 'bool'})))
        vv, vt = ex(v, env, F)
        if vt in VALUELESS or vt in ('static-false', 'nonelit', 'str'):
            fail(s, 'assignment of a %s' % vt)
        return 'let %s := %s in\n%s' % (vn(t.id), vv, cont(dict(env, **{t.id: vt})))
    if isinstance(t, ast.Attribute):
        ot = ex(t.value, env, F)[1] if not (is_name(t.value, 'self') and F.kind == 'ctor') else 'artistself'
        if ot == 'artist' and t.attr == 'zorder':
            ov = ex(t.value, env, F)[0]
            vv, vt = ex(v, env, F)
            if vt != 'int':
                fail(s, 'zorder = <%s>' % vt)
            return bind('set_zorder (art_id %s) %s h' % (ov, vv), cont())
        if ot == 'artistself':
            txt = ast.unparse(s)
            if txt == 'self._viewer_state = viewer_state':
                return cont(dict(env, **{'#self._viewer_state': 'vstate'}))
            if txt == 'self.layer = layer or layer_state.layer' and env.get('layer_state') == 'none' and env.get('layer') in OBJ:
                return 'let self_layer := %s in   (* layer_state is None in every modelled call *)\n%s' % (vn('layer'), cont(dict(env, **{'self.layer': env['layer']})))
            if txt == 'self.state = layer_state or self._layer_state_cls(viewer_state=viewer_state, layer=self.layer)' \
                    and env.get('layer_state') == 'none' and 'self.layer' in env:
                return "let '(self_state, h) := new_layer_state self_layer h in\n%s" % cont(dict(env, **{'self.state': 'lstate'}))
            if t.attr == 'zorder' and 'self.state' in env:
                vv, vt = ex(v, env, F)
                if vt != 'int':
                    fail(s, 'self.zorder = <%s>' % vt)
                return 'let self_zorder := %s in\n%s' % (vv, cont(dict(env, **{'self.zorder': 'int'})))
            if t.attr in ('visible', '_sync_zorder', '_sync_visible'):
                return '(* self.%s = .. : no model effect *)\n' % t.attr + cont()
    fail(s, 'assignment')


# ------------------------------------------------------------------ preamble
PRE1 = r"""(* GENERATED by tools/gen/gen_viewer.py from glue/viewers/common/viewer.py, glue/core/layer_artist.py,
   glue/viewers/common/layer_artist.py on every run -- do not edit. *)
From Coq Require Import ZArith List Bool.
Import ListNotations.
Open Scope Z_scope.

(* ---------- fixed preamble: values ---------- *)
Inductive layer : Type := LData (d : Z) | LSub (s d g : Z).      (* a dataset, or a subset (identity, its dataset, its group) *)
Definition layer_eqb (a b : layer) : bool :=
  match a, b with
  | LData d, LData e => d =? e
  | LSub s d g, LSub s' d' g' => (s =? s') && (d =? d') && (g =? g')
  | _, _ => false
  end.
Definition is_data (x : layer) : bool := match x with LData _ => true | LSub _ _ _ => false end.      (* isinstance(x, BaseData) *)
(* subset.data (the translator admits `.data` only where the value is known to be a subset) *)
Definition obj_data (x : layer) : layer := match x with LSub _ d _ => LData d | LData d => LData d end.
Definition layer_mem (x : layer) (l : list layer) : bool := existsb (layer_eqb x) l.

(* a LayerArtist object: identity, .layer, .zorder; its .state is the layer state with the same identity *)
Record artist : Type := mkArt { art_id : Z; art_layer : layer; art_z : Z }.
Record lstate : Type := mkLS { ls_id : Z; ls_layer : layer }.
Definition art_state (a : artist) : lstate := mkLS (art_id a) (art_layer a).
Definition lstate_zorder (s : lstate) : Z := 0.        (* LayerState.zorder of a fresh layer state (CallbackProperty(0)) *)
Definition artist_mem (a : artist) (l : list artist) : bool := existsb (fun x => art_id x =? art_id a) l.
Definition lstate_mem (s : lstate) (l : list lstate) : bool := existsb (fun x => ls_id x =? ls_id s) l.
(* list.remove(x): the first element equal to x (object identity) *)
Fixpoint remove_artist (a : artist) (l : list artist) : list artist :=
  match l with [] => [] | x :: r => if art_id x =? art_id a then r else x :: remove_artist a r end.
Fixpoint remove_lstate (s : lstate) (l : list lstate) : list lstate :=
  match l with [] => [] | x :: r => if ls_id x =? ls_id s then r else x :: remove_lstate s r end.
Fixpoint lstates_eqb (a b : list lstate) : bool :=
  match a, b with
  | [], [] => true
  | x :: a', y :: b' => (ls_id x =? ls_id y) && lstates_eqb a' b'
  | _, _ => false
  end.
Definition list_max (l : list Z) : Z := fold_left Z.max l 0.
(* sorted(l, key=f): stable insertion sort, ascending *)
Fixpoint insert_by {A} (f : A -> Z) (x : A) (l : list A) : list A :=
  match l with [] => [x] | y :: r => if f x <? f y then x :: y :: r else y :: insert_by f x r end.
Definition sort_by {A} (f : A -> Z) (l : list A) : list A := fold_left (fun acc x => insert_by f x acc) l [].
Definition is_some {A} (o : option A) : bool := match o with Some _ => true | None => false end.
Definition opt_get (o : option Z) : Z := match o with Some v => v | None => 0 end.
Definition ATTR_style : Z := 0.                          (* the attribute name 'style'; any other name is a non-zero code *)
Definition E_IncompatibleData : Z := 1.

Inductive event : Type :=
| EDrawLegend                       (* viewer.draw_legend() *)
| EUpdate (l : layer)               (* layer_artist.update(), the artist named by its .layer *)
| EArtistRemove (l : layer)         (* layer_artist.remove() *)
| EOnComponentsChanged (l : layer)  (* layer_artist._on_components_changed(message.components_changed) *)
| EWarn.                            (* viewer.warn(..) *)
"""

PRE2 = r"""
(* a hub message as the viewer's handlers read it: msg_obj is .subset / .sender of a subset message, .data / .sender of a data
   message, .data of a DataCollectionDeleteMessage *)
Record message : Type := mkMsg { msg_class : mclass; msg_obj : layer; msg_attribute : Z; msg_has_components_changed : bool }.

Record heap : Type := mkHeap {
  h_artists : list artist;          (* viewer._layer_artist_container.artists *)
  h_layers : list lstate;           (* viewer.state.layers *)
  h_dc : list Z;                    (* the datasets of session.data_collection *)
  h_subsets : Z -> list layer;      (* data.subsets *)
  h_size : Z -> Z;                  (* data.size *)
  h_next : Z;                       (* layer states / artists created so far *)
  h_delay : Z;                      (* echo: delay_callback.delay_count[state, 'layers'] *)
  h_old : list lstate;              (* echo: delay_callback.old_values[state, 'layers'] *)
  h_ignore_change : bool;           (* container._ignore_change_callbacks *)
  h_ignore_empty : bool;            (* container._ignore_empty_callbacks *)
  h_warn : bool;                    (* what viewer.warn(..) answers *)
  h_err : bool;                     (* set when the callback recursion or a live iteration runs out of fuel *)
  h_trace : list event              (* opaque calls, in order *)
}.
Definition hset_artists (v : list artist) (h : heap) : heap :=
  mkHeap v (h_layers h) (h_dc h) (h_subsets h) (h_size h) (h_next h) (h_delay h) (h_old h) (h_ignore_change h) (h_ignore_empty h) (h_warn h) (h_err h) (h_trace h).
Definition hset_layers (v : list lstate) (h : heap) : heap :=
  mkHeap (h_artists h) v (h_dc h) (h_subsets h) (h_size h) (h_next h) (h_delay h) (h_old h) (h_ignore_change h) (h_ignore_empty h) (h_warn h) (h_err h) (h_trace h).
Definition hset_next (v : Z) (h : heap) : heap :=
  mkHeap (h_artists h) (h_layers h) (h_dc h) (h_subsets h) (h_size h) v (h_delay h) (h_old h) (h_ignore_change h) (h_ignore_empty h) (h_warn h) (h_err h) (h_trace h).
Definition hset_delay (v : Z) (o : list lstate) (h : heap) : heap :=
  mkHeap (h_artists h) (h_layers h) (h_dc h) (h_subsets h) (h_size h) (h_next h) v o (h_ignore_change h) (h_ignore_empty h) (h_warn h) (h_err h) (h_trace h).
Definition hset_err (h : heap) : heap :=
  mkHeap (h_artists h) (h_layers h) (h_dc h) (h_subsets h) (h_size h) (h_next h) (h_delay h) (h_old h) (h_ignore_change h) (h_ignore_empty h) (h_warn h) true (h_trace h).
Definition ev (e : event) (h : heap) : heap :=
  mkHeap (h_artists h) (h_layers h) (h_dc h) (h_subsets h) (h_size h) (h_next h) (h_delay h) (h_old h) (h_ignore_change h) (h_ignore_empty h) (h_warn h) (h_err h) (h_trace h ++ [e]).

Inductive outcome : Type := Done (r : bool) (h : heap) | Raised (e : Z) (h : heap).
Definition heap_of (o : outcome) : heap := match o with Done _ h => h | Raised _ h => h end.

(* what the container / the 'layers' property call back *)
Record callbacks : Type := mkCb { cb_layers : heap -> heap; cb_changed : heap -> heap; cb_empty : heap -> heap }.

Definition subsets_of (x : layer) (h : heap) : list layer := match x with LData d => h_subsets h d | LSub _ _ _ => [] end.
Definition size_of (x : layer) (h : heap) : Z := match x with LData d => h_size h d | LSub _ _ _ => 0 end.
Definition dc_contains (x : layer) (h : heap) : bool := match x with LData d => existsb (Z.eqb d) (h_dc h) | LSub _ _ _ => false end.
Definition set_zorder (a : Z) (z : Z) (h : heap) : heap :=
  hset_artists (map (fun x => if art_id x =? a then mkArt (art_id x) (art_layer x) z else x) (h_artists h)) h.
(* LayerState(viewer_state=.., layer=..): a new object *)
Definition new_layer_state (x : layer) (h : heap) : lstate * heap := (mkLS (h_next h) x, hset_next (h_next h + 1) h).
(* glue.config.layer_artist_maker has no members (checked by the generator on the live package) *)
Definition registry_lookup (x : layer) (h : heap) : option artist := None.
Definition Viewer_warn (h : heap) : bool * heap := (h_warn h, ev EWarn h).
Definition Viewer_draw_legend (cb : callbacks) (h : heap) : heap := ev EDrawLegend h.

(* ---------- echo (hand-written rendering): the CallbackList behind state.layers and delay_callback(state, 'layers') ---------- *)
Definition layers_notify (cb : callbacks) (h : heap) : heap := if 0 <? h_delay h then h else cb_layers cb h.
Definition state_layers_append (cb : callbacks) (s : lstate) (h : heap) : heap := layers_notify cb (hset_layers (h_layers h ++ [s]) h).
Definition state_layers_remove (cb : callbacks) (s : lstate) (h : heap) : heap := layers_notify cb (hset_layers (remove_lstate s (h_layers h)) h).
Definition delay_enter (h : heap) : heap :=
  if h_delay h =? 0 then hset_delay 1 (h_layers h) h else hset_delay (h_delay h + 1) (h_old h) h.
Definition delay_exit (cb : callbacks) (h : heap) : heap :=
  if 1 <? h_delay h then hset_delay (h_delay h - 1) (h_old h) h
  else let h := hset_delay 0 (h_old h) h in
       if lstates_eqb (h_old h) (h_layers h) then h else cb_layers cb h.
(* Python's `for x in L` over a list that the body may change: the list is re-read at every index *)
Fixpoint iter_live {A} (fuel : nat) (i : nat) (get : heap -> list A) (body : A -> heap -> heap) (h : heap) : heap :=
  match nth_error (get h) i with
  | None => h
  | Some x => match fuel with O => hset_err h | S f => iter_live f (S i) get body (body x h) end
  end.
"""


def find_class(path, cls):
    mod = ast.parse(open(os.path.join(REPO, path)).read())
    cs = [n for n in mod.body if isinstance(n, ast.ClassDef) and n.name == cls]
    if len(cs) != 1:
        raise Unsupported('%s: class %s not found exactly once' % (path, cls))
    return cs[0]


def find_method(path, cls, name):
    ms = [n for n in find_class(path, cls).body if isinstance(n, ast.FunctionDef) and n.name == name]
    if len(ms) != 1:
        raise Unsupported('%s: %s.%s defined %d times' % (path, cls, name, len(ms)))
    return ms[0]


def class_constants():
    CUR['file'] = V
    c = find_class(V, 'Viewer')
    for n in c.body:
        if isinstance(n, ast.Assign) and len(n.targets) == 1 and is_name(n.targets[0]):
            nm = n.targets[0].id
            if isinstance(n.value, ast.Constant):
                CONSTS[nm] = n.value.value
            elif is_name(n.value):
                CONSTS[nm] = ('name', n.value.id)
    for nm in ('allow_duplicate_data', 'allow_duplicate_subset'):
        if not isinstance(CONSTS.get(nm), bool):
            raise Unsupported('%s: Viewer.%s is not a boolean literal' % (V, nm))
    lds = CONSTS.get('large_data_size', 'missing')
    if not (lds is None or (isinstance(lds, int) and not isinstance(lds, bool))):
        raise Unsupported('%s: Viewer.large_data_size is not None / an integer literal' % V)
    for nm in ('_data_artist_cls', '_subset_artist_cls'):
        if CONSTS.get(nm) != ('name', 'LayerArtist'):
            raise Unsupported('%s: Viewer.%s is not LayerArtist' % (V, nm))
    if CONSTS.get('_layer_artist_container_cls') != ('name', 'LayerArtistContainer'):
        raise Unsupported('%s: Viewer._layer_artist_container_cls is not LayerArtistContainer' % V)
    out = ['(* %s: class constants of Viewer *)' % V]
    out.append('Definition Viewer_allow_duplicate_data : bool := %s.' % ('true' if CONSTS['allow_duplicate_data'] else 'false'))
    out.append('Definition Viewer_allow_duplicate_subset : bool := %s.' % ('true' if CONSTS['allow_duplicate_subset'] else 'false'))
    out.append('Definition Viewer_large_data_size : option Z := %s.' % ('None' if lds is None else 'Some %d' % lds))
    return '\n'.join(out) + '\n'


def check_shapes():
    """one-line delegations that are checked rather than translated"""
    CUR['file'] = V
    want = {'get_data_layer_artist': 'return self.get_layer_artist(self._data_artist_cls, layer=layer, layer_state=layer_state)',
            'get_subset_layer_artist': 'return self.get_layer_artist(self._subset_artist_cls, layer=layer, layer_state=layer_state)',
            'get_layer_artist': 'return cls(self.state, layer=layer, layer_state=layer_state)'}
    ok = True
    for nm, body in want.items():
        fn = find_method(V, 'Viewer', nm)
        b = [x for x in fn.body if not (isinstance(x, ast.Expr) and isinstance(x.value, ast.Constant))]
        ok = ok and len(b) == 1 and ast.unparse(b[0]) == body
    fn = find_method(V, 'Viewer', 'get_data_layer_artist')
    ok = ok and [a.arg for a in fn.args.args] == ['self', 'layer', 'layer_state']
    CUR['artist_factory_ok'] = ok
    reg = [n for n in ast.parse(open(os.path.join(REPO, V)).read()).body if isinstance(n, ast.FunctionDef) and n.name == 'get_layer_artist_from_registry']
    if len(reg) != 1 or 'layer_artist_maker.members' not in ast.unparse(reg[0]):
        raise Unsupported('%s: get_layer_artist_from_registry changed' % V)
    sys.path.insert(0, REPO)
    try:
        from glue.config import layer_artist_maker
        if list(layer_artist_maker.members):
            raise Unsupported('glue.config.layer_artist_maker has members: custom layer artists are not modelled')
    finally:
        sys.path.pop(0)
    co = find_method('glue/core/data_collection.py', 'DataCollection', '__contains__')
    v = co.body[-1].value if isinstance(co.body[-1], ast.Return) else None
    CUR['dc_contains_ok'] = isinstance(v, ast.BoolOp) and isinstance(v.op, ast.Or) and ast.unparse(v.values[0]) == 'obj in self._data'
    sp = find_method('glue/core/data.py', 'BaseData', 'subsets')
    if ast.unparse(sp.body[-1]) != 'return tuple(self._subsets)':
        raise Unsupported('glue/core/data.py: BaseData.subsets is not `return tuple(self._subsets)`')
    vl = find_method(V, 'Viewer', 'layers')
    if ast.unparse(vl.body[-1]) != 'return tuple(self._layer_artist_container)':
        raise Unsupported('%s: Viewer.layers changed' % V)


def message_categories(names):
    sys.path.insert(0, REPO)
    try:
        from glue.core import message as M
        out = {}
        for n in names:
            c = getattr(M, n, None)
            if c is None:
                raise Unsupported('glue.core.message has no class %s' % n)
            out[n] = 'subset' if issubclass(c, M.SubsetMessage) else 'data' if issubclass(c, M.DataMessage) else \
                'dcdata' if issubclass(c, M.DataCollectionMessage) else 'other'
        for a in names:
            for b in names:
                if a != b and issubclass(getattr(M, a), getattr(M, b)):
                    raise Unsupported('message class %s is a subclass of %s: Hub handler lookup by inheritance is not modelled' % (a, b))
        return out
    finally:
        sys.path.pop(0)


def parse_register_to_hub():
    CUR['file'] = V
    fn = find_method(V, 'Viewer', 'register_to_hub')
    if [a.arg for a in fn.args.args] != ['self', 'hub']:
        fail(fn, 'signature')
    entries = []
    for s in fn.body:
        if isinstance(s, ast.Expr) and isinstance(s.value, ast.Constant):
            continue
        txt = ast.unparse(s)
        if txt == 'super(Viewer, self).register_to_hub(hub)':
            continue
        c = s.value if isinstance(s, ast.Expr) else None
        if not (isinstance(c, ast.Call) and ast.unparse(c.func) == 'hub.subscribe'):
            fail(s, 'statement of register_to_hub')
        pos = list(c.args)
        kw = {k.arg: k.value for k in c.keywords}
        if len(pos) < 2 or not is_name(pos[0], 'self') or not (isinstance(pos[1], ast.Attribute) and is_name(pos[1].value, 'msg')):
            fail(s, 'subscribe form')
        cls = pos[1].attr
        hd = pos[2] if len(pos) >= 3 else kw.pop('handler', None)
        flt = pos[3] if len(pos) >= 4 else kw.pop('filter', None)
        if kw or len(pos) > 4 or hd is None:
            fail(s, 'subscribe arguments')
        for x in (hd, flt):
            if x is not None and not (isinstance(x, ast.Attribute) and is_name(x.value, 'self')):
                fail(s, 'handler / filter is not a method of self')
        entries.append((cls, hd.attr, flt.attr if flt is not None else None, s.lineno))
    if not entries:
        fail(fn, 'register_to_hub subscribes nothing')
    return fn, entries


def parse_init():
    CUR['file'] = V
    fn = find_method(V, 'Viewer', '__init__')
    changed, layers = [], []
    for s in fn.body:
        if isinstance(s, ast.Expr) and isinstance(s.value, ast.Constant):
            continue
        txt = ast.unparse(s)
        if txt in ('super(Viewer, self).__init__(session)', 'self.state = state or self._state_cls()',
                   'self.state.data_collection = session.data_collection',
                   'self._layer_artist_container = self._layer_artist_container_cls()'):
            continue
        c = s.value if isinstance(s, ast.Expr) else None
        if isinstance(c, ast.Call) and ast.unparse(c.func) == 'self._layer_artist_container.on_changed' and len(c.args) == 1 and not c.keywords \
                and isinstance(c.args[0], ast.Attribute) and is_name(c.args[0].value, 'self'):
            changed.append(c.args[0].attr)
            continue
        if isinstance(c, ast.Call) and ast.unparse(c.func) == 'self.state.add_callback' and len(c.args) == 2 \
                and isinstance(c.args[0], ast.Constant) and c.args[0].value == 'layers' \
                and isinstance(c.args[1], ast.Attribute) and is_name(c.args[1].value, 'self'):
            pr = 0
            for k in c.keywords:
                if k.arg == 'priority' and isinstance(k.value, ast.Constant) and isinstance(k.value.value, int):
                    pr = k.value.value
                else:
                    fail(s, 'add_callback keyword')
            layers.append((c.args[1].attr, pr))
            continue
        fail(s, 'statement of Viewer.__init__')
    # echo calls the callbacks of a property by decreasing priority, registration order among equals
    order = sorted(range(len(layers)), key=lambda i: (-layers[i][1], i))
    return fn, changed, [layers[i] for i in order], layers


def emit_function(path, cls, name, kind, selft, params):
    CUR['file'] = path
    fn = find_method(path, cls, name)
    CUR['fn'] = fn
    for d in fn.decorator_list:
        if not (is_name(d, 'property') and kind.startswith('pure:')):
            fail(fn, 'decorator %s' % ast.unparse(d))
    a = fn.args
    names = [x.arg for x in a.args]
    want = ['self'] + [p for p, _ in params]
    if names != want or a.kwonlyargs or a.posonlyargs or a.kwarg:
        fail(fn, 'signature (expected %s)' % ', '.join(want))
    if a.vararg is not None and name not in VARARGS_OK:
        fail(fn, '*%s' % a.vararg.arg)
    for d in a.defaults:
        if not (isinstance(d, ast.Constant) and d.value is None):
            fail(fn, 'default value')
    F = Fn(cls, name, kind, selft)
    env = {'self': selft}
    env.update(dict(params))
    gname = '%s_%s' % (cls, name)
    sig = ''.join(' (%s : %s)' % (vn(p), COQ_TYPE[t]) for p, t in params if t not in VALUELESS)
    head = '(* %s:%d-%d  %s.%s *)\n' % (path, fn.lineno, fn.end_lineno, cls, name)
    if kind.startswith('pure:'):
        rt = kind[5:]
        body = None
        stmts = [s for s in fn.body if not (isinstance(s, ast.Expr) and isinstance(s.value, ast.Constant))]
        notes = ''
        while stmts and isinstance(stmts[0], ast.If):
            cv, ct = ex(stmts[0].test, env, F)
            if ct != 'static-false' or stmts[0].orelse:
                fail(stmts[0], 'if in a pure function')
            notes += '(* `%s` is statically false: the branch is not translated *)\n' % ast.unparse(stmts[0].test)
            stmts = stmts[1:]
        if len(stmts) != 1 or not isinstance(stmts[0], ast.Return) or stmts[0].value is None:
            fail(fn, 'a pure function must be a single return')
        v, t = ex(stmts[0].value, env, F)
        if t != rt and not (rt == 'objset' and t == 'objs'):
            fail(fn, 'returns %s, expected %s' % (t, rt))
        TRANSLATED[(selft, name)] = {'name': gname, 'kind': kind, 'params': params, 'raising': False, 'method': name}
        return head + notes + 'Definition %s%s (h : heap) : %s :=\n%s.\n' % (gname, sig, COQ_TYPE[rt], v)
    if kind == 'ctor':
        body = tr_block(list(fn.body), env, F, lambda e_: ctor_end(e_, fn))
        TRANSLATED[(selft, name)] = {'name': gname, 'kind': kind, 'params': params, 'raising': False, 'method': name}
        return head + 'Definition %s (cb : callbacks)%s (h : heap) : artist * heap :=\n%s.\n' % (gname, sig, body)
    body = tr_block(list(fn.body), env, F, None)
    TRANSLATED[(selft, name)] = {'name': gname, 'kind': kind, 'params': params, 'raising': F.raising, 'method': name}
    ret = 'outcome' if kind == 'bool' else 'heap'
    return head + 'Definition %s (cb : callbacks)%s (h : heap) : %s :=\n%s.\n' % (gname, sig, ret, body)


def ctor_end(env, fn):
    for need in ('self.layer', 'self.state', 'self.zorder'):
        if need not in env:
            fail(fn, 'the constructor does not set %s' % need)
    return '(mkArt (ls_id self_state) self_layer self_zorder, h)'


def generate():
    TRANSLATED.clear()
    CUR.clear()
    CONSTS.clear()
    MSGCATS.clear()
    consts = class_constants()
    check_shapes()
    rth, entries = parse_register_to_hub()
    cats = message_categories([e[0] for e in entries])
    classes = list(KNOWN_CLASSES)
    for c, _, _, _ in entries:
        if c not in classes:
            classes.append(c)
    # which categories reach which handler / filter
    for c, hd, flt, ln in entries:
        if cats[c] == 'other':
            if hd not in OTHER_HANDLERS or (flt is not None and flt not in OTHER_FILTERS):
                raise Unsupported('%s line %d: %s is subscribed with %s / %s: not a message the model knows' % (V, ln, c, hd, flt))
            continue
        if hd in OTHER_HANDLERS or flt in OTHER_FILTERS:
            raise Unsupported('%s line %d: %s is subscribed with the untranslated %s / %s' % (V, ln, c, hd, flt))
        MSGCATS.setdefault(hd, set()).add(cats[c])
        if flt is not None:
            MSGCATS.setdefault(flt, set()).add(cats[c])
    # a handler that passes its message on to another one
    for _ in range(3):
        for _, cls, name, kind, _, params in FUNCS:
            if params == [('message', 'msg')] and name in MSGCATS:
                fn = find_method(V, 'Viewer', name)
                for n in ast.walk(fn):
                    if isinstance(n, ast.Call) and isinstance(n.func, ast.Attribute) and is_name(n.func.value, 'self') \
                            and len(n.args) == 1 and is_name(n.args[0], 'message'):
                        MSGCATS.setdefault(n.func.attr, set()).update(MSGCATS[name])
    _, changed, layers_sorted, layers_raw = parse_init()
    parts = [PRE1]
    parts.append('Inductive mclass : Type := %s.\n' % ' | '.join('C_' + c for c in classes))
    parts.append('Definition mclass_eqb (a b : mclass) : bool :=\n  match a, b with\n%s  | _, _ => false\n  end.\n'
                 % ''.join('  | C_%s, C_%s => true\n' % (c, c) for c in classes))
    parts.append(PRE2)
    parts.append(consts)
    for path, cls, name, kind, selft, params in FUNCS:
        parts.append(emit_function(path, cls, name, kind, selft, params))
    # ---- the callback registrations of Viewer.__init__ and the knot
    cbnames = []
    for n in changed + [x for x, _ in layers_sorted]:
        if n not in cbnames:
            cbnames.append(n)
    for n in cbnames:
        if n != 'draw_legend' and (('viewer', n) not in TRANSLATED or TRANSLATED[('viewer', n)]['kind'] != 'proc' or TRANSLATED[('viewer', n)]['params']):
            raise Unsupported('%s: callback %s is not a translated procedure without parameters' % (V, n))
    init = find_method(V, 'Viewer', '__init__')
    k = ['(* %s:%d-%d  Viewer.__init__: container.on_changed(..) / state.add_callback("layers", .., priority) registrations;' % (V, init.lineno, init.end_lineno),
         '   as registered: %s *)' % ', '.join('%s (priority %d)' % x for x in layers_raw)]
    k.append('Inductive cbname : Type := %s.' % ' | '.join('CB_' + n for n in cbnames) if cbnames else 'Inductive cbname : Type := CB_none.')
    k.append('Definition change_callbacks : list cbname := [%s].' % '; '.join('CB_' + n for n in changed))
    k.append('Definition layers_callbacks : list cbname := [%s].      (* by decreasing priority *)' % '; '.join('CB_' + n for n, _ in layers_sorted))
    k.append('Definition empty_callbacks : list cbname := [].         (* Viewer.__init__ registers no on_empty callback *)')
    k.append('Definition run_cb (cb : callbacks) (n : cbname) (h : heap) : heap :=\n  match n with')
    for n in cbnames:
        k.append('  | CB_%s => %s cb h' % (n, 'Viewer_draw_legend' if n == 'draw_legend' else TRANSLATED[('viewer', n)]['name']))
    if not cbnames:
        k.append('  | CB_none => h')
    k.append('  end.')
    k.append('Fixpoint knot (fuel : nat) : callbacks :=\n  match fuel with\n  | O => mkCb hset_err hset_err hset_err\n'
             '  | S f => mkCb (fun h => fold_left (fun h n => run_cb (knot f) n h) layers_callbacks h)\n'
             '                (fun h => fold_left (fun h n => run_cb (knot f) n h) change_callbacks h)\n'
             '                (fun h => fold_left (fun h n => run_cb (knot f) n h) empty_callbacks h)\n  end.\n')
    parts.append('\n'.join(k))
    # ---- the subscription table of register_to_hub and message delivery
    hnames, fnames = [], []
    for c, hd, flt, _ in entries:
        if hd not in hnames:
            hnames.append(hd)
        if flt is not None and flt not in fnames:
            fnames.append(flt)
    t = ['(* %s:%d-%d  Viewer.register_to_hub *)' % (V, rth.lineno, rth.end_lineno)]
    t.append('Inductive hname : Type := %s.' % ' | '.join('H_' + n for n in hnames))
    t.append('Inductive fname : Type := %s.' % (' | '.join('F_' + n for n in fnames) if fnames else 'F_none'))
    t.append('(* Hub.subscribe: _subscriptions[subscriber][message_class] = (filter, handler); a later call for the same class replaces the entry *)')
    t.append('Fixpoint put_entry (e : mclass * hname * option fname) (l : list (mclass * hname * option fname)) :=\n'
             '  match l with [] => [e] | x :: r => if mclass_eqb (fst (fst x)) (fst (fst e)) then e :: r else x :: put_entry e r end.')
    t.append('Definition subscribe_calls : list (mclass * hname * option fname) :=\n  [ %s ].' % ';\n    '.join(
        '(C_%s, H_%s, %s)' % (c, hd, ('Some F_%s' % flt) if flt is not None else 'None') for c, hd, flt, _ in entries))
    t.append('Definition subscriptions : list (mclass * hname * option fname) := fold_left (fun l e => put_entry e l) subscribe_calls [].')
    t.append('Definition run_filter (f : fname) (m : message) (h : heap) : bool :=\n  match f with')
    for n in fnames:
        t.append('  | F_%s => %s' % (n, 'true   (* not translated: a message without structural effect *)' if n in OTHER_FILTERS
                                     else '%s m h' % TRANSLATED[('viewer', n)]['name']))
    if not fnames:
        t.append('  | F_none => true')
    t.append('  end.')
    t.append('Definition run_handler (cb : callbacks) (hd : hname) (m : message) (h : heap) : heap :=\n  match hd with')
    for n in hnames:
        if n in OTHER_HANDLERS:
            t.append('  | H_%s => h   (* not translated: no structural effect *)' % n)
        else:
            T = TRANSLATED.get(('viewer', n))
            if T is None or T['kind'] != 'proc' or T['params'] != [('message', 'msg')]:
                raise Unsupported('%s: handler %s is not a translated message handler' % (V, n))
            t.append('  | H_%s => %s cb m h' % (n, T['name']))
    t.append('  end.')
    for n in fnames:
        if n not in OTHER_FILTERS and (('viewer', n) not in TRANSLATED or TRANSLATED[('viewer', n)]['kind'] != 'pure:bool'):
            raise Unsupported('%s: filter %s is not a translated predicate' % (V, n))
    t.append('(* Hub.broadcast as far as this viewer is concerned: the entry of the message class, its filter, its handler *)\n'
             'Definition deliver (cb : callbacks) (m : message) (h : heap) : heap :=\n'
             '  match find (fun e => mclass_eqb (fst (fst e)) (msg_class m)) subscriptions with\n'
             '  | None => h\n'
             '  | Some e => if (match snd e with None => true | Some f => run_filter f m h end) then run_handler cb (snd (fst e)) m h else h\n'
             '  end.\n')
    parts.append('\n'.join(t))
    text = '\n'.join(parts)
    os.makedirs(os.path.dirname(OUT), exist_ok=True)
    if not os.path.exists(OUT) or open(OUT).read() != text:
        open(OUT, 'w').write(text)


if __name__ == '__main__':
    try:
        generate()
    except Unsupported as e:
        print('TRANSLATION-FAILED: %s' % e)
        sys.exit(3)
    print('ok', OUT)
