#!/usr/bin/env python3
r"""
Regenerate coq/gen/Gen_groups.v from the *current* source of

  glue/core/subset_group.py   SubsetGroup.register, _add_data, _remove_data, register_to_hub  (+ unregister if the class defines one)
  glue/core/hub.py            HubListener.unregister  (used when SubsetGroup defines none)
  glue/core/data_collection.py DataCollection.append, extend, remove, clear, new_subset_group, remove_subset_group
  glue/core/data.py           BaseData.add_subset
  glue/core/subset.py         Subset.register, Subset.delete

translated statement by statement / expression by expression into state-passing Gallina over the heap declared in the
preamble below (two lists, two list-valued maps, the hub's subscription table, pause counter and queue, a trace of opaque
calls).  FAIL-CLOSED: every form that is accepted is listed here; anything else aborts with the line number (exit 3).

Typing.  Every variable has one of the types
  dc (the one DataCollection: no Gallina value)   hub (the one Hub: no value)   data, group (Z: object ids)
  sub (a GroupedSubset reference, written (id, .data, .group))   msg   bool   int   optint   datalist   sublist   grouplist
`self` is typed by the class, other parameters by the table PARAMS.

Expressions
  names, True, False, None (optint), integer literals
  X.data, X.group (sub)            X.subsets (data | group)  -> the stored list re-read as sub references
  X._data, X._subset_groups, X._sg_count (dc), X._broadcasting (sub)
  X.hub (dc | data) only as `X.hub is [not] None`, `if X.hub:`, as the receiver of broadcast/subscribe/... or as an argument of hub type
  A is B, A is not B, A is [not] None   A in L, A not in L (sub in sublist; data in datalist | dc; group in grouplist)
  A and B, A or B (bool), not A      label or E (optint or int)
  isinstance(X, list | SubsetState) with X : data | sub     -> false (static: the model has no such values)
  isinstance(X, BaseCartesianData) with X : data            -> is_dataset X h
  any(E for v in L)   list(L)   zip(L1, L2)   iteration over a dc  (after checking DataCollection.__iter__ / __contains__)
  A % B, A + B, A - B (int)   len(settings.SUBSET_COLORS)   settings.SUBSET_COLORS[E]   'Subset %i' % E
  Cls(...) for the four message classes;  GroupedSubset(d, g) and SubsetGroup(label=.., subset_state=.., **kwargs) as the
  right-hand side of an assignment only (allocation)
Statements
  docstrings, `from .. import ..`, return [name]
  if / else (an `isinstance(.., list|SubsetState)` test that is statically false keeps only its else side)
  raise TypeError(..)
  v = E      v = Cls(..) (allocation)     X.data = E (sub, rebinds the local reference)     X.label = X.label (no model effect)
  self._sg_count = E   self._sg_count += E   (also -=)
  kwargs.setdefault("color", E)
  L.append(E) / L.remove(E) for L in {X._subsets (data), X.data._subsets (sub), X.subsets (group), X._data, X._subset_groups (dc)}
  for v in L: ..   for a, b in zip(..): ..    (no break/continue/return inside; the body must not mutate the list iterated over
                                              unless it is iterated through list(..))
  with H.delay_callbacks(): ..    with self._ignore_link_manager_update(): ..
  calls of translated methods (resolved by receiver type), of the primitives
     S.do_broadcast(True|False)   D.register_to_hub(hub)   H.subscribe(self, Cls, lambda x: self.M(x.data))
     H.unsubscribe_all(self)      H.broadcast(msg)
  and of the opaque calls  self._sync_link_manager()   Registry().unregister(data, Data)   Registry().unregister(self, group=self.data)
  (each becomes one event on the trace).
"""
import ast
import os
import sys

REPO = os.environ.get('GLUE_REPO', '/repo')
HERE = os.path.dirname(os.path.abspath(__file__))
OUT = os.path.join(os.path.dirname(os.path.dirname(HERE)), 'coq/gen/Gen_groups.v')

DC_MSGS = ['DataCollectionAddMessage', 'DataCollectionDeleteMessage']
SUB_MSGS = ['SubsetCreateMessage', 'SubsetDeleteMessage']


class Unsupported(Exception):
    pass


def fail(node, why):
    raise Unsupported('%s line %s: %s: %s' % (CUR.get('file', '?'), getattr(node, 'lineno', '?'), why, ast.unparse(node)[:140]))


CUR = {}

# (class, method) -> (file, self type, [(param, type)], emitted name)
FUNCS = [
    ('glue/core/data.py', 'BaseData', 'add_subset', 'data', [('subset', 'sub'), ('label', 'optint')]),
    ('glue/core/subset.py', 'Subset', 'register', 'sub', []),
    ('glue/core/subset.py', 'Subset', 'delete', 'sub', []),
    ('glue/core/subset_group.py', 'SubsetGroup', '_add_data', 'group', [('data', 'data')]),
    ('glue/core/subset_group.py', 'SubsetGroup', '_remove_data', 'group', [('data', 'data')]),
    ('glue/core/subset_group.py', 'SubsetGroup', 'register_to_hub', 'group', [('hub', 'hub')]),
    ('glue/core/subset_group.py', 'SubsetGroup', 'register', 'group', [('data', 'dc')]),
    # unregister: SubsetGroup's own if it has one, else HubListener's (decided in generate())
    ('glue/core/data_collection.py', 'DataCollection', 'append', 'dc', [('data', 'data')]),
    ('glue/core/data_collection.py', 'DataCollection', 'extend', 'dc', [('data', 'datalist')]),
    ('glue/core/data_collection.py', 'DataCollection', 'remove', 'dc', [('data', 'data')]),
    ('glue/core/data_collection.py', 'DataCollection', 'clear', 'dc', []),
    ('glue/core/data_collection.py', 'DataCollection', 'new_subset_group', 'dc', [('label', 'optint'), ('subset_state', 'optint')]),
    ('glue/core/data_collection.py', 'DataCollection', 'remove_subset_group', 'dc', [('subset_grp', 'group')]),
]
# receiver type + method name -> key into TRANSLATED (filled as functions are emitted)
METHOD_OF = {('data', 'add_subset'): 'BaseData.add_subset', ('sub', 'register'): 'Subset.register', ('sub', 'delete'): 'Subset.delete',
             ('group', '_add_data'): 'SubsetGroup._add_data', ('group', '_remove_data'): 'SubsetGroup._remove_data',
             ('group', 'register_to_hub'): 'SubsetGroup.register_to_hub', ('group', 'register'): 'SubsetGroup.register',
             ('group', 'unregister'): 'SubsetGroup.unregister',
             ('dc', 'append'): 'DataCollection.append', ('dc', 'extend'): 'DataCollection.extend', ('dc', 'remove'): 'DataCollection.remove',
             ('dc', 'clear'): 'DataCollection.clear', ('dc', 'new_subset_group'): 'DataCollection.new_subset_group',
             ('dc', 'remove_subset_group'): 'DataCollection.remove_subset_group'}
TRANSLATED = {}     # key -> dict(name=, params=[(n,t)], selft=, raising=bool)
VALUELESS = ('dc', 'hub')
COQ_TYPE = {'data': 'Z', 'group': 'Z', 'sub': 'sub', 'msg': 'message', 'bool': 'bool', 'int': 'Z', 'optint': 'option Z',
            'datalist': 'list Z', 'sublist': 'list sub', 'grouplist': 'list Z'}
RESERVED = {'end', 'in', 'let', 'match', 'with', 'fun', 'if', 'then', 'else', 'return', 'as', 'at', 'fix', 'forall', 'exists', 'Type', 'Set', 'Prop', 'h'}


def vn(name):
    return name + '_' if name in RESERVED else name


class Fn:
    """per-function translation context"""

    def __init__(self, key, selft, early):
        self.key = key
        self.selft = selft
        self.raising = False
        self.early = early          # emitted before the handlers: only Subset messages may be broadcast
        self.kw_color = None
        self.calls = []


# ------------------------------------------------------------------ expressions
def is_name(e, n=None):
    return isinstance(e, ast.Name) and (n is None or e.id == n)


def is_attr(e, attr):
    return isinstance(e, ast.Attribute) and e.attr == attr


def typ(e, env, F):
    return ex(e, env, F)[1]


def hub_expr(e, env, F):
    """X.hub (X : dc | data) or a variable of type hub"""
    if is_name(e) and env.get(e.id) == 'hub':
        return True
    if is_attr(e, 'hub'):
        t = typ(e.value, env, F)
        return t in ('dc', 'data')
    return False


def ex(e, env, F):
    """-> (gallina text, type)"""
    if isinstance(e, ast.Constant):
        if e.value is True:
            return 'true', 'bool'
        if e.value is False:
            return 'false', 'bool'
        if e.value is None:
            return 'None', 'optint'
        if isinstance(e.value, int):
            return ('%d' % e.value) if e.value >= 0 else ('(%d)' % e.value), 'int'
        fail(e, 'constant')
    if isinstance(e, ast.Name):
        if e.id not in env:
            fail(e, 'unknown variable')
        t = env[e.id]
        return (vn(e.id) if t not in VALUELESS else '(* %s *)' % e.id), t
    if isinstance(e, ast.Attribute):
        if e.attr == 'hub':
            fail(e, '`.hub` outside the accepted positions')
        v, t = ex(e.value, env, F)
        if e.attr == 'data' and t == 'sub':
            return '(sub_data %s)' % v, 'data'
        if e.attr == 'group' and t == 'sub':
            return '(sub_group %s)' % v, 'group'
        if e.attr == 'subsets' and t == 'data':
            return '(subsets_of_data %s h)' % v, 'sublist'
        if e.attr == 'subsets' and t == 'group':
            return '(subsets_of_group %s h)' % v, 'sublist'
        if e.attr == '_data' and t == 'dc':
            return '(h_data h)', 'datalist'
        if e.attr == '_subset_groups' and t == 'dc':
            return '(h_groups h)', 'grouplist'
        if e.attr == '_sg_count' and t == 'dc':
            return '(h_sg_count h)', 'int'
        if e.attr == '_broadcasting' and t == 'sub':
            return '(h_bcast h (sub_id %s))' % v, 'bool'
        fail(e, 'attribute of a value of type %s' % t)
    if isinstance(e, ast.Compare) and len(e.ops) == 1:
        op, a, b = e.ops[0], e.left, e.comparators[0]
        if isinstance(op, (ast.Is, ast.IsNot)):
            neg = isinstance(op, ast.IsNot)
            if isinstance(b, ast.Constant) and b.value is None:
                if is_attr(a, 'hub'):
                    v, t = ex(a.value, env, F)
                    if t == 'data':
                        r = '(h_dhub h %s)' % v
                    elif t == 'dc':
                        r = '(dc_has_hub h)'
                    else:
                        fail(e, 'hub of a %s' % t)
                    return (r if neg else '(negb %s)' % r), 'bool'
                v, t = ex(a, env, F)
                if t in ('data', 'group', 'sub'):
                    return ('true' if neg else 'false'), 'bool'     # object references of the model are never None
                if t == 'optint':
                    r = '(match %s with Some _ => true | None => false end)' % v
                    return (r if neg else '(negb %s)' % r), 'bool'
                fail(e, 'None test on a %s' % t)
            (va, ta), (vb, tb) = ex(a, env, F), ex(b, env, F)
            if ta != tb or ta not in ('data', 'group', 'sub'):
                fail(e, 'identity test between %s and %s' % (ta, tb))
            r = '(sub_id %s =? sub_id %s)' % (va, vb) if ta == 'sub' else '(%s =? %s)' % (va, vb)
            return (('(negb %s)' % r) if neg else r), 'bool'
        if isinstance(op, (ast.In, ast.NotIn)):
            neg = isinstance(op, ast.NotIn)
            (va, ta), (vb, tb) = ex(a, env, F), ex(b, env, F)
            if ta == 'sub' and tb == 'sublist':
                r = '(sub_in %s %s)' % (va, vb)
            elif ta == 'data' and tb == 'datalist':
                r = '(hmemz %s %s)' % (va, vb)
            elif ta == 'group' and tb == 'grouplist':
                r = '(hmemz %s %s)' % (va, vb)
            elif ta == 'data' and tb == 'dc':
                if not CUR.get('dc_contains_ok'):
                    fail(e, 'DataCollection.__contains__ is not `obj in self._data or ...`')
                r = '(hmemz %s (h_data h))' % va
            else:
                fail(e, 'membership of %s in %s' % (ta, tb))
            return (('(negb %s)' % r) if neg else r), 'bool'
        fail(e, 'comparison')
    if isinstance(e, ast.BoolOp):
        parts = [ex(v, env, F) for v in e.values]
        if isinstance(e.op, ast.Or) and len(parts) == 2 and parts[0][1] == 'optint' and parts[1][1] == 'int':
            return '(match %s with Some v_ => v_ | None => %s end)' % (parts[0][0], parts[1][0]), 'int'
        if any(t != 'bool' for _, t in parts):
            fail(e, 'and/or over non-booleans')
        sym = ' && ' if isinstance(e.op, ast.And) else ' || '
        return '(' + sym.join(v for v, _ in parts) + ')', 'bool'
    if isinstance(e, ast.UnaryOp) and isinstance(e.op, ast.Not):
        v, t = ex(e.operand, env, F)
        if t != 'bool':
            fail(e, 'not of a %s' % t)
        return '(negb %s)' % v, 'bool'
    if isinstance(e, ast.BinOp):
        if isinstance(e.op, ast.Mod) and isinstance(e.left, ast.Constant) and e.left.value == 'Subset %i':
            v, t = ex(e.right, env, F)
            if t != 'int':
                fail(e, 'label format argument')
            return '(auto_label %s)' % v, 'int'
        (va, ta), (vb, tb) = ex(e.left, env, F), ex(e.right, env, F)
        if ta != 'int' or tb != 'int':
            fail(e, 'arithmetic on %s, %s' % (ta, tb))
        ops = {ast.Mod: 'Z.modulo %s %s', ast.Add: '%s + %s', ast.Sub: '%s - %s'}
        for k, fmt in ops.items():
            if isinstance(e.op, k):
                return '(' + fmt % (va, vb) + ')', 'int'
        fail(e, 'operator')
    if isinstance(e, ast.Subscript) and ast.unparse(e.value) == 'settings.SUBSET_COLORS':
        v, t = ex(e.slice, env, F)
        if t != 'int':
            fail(e, 'colour index')
        return '(subset_color %s)' % v, 'int'
    if isinstance(e, ast.Call):
        fn = e.func
        if is_name(fn, 'len') and len(e.args) == 1 and ast.unparse(e.args[0]) == 'settings.SUBSET_COLORS' and not e.keywords:
            return '(h_ncolors h)', 'int'
        if is_name(fn, 'isinstance') and len(e.args) == 2 and not e.keywords and is_name(e.args[1]):
            v, t = ex(e.args[0], env, F)
            cls = e.args[1].id
            if (t, cls) in (('data', 'list'), ('sub', 'SubsetState')):
                return 'false', 'static-false'
            if (t, cls) == ('data', 'BaseCartesianData'):
                return '(is_dataset %s h)' % v, 'bool'
            fail(e, 'isinstance test')
        if is_name(fn, 'any') and len(e.args) == 1 and isinstance(e.args[0], ast.GeneratorExp) and not e.keywords:
            g = e.args[0]
            if len(g.generators) != 1 or g.generators[0].ifs or g.generators[0].is_async or not is_name(g.generators[0].target):
                fail(e, 'generator form')
            lv, lt = iterable(g.generators[0].iter, env, F)
            var = g.generators[0].target.id
            bv, bt = ex(g.elt, dict(env, **{var: elem_type(lt)}), F)
            if bt != 'bool':
                fail(e, 'any() over non-booleans')
            return '(existsb (fun %s => %s) %s)' % (vn(var), bv, lv), 'bool'
        if is_name(fn) and fn.id in DC_MSGS and len(e.args) == 2 and not e.keywords:
            if typ(e.args[0], env, F) != 'dc':
                fail(e, 'sender of a collection message')
            v, t = ex(e.args[1], env, F)
            if t != 'data':
                fail(e, 'payload of a collection message')
            return '(%s %s)' % (fn.id, v), 'msg:dc'
        if is_name(fn) and fn.id in SUB_MSGS and len(e.args) == 1 and not e.keywords:
            v, t = ex(e.args[0], env, F)
            if t != 'sub':
                fail(e, 'payload of a subset message')
            return '(%s %s)' % (fn.id, v), 'msg:sub'
        fail(e, 'call in an expression')
    fail(e, 'expression')


def elem_type(lt):
    return {'datalist': 'data', 'sublist': 'sub', 'grouplist': 'group'}[lt]


def iterable(e, env, F):
    """what a for / any() walks: -> (gallina list, list type).  list(X) is a snapshot; so is X (checked by the caller)."""
    if isinstance(e, ast.Call) and is_name(e.func, 'list') and len(e.args) == 1 and not e.keywords:
        return iterable(e.args[0], env, F)
    v, t = ex(e, env, F)
    if t == 'dc':
        if not CUR.get('dc_iter_ok'):
            fail(e, 'DataCollection.__iter__ is not `return iter(self._data)`')
        return '(h_data h)', 'datalist'
    if t in ('datalist', 'sublist', 'grouplist'):
        return v, t
    fail(e, 'iteration over a %s' % t)


# ------------------------------------------------------------------ statements
def done(F):
    return 'Done h' if F.raising else 'h'


def bind(F, val, rest):
    """sequence a heap-valued step with the rest of the block"""
    return 'let h := %s in\n%s' % (val, rest)


def bind_raising(call, rest):
    return 'match %s with Raised e_ h => Raised e_ h | Done h =>\n%s end' % (call, rest)


def ends_with_return(stmts):
    return bool(stmts) and isinstance(stmts[-1], (ast.Return, ast.Raise))


def contains(stmts, kinds):
    for s in stmts:
        for n in ast.walk(s):
            if isinstance(n, kinds):
                return n
    return None


def list_target(e, env, F):
    """the list attribute an append/remove acts on -> (kind, owner gallina)"""
    if isinstance(e, ast.Attribute):
        if e.attr == '_subsets':
            v, t = ex(e.value, env, F)
            if t == 'data':
                return 'dsubs', v
        if e.attr == 'subsets':
            v, t = ex(e.value, env, F)
            if t == 'group':
                return 'gsubs', v
        if e.attr == '_data' and typ(e.value, env, F) == 'dc':
            return 'data', None
        if e.attr == '_subset_groups' and typ(e.value, env, F) == 'dc':
            return 'groups', None
    fail(e, 'list that is appended to / removed from')


def call_translated(key, recv, args, node, env, F):
    if key not in TRANSLATED:
        fail(node, 'call of %s before its translation (order of FUNCS)' % key)
    T = TRANSLATED[key]
    params = T['params']
    vals = []
    pos = list(args.args)
    kws = {k.arg: k.value for k in args.keywords}
    if None in kws:
        fail(node, '** in a call')
    for i, (pn, pt) in enumerate(params):
        if i < len(pos):
            a = pos[i]
        elif pn in kws:
            a = kws.pop(pn)
        elif pt == 'optint':
            vals.append('None')
            continue
        else:
            fail(node, 'missing argument %s' % pn)
        if pt in VALUELESS:
            ok = hub_expr(a, env, F) if pt == 'hub' else typ(a, env, F) == 'dc'
            if not ok:
                fail(node, 'argument %s is not the %s' % (pn, pt))
            continue
        v, t = ex(a, env, F)
        if t != pt:
            fail(node, 'argument %s has type %s, expected %s' % (pn, t, pt))
        vals.append(v)
    if len(pos) > len(params) or kws:
        fail(node, 'too many arguments')
    head = T['name'] + ('' if T['selft'] in VALUELESS else ' ' + recv)
    return head + ''.join(' ' + v for v in vals) + ' h', T['raising']


def tr_call_stmt(c, env, F):
    """a call used as a statement -> (gallina heap/outcome expression, raising?)"""
    fn = c.func
    txt = ast.unparse(c)
    if txt == 'self._sync_link_manager()' and F.selft == 'dc':
        return 'ev ESyncLinks h', False
    if isinstance(fn, ast.Attribute) and fn.attr == 'unregister' and ast.unparse(fn.value) == 'Registry()':
        if len(c.args) == 2 and not c.keywords and is_name(c.args[1], 'Data'):
            v, t = ex(c.args[0], env, F)
            if t == 'data':
                return 'ev (ERegistryUnregisterData %s) h' % v, False
        if len(c.args) == 1 and len(c.keywords) == 1 and c.keywords[0].arg == 'group':
            v, t = ex(c.args[0], env, F)
            gv, gt = ex(c.keywords[0].value, env, F)
            if t == 'sub' and gt == 'data' and gv == '(sub_data %s)' % v:
                return 'ev (ERegistryUnregisterSubset %s) h' % v, False
        fail(c, 'Registry().unregister form')
    if not isinstance(fn, ast.Attribute):
        fail(c, 'call statement')
    m = fn.attr
    # ---- hub primitives
    if hub_expr(fn.value, env, F):
        if m == 'broadcast' and len(c.args) == 1 and not c.keywords:
            v, t = ex(c.args[0], env, F)
            if t == 'msg:sub':
                return 'hub_broadcast_subset_message %s h' % v, False
            if t == 'msg:dc':
                if F.early:
                    fail(c, 'a collection message is broadcast by a function the handlers depend on')
                return 'hub_broadcast %s h' % v, False
            fail(c, 'broadcast of a %s' % t)
        if m == 'subscribe' and len(c.args) == 3 and not c.keywords:
            if not (is_name(c.args[0], 'self') and F.selft == 'group' and is_name(c.args[1]) and c.args[1].id in DC_MSGS):
                fail(c, 'subscribe form')
            lam = c.args[2]
            if not (isinstance(lam, ast.Lambda) and len(lam.args.args) == 1 and not lam.args.defaults and not lam.args.vararg
                    and not lam.args.kwarg and not lam.args.kwonlyargs):
                fail(c, 'handler is not a one-argument lambda')
            x = lam.args.args[0].arg
            b = lam.body
            if not (isinstance(b, ast.Call) and isinstance(b.func, ast.Attribute) and is_name(b.func.value, 'self')
                    and len(b.args) == 1 and not b.keywords and ast.unparse(b.args[0]) == '%s.data' % x
                    and ('group', b.func.attr) in METHOD_OF and METHOD_OF[('group', b.func.attr)] in TRANSLATED
                    and TRANSLATED[METHOD_OF[('group', b.func.attr)]]['params'] == [('data', 'data')]):
                fail(c, 'handler body is not self.<translated method>(%s.data)' % x)
            CUR['handlers'].add(b.func.attr)
            return 'hub_subscribe self C_%s H_%s h' % (c.args[1].id, b.func.attr), False
        if m == 'unsubscribe_all' and len(c.args) == 1 and not c.keywords and is_name(c.args[0], 'self') and F.selft == 'group':
            return 'hub_unsubscribe_all self h', False
        fail(c, 'hub call')
    recv, rt = ex(fn.value, env, F)
    if rt == 'sub' and m == 'do_broadcast' and len(c.args) == 1 and not c.keywords:
        v, t = ex(c.args[0], env, F)
        if t != 'bool':
            fail(c, 'do_broadcast argument')
        return 'hset_bcast (hupd (h_bcast h) (sub_id %s) %s) h' % (recv, v), False
    if rt == 'data' and m == 'register_to_hub' and len(c.args) == 1 and not c.keywords and hub_expr(c.args[0], env, F):
        return 'Data_register_to_hub %s h' % recv, False
    if (rt, m) in METHOD_OF:
        return call_translated(METHOD_OF[(rt, m)], recv, c, c, env, F)
    fail(c, 'call of .%s on a %s' % (m, rt))


def tr_block(stmts, env, F, tail):
    """stmts then `tail` (gallina text for what follows the block; None = end of function)"""
    if not stmts:
        return tail if tail is not None else done(F)
    s, rest = stmts[0], stmts[1:]

    def cont(env2=None):
        return tr_block(rest, env if env2 is None else env2, F, tail)
    if isinstance(s, ast.Expr) and isinstance(s.value, ast.Constant) and isinstance(s.value.value, str):
        return cont()
    if isinstance(s, ast.ImportFrom):
        return cont()
    if isinstance(s, ast.Return):
        if s.value is not None and not is_name(s.value):
            fail(s, 'return value')
        if rest:
            fail(rest[0], 'code after return')
        if tail is not None and CUR.get('in_loop'):
            fail(s, 'return inside a loop / with')
        return done(F)
    if isinstance(s, ast.Raise):
        if not (isinstance(s.exc, ast.Call) and is_name(s.exc.func, 'TypeError')):
            fail(s, 'raise form')
        if not F.raising:
            fail(s, 'raise in a function not marked as raising')
        if CUR.get('in_loop'):
            fail(s, 'raise inside a loop / with')
        return 'Raised E_TypeError h'
    if isinstance(s, ast.If):
        if hub_expr(s.test, env, F) and is_attr(s.test, 'hub') and typ(s.test.value, env, F) == 'dc':
            cv, ct = '(dc_has_hub h)', 'bool'
        else:
            cv, ct = ex(s.test, env, F)
        if ct == 'static-false':
            return '(* `%s` is statically false: the branch is not translated *)\n' % ast.unparse(s.test) + \
                   tr_block(list(s.orelse) + rest, env, F, tail)
        if ct != 'bool':
            fail(s, 'condition of type %s' % ct)
        a_ret, b_ret = ends_with_return(s.body), ends_with_return(s.orelse)
        if a_ret or b_ret:
            if CUR.get('in_loop'):
                fail(s, 'return inside a loop / with')
            after = tr_block(rest, env, F, tail)
            a = tr_block(s.body, env, F, None) if a_ret else tr_block(s.body, env, F, after)
            b = tr_block(s.orelse, env, F, None) if b_ret else tr_block(s.orelse, env, F, after)
            return 'if %s then\n%s\nelse\n%s' % (cv, a, b)
        # neither side returns: heap effects, plus the locals of the enclosing scope that a side rebinds
        for side in (s.body, s.orelse):
            n = contains(side, (ast.Return, ast.Raise))
            if n is not None:
                fail(n, 'return/raise in the middle of a branch')
        if branch_raises(s.body + s.orelse, env, F):
            fail(s, 'a branch that can raise and falls through')
        reb = []
        for side in (s.body, s.orelse):
            for st_ in side:
                for n in ast.walk(st_):
                    if isinstance(n, ast.Assign) and len(n.targets) == 1:
                        t = n.targets[0]
                        nm = t.id if is_name(t) else (t.value.id if is_attr(t, 'data') and is_name(t.value) else None)
                        if nm is not None and nm in env and nm not in reb:
                            reb.append(nm)
        endv = '(%s)' % ', '.join([vn(x) for x in reb] + ['h']) if reb else 'h'
        pat = "'(%s)" % ', '.join([vn(x) for x in reb] + ['h']) if reb else 'h'
        saved, old = F.raising, CUR.get('in_loop')
        F.raising = False
        CUR['in_loop'] = True
        a = tr_block(s.body, dict(env), F, endv)
        b = tr_block(s.orelse, dict(env), F, endv)
        F.raising, CUR['in_loop'] = saved, old
        return 'let %s := (if %s then\n%s\nelse\n%s) in\n%s' % (pat, cv, a, b, cont())
    if isinstance(s, ast.Assign) and len(s.targets) == 1:
        t, v = s.targets[0], s.value
        if isinstance(t, ast.Name):
            if isinstance(v, ast.Call) and is_name(v.func, 'GroupedSubset'):
                if len(v.args) != 2 or v.keywords:
                    fail(s, 'GroupedSubset(..) form')
                (dv, dt), (gv, gt) = ex(v.args[0], env, F), ex(v.args[1], env, F)
                if (dt, gt) != ('data', 'group'):
                    fail(s, 'GroupedSubset(%s, %s)' % (dt, gt))
                return "let '(%s, h) := new_GroupedSubset %s %s h in\n%s" % (vn(t.id), dv, gv, cont(dict(env, **{t.id: 'sub'})))
            if isinstance(v, ast.Call) and is_name(v.func, 'SubsetGroup'):
                kws = {k.arg: k.value for k in v.keywords}
                if v.args or set(kws) != {'label', 'subset_state', None} or not is_name(kws[None], 'kwargs') or F.kw_color is None:
                    fail(s, 'SubsetGroup(label=.., subset_state=.., **kwargs) after kwargs.setdefault("color", ..)')
                lv, lt = ex(kws['label'], env, F)
                sv, st_ = ex(kws['subset_state'], env, F)
                if lt != 'int' or st_ != 'optint':
                    fail(s, 'SubsetGroup(label : %s, subset_state : %s)' % (lt, st_))
                return "let '(%s, h) := new_SubsetGroup %s %s %s h in\n%s" % (vn(t.id), lv, sv, F.kw_color, cont(dict(env, **{t.id: 'group'})))
            vv, vt = ex(v, env, F)
            if vt in VALUELESS or vt == 'static-false':
                fail(s, 'assignment of a %s' % vt)
            # a local may change type (label : optint -> int): rebinding shadows
            return 'let %s := %s in\n%s' % (vn(t.id), vv, cont(dict(env, **{t.id: vt})))
        if isinstance(t, ast.Attribute):
            if t.attr == 'data' and is_name(t.value) and env.get(t.value.id) == 'sub':
                vv, vt = ex(v, env, F)
                if vt != 'data':
                    fail(s, 'X.data = <%s>' % vt)
                x = vn(t.value.id)
                return 'let %s := mkSub (sub_id %s) %s (sub_group %s) in\n%s' % (x, x, vv, x, cont())
            if t.attr == 'label' and ast.unparse(t) == ast.unparse(v) and typ(t.value, env, F) == 'sub':
                return '(* %s : label disambiguation, no effect on the model *)\n' % ast.unparse(s) + cont()
            if t.attr == '_sg_count' and typ(t.value, env, F) == 'dc':
                vv, vt = ex(v, env, F)
                if vt != 'int':
                    fail(s, '_sg_count = <%s>' % vt)
                return bind(F, 'hset_sg_count %s h' % vv, cont())
        fail(s, 'assignment')
    if isinstance(s, ast.AugAssign):
        if is_attr(s.target, '_sg_count') and typ(s.target.value, env, F) == 'dc' and isinstance(s.op, (ast.Add, ast.Sub)):
            vv, vt = ex(s.value, env, F)
            if vt != 'int':
                fail(s, 'augmented assignment of a %s' % vt)
            return bind(F, 'hset_sg_count (h_sg_count h %s %s) h' % ('+' if isinstance(s.op, ast.Add) else '-', vv), cont())
        fail(s, 'augmented assignment')
    if isinstance(s, ast.Expr) and isinstance(s.value, ast.Call):
        c = s.value
        fn = c.func
        if ast.unparse(fn) == 'kwargs.setdefault':
            if not (len(c.args) == 2 and isinstance(c.args[0], ast.Constant) and c.args[0].value == 'color' and F.kw_color is None):
                fail(s, 'kwargs.setdefault form')
            vv, vt = ex(c.args[1], env, F)
            if vt != 'int':
                fail(s, 'colour of type %s' % vt)
            F.kw_color = 'kw_color'
            return 'let kw_color := %s in\n%s' % (vv, cont())
        if isinstance(fn, ast.Attribute) and fn.attr in ('append', 'remove') and len(c.args) == 1 and not c.keywords \
                and isinstance(fn.value, ast.Attribute) and fn.value.attr in ('_subsets', 'subsets', '_data', '_subset_groups'):
            kind, owner = list_target(fn.value, env, F)
            av, at = ex(c.args[0], env, F)
            want = {'dsubs': 'sub', 'gsubs': 'sub', 'data': 'data', 'groups': 'group'}[kind]
            if at != want:
                fail(s, '%s of a %s' % (fn.attr, at))
            if kind == 'dsubs':
                new = '(h_dsubs h %s ++ [stored_on_data %s])' % (owner, av) if fn.attr == 'append' else \
                      '(remove_stored (sub_id %s) (h_dsubs h %s))' % (av, owner)
                return bind(F, 'hset_dsubs (hupd (h_dsubs h) %s %s) h' % (owner, new), cont())
            if kind == 'gsubs':
                new = '(h_gsubs h %s ++ [stored_on_group %s])' % (owner, av) if fn.attr == 'append' else \
                      '(remove_stored (sub_id %s) (h_gsubs h %s))' % (av, owner)
                return bind(F, 'hset_gsubs (hupd (h_gsubs h) %s %s) h' % (owner, new), cont())
            fld = {'data': 'data', 'groups': 'groups'}[kind]
            new = '(h_%s h ++ [%s])' % (fld, av) if fn.attr == 'append' else '(remove_first %s (h_%s h))' % (av, fld)
            return bind(F, 'hset_%s %s h' % (fld, new), cont())
        val, raising = tr_call_stmt(c, env, F)
        if raising:
            if not F.raising:
                fail(s, 'call of a raising function from a function not marked as raising')
            return bind_raising(val, cont())
        return bind(F, val, cont())
    if isinstance(s, ast.For):
        if s.orelse:
            fail(s, 'for-else')
        n = contains(s.body, (ast.Break, ast.Continue, ast.Return, ast.Raise))
        if n is not None:
            fail(n, 'break/continue/return/raise inside a loop')
        it = s.iter
        env2 = dict(env)
        if isinstance(it, ast.Call) and is_name(it.func, 'zip') and len(it.args) == 2 and not it.keywords:
            (av, at), (bv, bt) = iterable(it.args[0], env, F), iterable(it.args[1], env, F)
            if not (isinstance(s.target, ast.Tuple) and len(s.target.elts) == 2 and all(is_name(x) for x in s.target.elts)):
                fail(s, 'target of a zip loop')
            a, b = s.target.elts[0].id, s.target.elts[1].id
            env2[a], env2[b] = elem_type(at), elem_type(bt)
            lst, pat = '(combine %s %s)' % (av, bv), "'(%s, %s)" % (vn(a), vn(b))
            walked = [it.args[0], it.args[1]]
        else:
            lv, lt = iterable(it, env, F)
            if not is_name(s.target):
                fail(s, 'loop target')
            env2[s.target.id] = elem_type(lt)
            lst, pat = lv, vn(s.target.id)
            walked = [it]
        for w in walked:
            if isinstance(w, ast.Call):      # list(..): a copy, the body may change the original
                continue
            wt = ast.unparse(w)
            for nn in ast.walk(ast.Module(body=s.body, type_ignores=[])):
                if isinstance(nn, ast.Call) and isinstance(nn.func, ast.Attribute) and nn.func.attr in ('append', 'remove', 'pop', 'clear', 'insert') \
                        and ast.unparse(nn.func.value).replace('._subsets', '.subsets') == wt.replace('._subsets', '.subsets'):
                    fail(nn, 'the loop body changes the list it iterates over')
        raises = branch_raises(s.body, env2, F)
        old = CUR.get('in_loop')
        CUR['in_loop'] = True
        if raises:
            if not F.raising:
                fail(s, 'raising call in a loop of a function not marked as raising')
            body = tr_block(s.body, env2, F, None)
            CUR['in_loop'] = old
            loop = 'fold_left (fun o_ %s => match o_ with Raised e_ h => Raised e_ h | Done h =>\n%s end) %s (Done h)' % (pat, body, lst)
            return bind_raising('(' + loop + ')', cont())
        saved = F.raising
        F.raising = False
        body = tr_block(s.body, env2, F, None)
        F.raising = saved
        CUR['in_loop'] = old
        return bind(F, 'fold_left (fun h %s =>\n%s) %s h' % (pat, body, lst), cont())
    if isinstance(s, ast.With):
        if len(s.items) != 1 or s.items[0].optional_vars is not None or not isinstance(s.items[0].context_expr, ast.Call):
            fail(s, 'with form')
        c = s.items[0].context_expr
        n = contains(s.body, (ast.Return, ast.Raise, ast.Break, ast.Continue))
        if n is not None:
            fail(n, 'return/raise inside a with block')
        if c.args or c.keywords or not isinstance(c.func, ast.Attribute):
            fail(s, 'context manager')
        if c.func.attr == 'delay_callbacks' and hub_expr(c.func.value, env, F):
            if F.early:
                fail(s, 'delay_callbacks in a function the handlers depend on')
            if branch_raises(s.body, env, F):
                fail(s, 'a raising call inside delay_callbacks (try/finally is not modelled)')
            enter, leave = 'hub_pause h', 'hub_resume h'
        elif ast.unparse(c.func) == 'self._ignore_link_manager_update' and F.selft == 'dc':
            enter, leave = 'ev (EIgnoreLinks 1) h', 'ev (EIgnoreLinks (-1)) h'
        else:
            fail(s, 'context manager')
        old = CUR.get('in_loop')
        CUR['in_loop'] = True
        inner = tr_block(s.body, env, F, bind(F, leave, '\x00'))
        CUR['in_loop'] = old
        # locals bound inside the block stay visible after it (python scoping): splice the continuation in
        return bind(F, enter, inner.replace('\x00', cont(env_after_block(s.body, env, F))))
    fail(s, 'statement')


def branch_raises(stmts, env, F):
    """pre-scan: does the block call a raising translated function?  (a receiver that cannot be typed here is typed -- or
    rejected -- when the statement itself is translated, which fails closed on a raising call in a non-raising context)"""
    for s in stmts:
        for n in ast.walk(s):
            if isinstance(n, ast.Call) and isinstance(n.func, ast.Attribute):
                try:
                    rt = ex(n.func.value, env, F)[1]
                except Unsupported:
                    continue
                key = METHOD_OF.get((rt, n.func.attr))
                if key is not None and (key not in TRANSLATED or TRANSLATED[key]['raising']):
                    if key in TRANSLATED or key == F.key:
                        return key in TRANSLATED and TRANSLATED[key]['raising']
    return False


def env_after_if(s, env, F):
    # branches that fall through may only have heap effects; locals assigned inside are not visible after (fail-closed if used:
    # an unknown variable aborts the translation)
    return env


def env_after_block(stmts, env, F):
    """types of the locals a with-body binds at its top level (they are spliced into the same let-chain)"""
    env = dict(env)
    for s in stmts:
        if isinstance(s, ast.Assign) and len(s.targets) == 1 and is_name(s.targets[0]):
            v = s.value
            if isinstance(v, ast.Call) and is_name(v.func, 'GroupedSubset'):
                env[s.targets[0].id] = 'sub'
            elif isinstance(v, ast.Call) and is_name(v.func, 'SubsetGroup'):
                env[s.targets[0].id] = 'group'
            else:
                try:
                    env[s.targets[0].id] = ex(v, env, F)[1]
                except Unsupported:
                    pass
    return env


# ------------------------------------------------------------------ preamble
HEAP_FIELDS = [
    ('data', 'list Z', 'DataCollection._data'),
    ('groups', 'list Z', 'DataCollection._subset_groups'),
    ('dsubs', 'Z -> list (Z * Z)', 'BaseData._subsets : a reference (id, data, group) is stored as (id, group), data being the owner'),
    ('gsubs', 'Z -> list (Z * Z)', 'SubsetGroup.subsets : stored as (id, data), group being the owner'),
    ('glabel', 'Z -> Z', 'SubsetGroup.label (code n = "Subset n")'),
    ('gcolor', 'Z -> Z', 'SubsetGroup.style.color (code -1-i = settings.SUBSET_COLORS[i])'),
    ('dhub', 'Z -> bool', 'BaseData.hub is not None'),
    ('bcast', 'Z -> bool', 'Subset._broadcasting'),
    ('subs', 'list (Z * list (mclass * handler))', 'Hub._subscriptions: subscriber -> {message class: handler}, in insertion order'),
    ('paused', 'Z', 'Hub._paused'),
    ('queue', 'list message', 'Hub._queue'),
    ('next_did', 'Z', 'datasets 0..next_did-1 exist as objects'),
    ('next_gid', 'Z', 'SubsetGroup objects created so far'),
    ('next_sid', 'Z', 'GroupedSubset objects created so far'),
    ('sg_count', 'Z', 'DataCollection._sg_count'),
    ('ncolors', 'Z', 'len(settings.SUBSET_COLORS)'),
    ('trace', 'list event', 'opaque calls and message deliveries, in order'),
]

PRE1 = r"""(* GENERATED by tools/gen/gen_groups.py from glue/core/{subset_group,data_collection,data,subset,hub}.py on every run -- do not edit. *)
From Coq Require Import ZArith List Bool.
Import ListNotations.
Open Scope Z_scope.

(* ---------- fixed preamble: values ---------- *)
Record sub : Type := mkSub { sub_id : Z; sub_data : Z; sub_group : Z }.      (* a GroupedSubset reference with its two fields *)

Inductive message : Type :=
| DataCollectionAddMessage (d : Z)
| DataCollectionDeleteMessage (d : Z)
| SubsetCreateMessage (s : sub)
| SubsetDeleteMessage (s : sub).

Inductive mclass : Type := C_DataCollectionAddMessage | C_DataCollectionDeleteMessage | C_SubsetMessage.
Definition class_of (m : message) : mclass :=
  match m with
  | DataCollectionAddMessage _ => C_DataCollectionAddMessage
  | DataCollectionDeleteMessage _ => C_DataCollectionDeleteMessage
  | _ => C_SubsetMessage
  end.
Definition mclass_eqb (a b : mclass) : bool :=
  match a, b with
  | C_DataCollectionAddMessage, C_DataCollectionAddMessage => true
  | C_DataCollectionDeleteMessage, C_DataCollectionDeleteMessage => true
  | C_SubsetMessage, C_SubsetMessage => true
  | _, _ => false
  end.

Inductive event : Type :=
| EDeliver (m : message)              (* Hub.broadcast hands m to the subscribers (not paused), or delivers it when the last block is left *)
| ERegisterData (d : Z)               (* data.register_to_hub(hub) *)
| ESyncLinks                          (* DataCollection._sync_link_manager() *)
| EIgnoreLinks (delta : Z)            (* entering (+1) / leaving (-1) _ignore_link_manager_update *)
| ERegistryUnregisterData (d : Z)     (* Registry().unregister(data, Data) *)
| ERegistryUnregisterSubset (s : sub).

Definition E_TypeError : Z := 3.
Definition hupd {A} (f : Z -> A) (k : Z) (v : A) : Z -> A := fun x => if x =? k then v else f x.
Definition hmemz (x : Z) (l : list Z) : bool := existsb (Z.eqb x) l.
(* list.remove(x): the first element equal to x *)
Fixpoint remove_first (x : Z) (l : list Z) : list Z :=
  match l with [] => [] | y :: r => if y =? x then r else y :: remove_first x r end.
(* list.remove(s) on a list of stored references: GroupedSubset.__eq__ is identity, i.e. the id *)
Fixpoint remove_stored (s : Z) (l : list (Z * Z)) : list (Z * Z) :=
  match l with [] => [] | p :: r => if fst p =? s then r else p :: remove_stored s r end.
Definition sub_in (s : sub) (l : list sub) : bool := existsb (fun x => sub_id x =? sub_id s) l.
Definition stored_on_data (s : sub) : Z * Z := (sub_id s, sub_group s).
Definition stored_on_group (s : sub) : Z * Z := (sub_id s, sub_data s).
Definition auto_label (n : Z) : Z := n.               (* 'Subset %i' % n *)
Definition subset_color (i : Z) : Z := - 1 - i.       (* settings.SUBSET_COLORS[i] *)
"""

PRE2 = r"""
Definition subsets_of_data (d : Z) (h : heap) : list sub := map (fun p => mkSub (fst p) d (snd p)) (h_dsubs h d).
Definition subsets_of_group (g : Z) (h : heap) : list sub := map (fun p => mkSub (fst p) (snd p) g) (h_gsubs h g).
Definition ev (e : event) (h : heap) : heap := hset_trace (h_trace h ++ [e]) h.
Definition is_dataset (d : Z) (h : heap) : bool := (0 <=? d) && (d <? h_next_did h).     (* isinstance(data, BaseCartesianData) *)
Definition dc_has_hub (h : heap) : bool := true.      (* DataCollection.__init__ registers a Hub: `self.hub` is always set *)

(* GroupedSubset(data, group): a new object; `_broadcasting = False` *)
Definition new_GroupedSubset (d g : Z) (h : heap) : sub * heap :=
  let s := h_next_sid h in
  (mkSub s d g, hset_bcast (hupd (h_bcast h) s false) (hset_next_sid (s + 1) h)).
(* SubsetGroup(label=, subset_state=, color=): a new object; the selection is opaque to membership.  `self.subsets = []`
   needs no write: the list of an object id that was never allocated is empty (heap invariant, `gc_unborn` in the proofs) *)
Definition new_SubsetGroup (label : Z) (subset_state : option Z) (color : Z) (h : heap) : Z * heap :=
  let g := h_next_gid h in
  (g, hset_gcolor (hupd (h_gcolor h) g color) (hset_glabel (hupd (h_glabel h) g label) (hset_next_gid (g + 1) h))).
(* BaseData.register_to_hub(hub): `self.hub = hub` *)
Definition Data_register_to_hub (d : Z) (h : heap) : heap := ev (ERegisterData d) (hset_dhub (hupd (h_dhub h) d true) h).

(* ---------- the hub (hand-written rendering of glue/core/hub.py: subscribe, unsubscribe_all, broadcast, delay_callbacks) ---------- *)
Fixpoint put_class (c : mclass) (hd : handler) (l : list (mclass * handler)) : list (mclass * handler) :=
  match l with [] => [(c, hd)] | p :: r => if mclass_eqb (fst p) c then (c, hd) :: r else p :: put_class c hd r end.
Fixpoint put_sub (s : Z) (c : mclass) (hd : handler) (l : list (Z * list (mclass * handler))) :=
  match l with
  | [] => [(s, [(c, hd)])]
  | p :: r => if fst p =? s then (s, put_class c hd (snd p)) :: r else p :: put_sub s c hd r
  end.
Definition hub_subscribe (s : Z) (c : mclass) (hd : handler) (h : heap) : heap := hset_subs (put_sub s c hd (h_subs h)) h.
Definition hub_unsubscribe_all (s : Z) (h : heap) : heap := hset_subs (filter (fun p => negb (fst p =? s)) (h_subs h)) h.
Definition find_class (c : mclass) (l : list (mclass * handler)) : option handler :=
  match filter (fun p => mclass_eqb (fst p) c) l with [] => None | p :: _ => Some (snd p) end.
(* Hub._find_handlers: the subscribers that have a handler for the class, in subscription order (all priorities are equal) *)
Definition find_handlers (m : message) (h : heap) : list (Z * handler) :=
  flat_map (fun p => match find_class (class_of m) (snd p) with Some hd => [(fst p, hd)] | None => [] end) (h_subs h).
(* Hub.broadcast of a SubsetCreate/DeleteMessage: no object of the model subscribes to these classes (checked by the generator) *)
Definition hub_broadcast_subset_message (m : message) (h : heap) : heap :=
  if 0 <? h_paused h then hset_queue (h_queue h ++ [m]) h else ev (EDeliver m) h.
Definition hub_pause (h : heap) : heap := hset_paused (h_paused h + 1) h.
"""

PRE3 = r"""
(* ---------- the hub, continued: delivery to the translated handlers ---------- *)
Definition call_handler (hd : handler) (s : Z) (m : message) (h : heap) : heap :=
  match m with
  | DataCollectionAddMessage d | DataCollectionDeleteMessage d =>
      match hd with
%s      end
  | _ => h
  end.
Definition deliver (m : message) (h : heap) : heap :=
  fold_left (fun h p => call_handler (snd p) (fst p) m h) (find_handlers m h) (ev (EDeliver m) h).
(* Hub.broadcast *)
Definition hub_broadcast (m : message) (h : heap) : heap :=
  if 0 <? h_paused h then hset_queue (h_queue h ++ [m]) h else deliver m h.
(* leaving `with hub.delay_callbacks()`: the counter goes down; at zero the queue is detached and delivered in order *)
Definition hub_resume (h : heap) : heap :=
  let h := hset_paused (h_paused h - 1) h in
  if h_paused h =? 0 then fold_left (fun h m => deliver m h) (h_queue h) (hset_queue [] h) else h.
"""


def heap_decl():
    out = ['Record heap : Type := mkHeap {']
    out += ['  h_%s : %s;%s' % (n, t, ' ' * max(1, 44 - len(n) - len(t)) + '(* %s *)' % doc) for n, t, doc in HEAP_FIELDS]
    out[-1] = out[-1].replace(';', ' ', 1)
    out.append('}.')
    for n, t, _ in HEAP_FIELDS:
        args = ' '.join('v' if m == n else '(h_%s h)' % m for m, _, _ in HEAP_FIELDS)
        out.append('Definition hset_%s (v : %s) (h : heap) : heap := mkHeap %s.' % (n, t, args))
    return '\n'.join(out) + '\n'


# ------------------------------------------------------------------ driver
def find_method(path, cls, name):
    mod = ast.parse(open(os.path.join(REPO, path)).read())
    cs = [n for n in mod.body if isinstance(n, ast.ClassDef) and n.name == cls]
    if len(cs) != 1:
        raise Unsupported('%s: class %s not found exactly once' % (path, cls))
    ms = [n for n in cs[0].body if isinstance(n, ast.FunctionDef) and n.name == name]
    if len(ms) > 1:
        raise Unsupported('%s: %s.%s defined %d times' % (path, cls, name, len(ms)))
    return ms[0] if ms else None


def check_decorators(fn):
    for d in fn.decorator_list:
        if not (isinstance(d, ast.Call) and is_name(d.func, 'contract')):
            fail(fn, 'decorator %s' % ast.unparse(d))


def emit_function(path, cls, name, selft, params, early):
    CUR['file'] = path
    fn = find_method(path, cls, name)
    if fn is None:
        raise Unsupported('%s: %s.%s not found' % (path, cls, name))
    check_decorators(fn)
    a = fn.args
    names = [x.arg for x in a.args]
    want = ['self'] + [p for p, _ in params]
    if names != want or a.vararg or a.kwonlyargs or a.posonlyargs:
        fail(fn, 'signature (expected %s)' % ', '.join(want))
    if a.kwarg is not None and not (name == 'new_subset_group' and a.kwarg.arg == 'kwargs'):
        fail(fn, '**%s' % a.kwarg.arg)
    ndef = len(a.defaults)
    for p, d in zip(names[len(names) - ndef:], a.defaults):
        if not (isinstance(d, ast.Constant) and d.value is None and dict(params).get(p) == 'optint'):
            fail(fn, 'default of %s' % p)
    for (p, t) in params[:len(params) - ndef]:
        if t == 'optint':
            fail(fn, 'parameter %s lost its default' % p)
    key = '%s.%s' % (cls, name)
    F = Fn(key, selft, early)
    env = {'self': selft}
    env.update(dict(params))
    F.raising = contains(fn.body, ast.Raise) is not None or branch_raises(fn.body, env, F)
    gname = '%s_%s' % (cls, name)
    TRANSLATED[key] = {'name': gname, 'params': params, 'selft': selft, 'raising': F.raising}    # (recursion is not supported: removed below on failure)
    try:
        CUR['in_loop'] = False
        body = tr_block(list(fn.body), env, F, None)
    except Unsupported:
        del TRANSLATED[key]
        raise
    sig = ''
    if selft not in VALUELESS:
        sig += ' (self : %s)' % COQ_TYPE[selft]
    for p, t in params:
        if t not in VALUELESS:
            sig += ' (%s : %s)' % (vn(p), COQ_TYPE[t])
    ret = 'outcome' if F.raising else 'heap'
    return '(* %s:%d-%d  %s.%s *)\nDefinition %s%s (h : heap) : %s :=\n%s.\n' % (path, fn.lineno, fn.end_lineno, cls, name, gname, sig, ret, body)


def check_dc_dunder():
    CUR['file'] = 'glue/core/data_collection.py'
    it = find_method('glue/core/data_collection.py', 'DataCollection', '__iter__')
    CUR['dc_iter_ok'] = it is not None and len(it.body) == 1 and isinstance(it.body[0], ast.Return) \
        and ast.unparse(it.body[0].value) == 'iter(self._data)'
    co = find_method('glue/core/data_collection.py', 'DataCollection', '__contains__')
    ok = False
    if co is not None and len(co.body) == 1 and isinstance(co.body[0], ast.Return) and [x.arg for x in co.args.args] == ['self', 'obj']:
        v = co.body[0].value
        # for a dataset object the first disjunct decides: `obj in self._data`; the others compare a Data with groups / labels
        if isinstance(v, ast.BoolOp) and isinstance(v.op, ast.Or) and ast.unparse(v.values[0]) == 'obj in self._data' \
                and [ast.unparse(x) for x in v.values[1:]] == ['obj in self.subset_groups', 'any([data.label == obj for data in self._data])']:
            ok = True
    CUR['dc_contains_ok'] = ok
    sp = find_method('glue/core/data.py', 'BaseData', 'subsets')
    if sp is None or ast.unparse(sp.body[-1]) != 'return tuple(self._subsets)':
        raise Unsupported('glue/core/data.py: BaseData.subsets is not `return tuple(self._subsets)`')
    db = find_method('glue/core/subset.py', 'Subset', 'do_broadcast')
    if db is None or ast.unparse(db.body[-1]) != "object.__setattr__(self, '_broadcasting', value)":
        raise Unsupported('glue/core/subset.py: Subset.do_broadcast changed')
    rh = find_method('glue/core/data.py', 'BaseData', 'register_to_hub')
    if rh is None or ast.unparse(rh.body[-1]) != 'self.hub = hub':
        raise Unsupported('glue/core/data.py: BaseData.register_to_hub changed')
    # GroupedSubset must not override what is translated from Subset / must keep identity equality
    mod = ast.parse(open(os.path.join(REPO, 'glue/core/subset_group.py')).read())
    gs = [n for n in mod.body if isinstance(n, ast.ClassDef) and n.name == 'GroupedSubset'][0]
    names = [n.name for n in gs.body if isinstance(n, ast.FunctionDef)]
    for m in ('delete', 'register', 'do_broadcast'):
        if m in names:
            raise Unsupported('glue/core/subset_group.py: GroupedSubset overrides %s' % m)
    eq = [n for n in gs.body if isinstance(n, ast.FunctionDef) and n.name == '__eq__']
    if len(eq) != 1 or ast.unparse(eq[0].body[-1]) != 'return other is self':
        raise Unsupported('glue/core/subset_group.py: GroupedSubset.__eq__ is not identity')
    init = [n for n in gs.body if isinstance(n, ast.FunctionDef) and n.name == '__init__'][0]
    src = [ast.unparse(s) for s in init.body]
    for need in ('self._broadcasting = False', 'self.group = group', 'self.data = data'):
        if need not in src:
            raise Unsupported('glue/core/subset_group.py: GroupedSubset.__init__ lost `%s`' % need)
    sgi = find_method('glue/core/subset_group.py', 'SubsetGroup', '__init__')
    if sgi is None or 'self.subsets = []' not in [ast.unparse(s) for s in sgi.body]:
        raise Unsupported('glue/core/subset_group.py: SubsetGroup.__init__ lost `self.subsets = []`')


def generate():
    TRANSLATED.clear()
    CUR.clear()
    CUR['handlers'] = set()
    check_dc_dunder()
    funcs = list(FUNCS)
    # unregister: the class's own, else HubListener's
    own = find_method('glue/core/subset_group.py', 'SubsetGroup', 'unregister')
    unreg = ('glue/core/subset_group.py', 'SubsetGroup', 'unregister', 'group', [('hub', 'hub')]) if own is not None else \
            ('glue/core/hub.py', 'HubListener', 'unregister', 'group', [('hub', 'hub')])
    funcs.insert(7, unreg)
    # handlers: the methods named by the lambdas of register_to_hub -- needed before the heap is declared
    CUR['file'] = 'glue/core/subset_group.py'
    rth = find_method('glue/core/subset_group.py', 'SubsetGroup', 'register_to_hub')
    if rth is None:
        raise Unsupported('SubsetGroup.register_to_hub not found')
    hnames = []
    for n in ast.walk(rth):
        if isinstance(n, ast.Lambda) and isinstance(n.body, ast.Call) and isinstance(n.body.func, ast.Attribute):
            if n.body.func.attr not in hnames:
                hnames.append(n.body.func.attr)
    if not hnames:
        raise Unsupported('SubsetGroup.register_to_hub subscribes nothing')
    early_keys = {'BaseData.add_subset', 'Subset.register', 'Subset.delete', 'SubsetGroup._add_data', 'SubsetGroup._remove_data'}
    parts = [PRE1, 'Inductive handler : Type := %s.\n' % ' | '.join('H_' + n for n in sorted(hnames)), heap_decl(),
             'Inductive outcome : Type := Done (h : heap) | Raised (e : Z) (h : heap).\n', PRE2]
    late = []
    for path, cls, name, selft, params in funcs:
        key = '%s.%s' % (cls, name)
        if cls == 'HubListener':
            key = 'SubsetGroup.unregister'
        early = key in early_keys
        txt = emit_function(path, cls, name, selft, params, early)
        if cls == 'HubListener':
            TRANSLATED['SubsetGroup.unregister'] = TRANSLATED.pop('HubListener.unregister')
        (parts if early else late).append(txt)
        if key == 'SubsetGroup._remove_data':
            pass
    for n in hnames:
        if ('group', n) not in METHOD_OF or METHOD_OF[('group', n)] not in early_keys:
            raise Unsupported('handler %s is not one of the translated methods' % n)
    if CUR['handlers'] != set(hnames):
        raise Unsupported('handlers found by the scan and by the translation differ')
    cases = ''.join('      | H_%s => %s s d h\n' % (n, TRANSLATED[METHOD_OF[('group', n)]]['name']) for n in sorted(hnames))
    # register_to_hub / unregister / register are emitted after the handlers only because they are not needed before
    parts.append(PRE3 % cases)
    parts += late
    text = '\n'.join(parts)
    os.makedirs(os.path.dirname(OUT), exist_ok=True)
    if not os.path.exists(OUT) or open(OUT).read() != text:
        open(OUT, 'w').write(text)


if __name__ == '__main__':
    try:
        generate()
    except Unsupported as e:
        print('TRANSLATION-FAILED: %s' % e)
        sys.exit(3)
    print('ok', OUT)
