#!/usr/bin/env python3
"""Regenerate coq/gen/Gen_tables.v from the *current* source of the package under $GLUE_REPO (C12, C02).

The tables are finite facts of the code, dumped from the live package (import) plus an `ast` scan of its source:

  names       every string used below, numbered; all other tables refer to strings by number
  savers      GlueSerializer.dispatch._data    as rows (class, versions in registration order, per version: raises-only? returns-{}?)
  loaders     GlueUnSerializer.dispatch._data  as rows (class, versions)
  write_only  registry types that are saved but deliberately never loaded (pinned: Session; checked against the source)
  classes     every class of the families SubsetState / Roi / link helpers / ComponentLink / Coordinates / Component
              (transitive __subclasses__), every registry type (and its subclasses inside the package), every patch key that is
              a live class: MRO, provider of __gluestate__ / __setgluestate__, instance-state attributes (self.X = ... in the
              __init__ methods along the MRO, by ast), abstract?, defined in this package?, the keyword / positional arguments
              with which the __setgluestate__ provider calls cls(...), and the parameters cls.__init__ accepts
  patches     PATH_PATCHES as rows (from, to, from resolves to a live class defined here under that very name?, is that class
              used by another non-test module of the package?)
  targets     for every name that is the right-hand side of a patch: starts with `glue.`?  importable?

Fail closed: anything that cannot be interpreted (import failure of a core module, an __init__ whose source cannot be read, a
patch file line that does not parse, a registry key that is not a class) aborts with a non-zero exit status.
"""
import ast
import importlib
import inspect
import os
import pkgutil
import sys
import textwrap

HERE = os.path.dirname(os.path.abspath(__file__))
REPO = os.environ.get('GLUE_REPO', '/repo')

FAMILIES = ['SubsetState', 'Roi', 'LinkCollection', 'ComponentLink', 'Coordinates', 'Component', 'registry', 'patch-live']
# registry types that are written but never read back; the reason is checked below against the source
WRITE_ONLY = ['glue.core.session.Session']
# modules that may fail to import in this environment without invalidating the tables (no class of the families lives there)
IMPORT_FAILURE_OK = {'glue.core.regions'}
THIRD_PARTY_OPTIONAL = ('qtpy', 'glue_qt', 'PyQt5', 'PyQt6', 'PySide2', 'PySide6', 'IPython', 'spectral_cube', 'plotly', 'dask', 'regions')


class Uninterpretable(Exception):
    pass


def qn(c):
    return '%s.%s' % (c.__module__, c.__qualname__)


def all_subclasses(c, acc=None):
    acc = [] if acc is None else acc
    if c not in acc:
        acc.append(c)
        for s in sorted(c.__subclasses__(), key=qn):
            all_subclasses(s, acc)
    return acc


def in_package(c, pkgdir):
    if not c.__module__.startswith('glue.') and c.__module__ != 'glue':
        return False
    try:
        f = inspect.getsourcefile(c)
    except TypeError:
        return False
    return bool(f) and os.path.abspath(f).startswith(pkgdir + os.sep)


def import_package(pkgdir):
    """import every non-test, non-Qt module so that __subclasses__ sees the whole package"""
    import glue
    if os.path.abspath(os.path.dirname(glue.__file__)) != pkgdir:
        raise Uninterpretable('glue imported from %s, expected %s' % (glue.__file__, pkgdir))
    failed = []

    def onerr(name):
        failed.append((name, 'walk error'))
    mods = []
    for m in pkgutil.walk_packages(glue.__path__, 'glue.', onerror=onerr):
        name = m.name
        if '.tests' in name or name.endswith('conftest') or '.qt' in name:
            continue
        mods.append(name)
        try:
            importlib.import_module(name)
        except ModuleNotFoundError as e:
            if e.name and e.name.split('.')[0] in THIRD_PARTY_OPTIONAL:
                failed.append((name, 'optional dependency %s missing' % e.name))
            else:
                raise Uninterpretable('cannot import %s: %r' % (name, e))
        except Exception as e:
            if name in IMPORT_FAILURE_OK:
                failed.append((name, repr(e)[:100]))
            else:
                raise Uninterpretable('cannot import %s: %r' % (name, e))
    return mods, failed


# ------------------------------------------------------------------ ast helpers
_src_cache = {}


def class_node(c):
    """ast.ClassDef of a class defined in a readable source file, else None"""
    try:
        f = inspect.getsourcefile(c)
    except TypeError:
        return None
    if not f or not os.path.exists(f):
        return None
    if f not in _src_cache:
        _src_cache[f] = ast.parse(open(f).read())
    tree = _src_cache[f]
    path = c.__qualname__.split('.')
    nodes = [tree]
    for i, part in enumerate(path):
        found = None
        if part == '<locals>':
            continue
        for n in nodes:
            for sub in ast.walk(n):
                if isinstance(sub, (ast.ClassDef, ast.FunctionDef)) and sub.name == part:
                    found = sub
                    break
            if found:
                break
        if found is None:
            return None
        nodes = [found]
    return nodes[0] if isinstance(nodes[0], ast.ClassDef) else None


def method_node(c, name):
    cn = class_node(c)
    if cn is None:
        return None
    for n in cn.body:
        if isinstance(n, ast.FunctionDef) and n.name == name:
            return n
    return None


def self_attrs(fn):
    """names X with `self.X = ...` (also augmented / annotated / tuple targets) in a function"""
    if not fn.args.args:
        return []
    me = fn.args.args[0].arg
    out = []

    def tgt(t):
        if isinstance(t, ast.Attribute) and isinstance(t.value, ast.Name) and t.value.id == me:
            if t.attr not in out:
                out.append(t.attr)
        elif isinstance(t, (ast.Tuple, ast.List)):
            for e in t.elts:
                tgt(e)
    for n in ast.walk(fn):
        if isinstance(n, ast.Assign):
            for t in n.targets:
                tgt(t)
        elif isinstance(n, (ast.AugAssign, ast.AnnAssign)):
            tgt(n.target)
    return out


def instance_attrs(c, pkgdir):
    """instance-state attributes: union over the MRO (classes of this package) of self.X assigned in their own __init__"""
    out = []
    for k in c.__mro__:
        if k is object or '__init__' not in k.__dict__:
            continue
        if not in_package(k, pkgdir):
            continue
        fn = method_node(k, '__init__')
        if fn is None:
            raise Uninterpretable('cannot read the source of %s.__init__' % qn(k))
        for a in self_attrs(fn):
            if a not in out:
                out.append(a)
    return sorted(out)


def provider(c, meth):
    for k in c.__mro__:
        if meth in k.__dict__:
            return k
    return None


def cls_call_signature(p):
    """how P.__setgluestate__ constructs the object: ('cls', npos, [kw...]) when it calls cls(...) with the *class it is invoked on*,
    ('fixed', 0, []) when it names a concrete class or delegates; None when P has no readable __setgluestate__"""
    fn = method_node(p, '__setgluestate__')
    if fn is None or not fn.args.args:
        return None
    clsname = fn.args.args[0].arg
    best = None
    for n in ast.walk(fn):
        if isinstance(n, ast.Call) and isinstance(n.func, ast.Name) and n.func.id == clsname:
            if any(isinstance(a, ast.Starred) for a in n.args) or any(k.arg is None for k in n.keywords):
                return ('fixed', 0, [])
            cand = ('cls', len(n.args), sorted(k.arg for k in n.keywords))
            # several calls (backward-compatibility branches): keep the first one, which is the current format
            if best is None:
                best = cand
    return best or ('fixed', 0, [])


def init_signature(c):
    """(max positional after self or -1 for *args, [parameter names that can be given by keyword], accepts **kwargs?, number of required positional)"""
    try:
        sig = inspect.signature(c.__init__)
    except (TypeError, ValueError):
        return (-1, [], True, 0)
    params = list(sig.parameters.values())[1:]
    npos = 0
    kws = []
    varkw = False
    req = 0
    for p in params:
        if p.kind in (p.POSITIONAL_ONLY, p.POSITIONAL_OR_KEYWORD):
            if npos >= 0:
                npos += 1
            if p.default is p.empty:
                req += 1
        if p.kind in (p.POSITIONAL_OR_KEYWORD, p.KEYWORD_ONLY):
            kws.append(p.name)
        if p.kind == p.VAR_POSITIONAL:
            npos = -1
        if p.kind == p.VAR_KEYWORD:
            varkw = True
    return (npos, sorted(kws), varkw, req)


def saver_shape(fn):
    """('raises' | 'empty' | 'other') for a registered saver function, by ast"""
    try:
        src = textwrap.dedent(inspect.getsource(fn))
        node = ast.parse(src).body[0]
    except Exception as e:
        raise Uninterpretable('cannot read the source of saver %r: %r' % (fn, e))
    body = [s for s in node.body if not (isinstance(s, ast.Expr) and isinstance(getattr(s, 'value', None), ast.Constant))]
    if len(body) == 1 and isinstance(body[0], ast.Raise):
        return 'raises'
    if len(body) == 1 and isinstance(body[0], ast.Return):
        v = body[0].value
        if isinstance(v, ast.Dict) and not v.keys:
            return 'empty'
        if isinstance(v, ast.Call) and isinstance(v.func, ast.Name) and v.func.id == 'dict' and not v.args and not v.keywords:
            return 'empty'
    return 'other'


def used_elsewhere(c, pkgdir, modfiles):
    """is the class referred to (a Name/Attribute in load context, not an import statement) in a non-test module of the
    package other than the one that defines it?"""
    name = c.__name__
    own = os.path.abspath(inspect.getsourcefile(c))
    for f in modfiles:
        if os.path.abspath(f) == own:
            continue
        txt = open(f).read()
        if name not in txt:
            continue
        tree = ast.parse(txt)
        imported = False
        for n in ast.walk(tree):
            if isinstance(n, ast.ImportFrom) and n.module and (n.module == c.__module__ or c.__module__.endswith('.' + n.module.lstrip('.'))):
                if any(a.name == name for a in n.names):
                    imported = True
        for n in ast.walk(tree):
            if imported and isinstance(n, ast.Name) and n.id == name and isinstance(n.ctx, ast.Load):
                return True
            if isinstance(n, ast.Attribute) and n.attr == name and isinstance(n.ctx, ast.Load):
                return True
    return False


def package_files(pkgdir):
    out = []
    for root, dirs, files in os.walk(pkgdir):
        dirs[:] = sorted(d for d in dirs if d != 'tests' and d != '__pycache__')
        for f in sorted(files):
            if f.endswith('.py') and f != 'conftest.py':
                out.append(os.path.join(root, f))
    return out


# ------------------------------------------------------------------ collect
def collect(repo=None):
    repo = os.path.abspath(repo or REPO)
    pkgdir = os.path.join(repo, 'glue')
    if repo not in sys.path:
        sys.path.insert(0, repo)
    mods, failed = import_package(pkgdir)
    from glue.core import state as S
    from glue.utils import lookup_class
    from glue.core.subset import SubsetState
    from glue.core.roi import Roi
    from glue.core.link_helpers import LinkCollection, ManualLinkCollection, PartialResult
    from glue.core.component_link import ComponentLink
    from glue.core.coordinates import Coordinates
    from glue.core.component import Component

    names = {}

    def N(s):
        if not isinstance(s, str):
            raise Uninterpretable('not a string: %r' % (s,))
        if s not in names:
            names[s] = len(names)
        return names[s]

    T = {'repo': repo, 'import_failures': failed}

    # ---- registries
    def registry(vd, with_shape):
        rows = []
        for k, vs in vd._data.items():
            if not vs:
                continue      # an entry created as a side effect of a failed lookup (defaultdict), holds no version
            if not isinstance(k, type):
                raise Uninterpretable('registry key is not a class: %r' % (k,))
            for v in vs:
                if not isinstance(v, int) or isinstance(v, bool):
                    raise Uninterpretable('registry version is not an int: %r' % (v,))
            row = {'cls': k, 'name': qn(k), 'versions': list(vs), 'funcs': dict(vs)}
            if with_shape:
                row['shape'] = {v: saver_shape(f) for v, f in vs.items()}
            rows.append(row)
        return rows
    savers = registry(S.GlueSerializer.dispatch, True)
    loaders = registry(S.GlueUnSerializer.dispatch, False)
    T['savers'], T['loaders'] = savers, loaders

    # ---- write-only types: justified only if Application.__setgluestate__ registers the session itself
    app_src = open(os.path.join(pkgdir, 'core', 'application_base.py')).read()
    if "context.register_object(rec['session']" not in app_src:
        raise Uninterpretable('Application.__setgluestate__ no longer registers the session object itself; WRITE_ONLY is unjustified')
    T['write_only'] = list(WRITE_ONLY)

    # ---- class table
    fam_roots = [(0, [SubsetState]), (1, [Roi]), (2, [LinkCollection, ManualLinkCollection, PartialResult]),
                 (3, [ComponentLink]), (4, [Coordinates]), (5, [Component])]
    classes = []      # (family, cls)
    seen = set()
    for fam, roots in fam_roots:
        for r in roots:
            for c in all_subclasses(r):
                if c not in seen:
                    seen.add(c)
                    classes.append((fam, c))
    for row in savers + loaders:
        k = row['cls']
        cands = all_subclasses(k) if in_package(k, pkgdir) else [k]
        for c in cands:
            if c not in seen and (c is k or in_package(c, pkgdir)):
                seen.add(c)
                classes.append((6, c))

    # ---- patches
    patch_file = os.path.join(pkgdir, 'core', 'state_path_patches.txt')
    raw = []
    for i, line in enumerate(open(patch_file)):
        if not line.strip():
            raise Uninterpretable('state_path_patches.txt line %d is empty' % (i + 1))
        parts = line.strip().split(' -> ')
        if len(parts) != 2 or not parts[0].strip() or not parts[1].strip():
            raise Uninterpretable('state_path_patches.txt line %d does not parse: %r' % (i + 1, line))
        raw.append((parts[0].strip(), parts[1].strip()))
    if dict(raw) != dict(S.PATH_PATCHES):
        raise Uninterpretable('PATH_PATCHES differs from state_path_patches.txt')
    modfiles = package_files(pkgdir)
    patches = []
    for frm, to in S.PATH_PATCHES.items():
        live_cls = None
        try:
            o = lookup_class(frm)
            if isinstance(o, type) and qn(o) == frm and in_package(o, pkgdir):
                live_cls = o
        except ValueError:
            pass
        used = bool(live_cls) and used_elsewhere(live_cls, pkgdir, modfiles)
        if live_cls is not None and live_cls not in seen:
            seen.add(live_cls)
            classes.append((7, live_cls))
        patches.append({'from': frm, 'to': to, 'live_class': live_cls is not None, 'used': used})
    T['patches'] = patches
    targets = []
    for to in sorted(set(p['to'] for p in patches)):
        try:
            lookup_class(to)
            ok = True
        except ValueError:
            ok = False
        targets.append({'name': to, 'in_glue': to.startswith('glue.'), 'importable': ok})
    T['targets'] = targets

    rows = []
    for fam, c in classes:
        gs = provider(c, '__gluestate__')
        sgs = provider(c, '__setgluestate__')
        inpkg = in_package(c, pkgdir)
        call = cls_call_signature(sgs) if (sgs is not None and in_package(sgs, pkgdir)) else None
        rows.append({
            'cls': c, 'name': qn(c), 'family': fam, 'mro': [qn(k) for k in c.__mro__],
            'gs': qn(gs) if gs else None, 'sgs': qn(sgs) if sgs else None,
            'attrs': instance_attrs(c, pkgdir) if inpkg else [],
            'abstract': bool(inspect.isabstract(c)), 'in_pkg': inpkg,
            'call': call, 'init': init_signature(c),
        })
    T['classes'] = rows

    # ---- number the strings (deterministic order)
    for row in savers:
        N(row['name'])
    for row in loaders:
        N(row['name'])
    for r in rows:
        N(r['name'])
        for m in r['mro']:
            N(m)
        for a in r['attrs']:
            N(a)
        if r['call']:
            for k in r['call'][2]:
                N(k)
        for k in r['init'][1]:
            N(k)
    for p in patches:
        N(p['from'])
        N(p['to'])
    for w in WRITE_ONLY:
        N(w)
    T['names'] = names
    return T


# ------------------------------------------------------------------ render
def zl(xs):
    return '[' + '; '.join(str(int(x)) for x in xs) + ']'


def b(x):
    return 'true' if x else 'false'


def oz(x):
    return 'None' if x is None else '(Some %d)' % x


def render(T):
    n = T['names']
    out = []
    out.append('(* GENERATED by tools/gen/gen_tables.py from the working tree of the package -- do not edit.\n'
               '   Finite tables of the code: saver / loader registries, class table, rename table. *)')
    out.append('From Coq Require Import ZArith List Bool String.\nImport ListNotations.\nLocal Open Scope Z_scope.\nLocal Open Scope string_scope.\n')
    out.append('Definition names : list (Z * string) := [')
    items = sorted(n.items(), key=lambda kv: kv[1])
    out.append(';\n'.join('  (%d, "%s")' % (i, s.replace('"', '""')) for s, i in items))
    out.append('].\n')
    out.append('(* shape of a registered saver: 0 = ordinary, 1 = its body only raises, 2 = it returns the empty record *)')
    out.append('Record saver_row := mkSaver { s_cls : Z; s_versions : list Z; s_shapes : list Z }.')
    shp = {'other': 0, 'raises': 1, 'empty': 2}
    out.append('Definition savers : list saver_row := [')
    out.append(';\n'.join('  mkSaver %d %s %s' % (n[r['name']], zl(r['versions']), zl(shp[r['shape'][v]] for v in r['versions'])) for r in T['savers']))
    out.append('].\n')
    out.append('Record loader_row := mkLoader { l_cls : Z; l_versions : list Z }.')
    out.append('Definition loaders : list loader_row := [')
    out.append(';\n'.join('  mkLoader %d %s' % (n[r['name']], zl(r['versions'])) for r in T['loaders']))
    out.append('].\n')
    out.append('Definition write_only : list Z := %s.\n' % zl(n[w] for w in T['write_only']))
    out.append('(* c_call: how the provider of __setgluestate__ builds the object: None = it does not call cls(...) generically;\n'
               '   Some (npos, kws) = cls(<npos positional>, kw=...).  c_init = (max positional or -1 for *args, keyword-able parameters, **kwargs?) *)')
    out.append('Record cls_row := mkCls { c_id : Z; c_family : Z; c_mro : list Z; c_gs : option Z; c_sgs : option Z; c_attrs : list Z;\n'
               '  c_abstract : bool; c_inpkg : bool; c_call : option (Z * list Z); c_init_npos : Z; c_init_kws : list Z; c_init_varkw : bool }.')
    out.append('Definition classes : list cls_row := [')
    rows = []
    for r in T['classes']:
        call = r['call']
        if call is None or call[0] != 'cls':
            cs = 'None'
        else:
            cs = '(Some (%d, %s))' % (call[1], zl(n[k] for k in call[2]))
        npos, kws, varkw, _ = r['init']
        rows.append('  (* %s *)\n  mkCls %d %d %s %s %s %s %s %s %s (%d) %s %s' % (
            r['name'], n[r['name']], r['family'], zl(n[m] for m in r['mro']),
            oz(n[r['gs']] if r['gs'] else None), oz(n[r['sgs']] if r['sgs'] else None),
            zl(n[a] for a in r['attrs']), b(r['abstract']), b(r['in_pkg']), cs, npos, zl(n[k] for k in kws), b(varkw)))
    out.append(';\n'.join(rows))
    out.append('].\n')
    out.append('(* p_live: `from` resolves today to a class that this package defines under exactly that name;\n'
               '   p_used: that class is referred to by another non-test module of the package *)')
    out.append('Record patch_row := mkPatch { p_from : Z; p_to : Z; p_live : bool; p_used : bool }.')
    out.append('Definition patches : list patch_row := [')
    out.append(';\n'.join('  mkPatch %d %d %s %s' % (n[p['from']], n[p['to']], b(p['live_class']), b(p['used'])) for p in T['patches']))
    out.append('].\n')
    out.append('Record target_row := mkTarget { t_name : Z; t_in_glue : bool; t_importable : bool }.')
    out.append('Definition targets : list target_row := [')
    out.append(';\n'.join('  mkTarget %d %s %s' % (n[t['name']], b(t['in_glue']), b(t['importable'])) for t in T['targets']))
    out.append('].')
    return '\n'.join(out) + '\n'


def generate(out_path):
    T = collect()
    text = render(T)
    tmp = out_path + '.tmp'
    with open(tmp, 'w') as f:
        f.write(text)
    if not os.path.exists(out_path) or open(out_path).read() != text:
        os.replace(tmp, out_path)
    else:
        os.remove(tmp)
    return T


if __name__ == '__main__':
    out = sys.argv[1] if len(sys.argv) > 1 else os.path.join(os.path.dirname(os.path.dirname(HERE)), 'coq/gen/Gen_tables.v')
    try:
        T = generate(out)
    except Uninterpretable as e:
        print('TABLES-FAILED: %s' % e)
        sys.exit(3)
    print('ok %s: %d names, %d saver rows, %d loader rows, %d classes, %d patches' % (
        out, len(T['names']), len(T['savers']), len(T['loaders']), len(T['classes']), len(T['patches'])))
