#!/usr/bin/env python3
"""
Regenerate coq/gen/Gen_coordcomp.v from the *current* source (ast only, nothing is imported) of

  glue/core/component.py   class CoordinateComponent: __init__, the `data` property, __getitem__
  glue/core/data.py        the setter of Data.coords

What is translated (property C15, histories):

  CoordinateComponent.data          must be   return self._calculate(<args>)            args: nothing | None | view=None
  CoordinateComponent.__getitem__   must be   return self._calculate(key)  |  self._calculate(view=key)
     -> Definition cc_data / cc_getitem: the attribute read without / with a view is `_calculate` of that view, evaluated at the
        time of the read (the component computes its values on the fly)
  no hidden state: __init__ must assign exactly  self.world, self._data, self.axis  (from its arguments), and NO other statement of
     the class may store into an attribute / item of `self`, call setattr / getattr / vars / hasattr / globals, use `global` /
     `nonlocal`, or carry a decorator other than @property / @classmethod: a CoordinateComponent that remembers anything between two reads
     (a cache) is outside the translatable fragment and fails closed.
     -> Definition cc_fields : Z := 3.
  Data.coords setter                must be
         if <cond>:
             self._coords = value
             if len(self.components) > 0:
                 self._update_world_components(self.ndim)
     with <cond> a boolean combination (and / or / not) of  hasattr(self, '_coords')  and  self._coords != value | is not value
     ( == | is  negated accordingly )
     -> Definition coords_setter_rebuilds (has differs : bool) : bool     (does the assignment replace the world components and links)
        Definition coords_setter_needs_components : Z := 0                (the threshold of  len(self.components) > 0)
Fail-closed: anything else aborts with TRANSLATION-FAILED.
"""
import ast
import os
import sys

REPO = os.environ.get('GLUE_REPO', '/repo')
HERE = os.path.dirname(os.path.abspath(__file__))
OUT = os.path.join(os.path.dirname(os.path.dirname(HERE)), 'coq/gen/Gen_coordcomp.v')


class Unsupported(Exception):
    pass


def fail(node, why):
    raise Unsupported('line %s: %s: %s' % (getattr(node, 'lineno', '?'), why, ast.unparse(node)[:160]))


def body_of(fn):
    return [s for s in fn.body if not (isinstance(s, ast.Expr) and isinstance(s.value, ast.Constant))]


def is_self_attr(e, name=None):
    return isinstance(e, ast.Attribute) and isinstance(e.value, ast.Name) and e.value.id == 'self' and (name is None or e.attr == name)


def calculate_call(fn, want):
    """the single statement `return self._calculate(...)`; want = None (no view) or the name of the view argument"""
    b = body_of(fn)
    if len(b) != 1 or not isinstance(b[0], ast.Return) or not isinstance(b[0].value, ast.Call):
        fail(fn, 'body must be a single `return self._calculate(...)`')
    call = b[0].value
    if not is_self_attr(call.func, '_calculate'):
        fail(call, 'must call self._calculate')
    args = list(call.args) + [k.value for k in call.keywords if k.arg == 'view']
    if any(k.arg != 'view' for k in call.keywords) or len(args) > 1:
        fail(call, 'arguments of _calculate')
    if want is None:
        if args and not (isinstance(args[0], ast.Constant) and args[0].value is None):
            fail(call, 'the view passed by `data` must be absent or None')
    else:
        if len(args) != 1 or not (isinstance(args[0], ast.Name) and args[0].id == want):
            fail(call, 'the view passed by __getitem__ must be its argument')


FORBIDDEN_NAMES = {'setattr', 'getattr', 'hasattr', 'vars', 'globals', 'locals', 'delattr', 'object'}


def check_no_hidden_state(cls):
    for item in cls.body:
        if isinstance(item, ast.FunctionDef):
            for d in item.decorator_list:
                if not (isinstance(d, ast.Name) and d.id in ('property', 'classmethod')):
                    fail(item, 'decorator other than @property / @classmethod on a CoordinateComponent method')
        elif isinstance(item, ast.Expr) and isinstance(item.value, ast.Constant):
            continue
        else:
            fail(item, 'class-level statement (class attributes are shared state)')
        for node in ast.walk(item):
            if isinstance(node, (ast.Global, ast.Nonlocal)):
                fail(node, 'global / nonlocal state')
            if isinstance(node, ast.Name) and node.id in FORBIDDEN_NAMES:
                fail(node, 'reflective access to attributes')
            if isinstance(node, ast.Attribute) and node.attr in ('__dict__', '__class__', '__setattr__'):
                fail(node, 'reflective access to attributes')
            if item.name == '__init__':
                continue
            if isinstance(node, (ast.Attribute, ast.Subscript)) and isinstance(node.ctx, (ast.Store, ast.Del)):
                base = node
                while isinstance(base, (ast.Attribute, ast.Subscript)):
                    base = base.value
                if isinstance(base, ast.Name) and base.id in ('self', 'cls', 'CoordinateComponent'):
                    fail(node, 'a method other than __init__ stores into self / the class (hidden state between reads)')


def check_init(fn):
    if [a.arg for a in fn.args.args] != ['self', 'data', 'axis', 'world']:
        fail(fn, '__init__(self, data, axis, world=False) expected')
    got = {}
    for s in body_of(fn):
        if not (isinstance(s, ast.Assign) and len(s.targets) == 1 and is_self_attr(s.targets[0]) and isinstance(s.value, ast.Name)):
            fail(s, '__init__ may only assign arguments to attributes of self')
        got[s.targets[0].attr] = s.value.id
    if got != {'world': 'world', '_data': 'data', 'axis': 'axis'}:
        raise Unsupported('CoordinateComponent.__init__ must set exactly world, _data, axis; found %r' % got)
    return len(got)


def setter_cond(e):
    if isinstance(e, ast.BoolOp):
        op = ' && ' if isinstance(e.op, ast.And) else ' || '
        return '(' + op.join(setter_cond(v) for v in e.values) + ')'
    if isinstance(e, ast.UnaryOp) and isinstance(e.op, ast.Not):
        return '(negb %s)' % setter_cond(e.operand)
    if isinstance(e, ast.Call) and isinstance(e.func, ast.Name) and e.func.id == 'hasattr' and len(e.args) == 2 and not e.keywords:
        a, b = e.args
        if isinstance(a, ast.Name) and a.id == 'self' and isinstance(b, ast.Constant) and b.value == '_coords':
            return 'has'
    if isinstance(e, ast.Compare) and len(e.ops) == 1:
        l, r = e.left, e.comparators[0]
        pair = {ast.unparse(l), ast.unparse(r)}
        if pair == {'self._coords', 'value'}:
            if isinstance(e.ops[0], (ast.NotEq, ast.IsNot)):
                return 'differs'
            if isinstance(e.ops[0], (ast.Eq, ast.Is)):
                return '(negb differs)'
    fail(e, 'condition of the coords setter')


def generate():
    mod = ast.parse(open(os.path.join(REPO, 'glue/core/component.py')).read())
    cls = [n for n in mod.body if isinstance(n, ast.ClassDef) and n.name == 'CoordinateComponent']
    if len(cls) != 1:
        raise Unsupported('class CoordinateComponent not found exactly once')
    cls = cls[0]
    meths = {}
    for n in cls.body:
        if isinstance(n, ast.FunctionDef):
            if n.name in meths:
                fail(n, 'method defined twice')
            meths[n.name] = n
    for need in ('__init__', 'data', '__getitem__', '_calculate'):
        if need not in meths:
            raise Unsupported('CoordinateComponent.%s not found' % need)
    check_no_hidden_state(cls)
    nfields = check_init(meths['__init__'])
    if [ast.unparse(d) for d in meths['data'].decorator_list] != ['property'] or [a.arg for a in meths['data'].args.args] != ['self']:
        fail(meths['data'], '`data` must be a plain property')
    calculate_call(meths['data'], None)
    g = meths['__getitem__']
    if g.decorator_list or len(g.args.args) != 2:
        fail(g, '__getitem__(self, key) expected')
    calculate_call(g, g.args.args[1].arg)
    cargs = meths['_calculate'].args
    if [a.arg for a in cargs.args] != ['self', 'view'] or len(cargs.defaults) != 1 or not (
            isinstance(cargs.defaults[0], ast.Constant) and cargs.defaults[0].value is None):
        fail(meths['_calculate'], '_calculate(self, view=None) expected')

    dmod = ast.parse(open(os.path.join(REPO, 'glue/core/data.py')).read())
    dcls = [n for n in dmod.body if isinstance(n, ast.ClassDef) and n.name == 'Data']
    if len(dcls) != 1:
        raise Unsupported('class Data not found exactly once')
    setters = [n for n in dcls[0].body if isinstance(n, ast.FunctionDef) and n.name == 'coords'
               and [ast.unparse(d) for d in n.decorator_list] == ['coords.setter']]
    if len(setters) != 1 or [a.arg for a in setters[0].args.args] != ['self', 'value']:
        raise Unsupported('Data.coords setter (self, value) not found exactly once')
    sb = body_of(setters[0])
    if len(sb) != 1 or not isinstance(sb[0], ast.If) or sb[0].orelse:
        fail(setters[0], 'setter body must be a single `if` without else')
    cond = setter_cond(sb[0].test)
    inner = sb[0].body
    if len(inner) != 2 or ast.unparse(inner[0]) != 'self._coords = value':
        fail(sb[0], 'first statement under the condition must be self._coords = value')
    upd = inner[1]
    if not (isinstance(upd, ast.If) and not upd.orelse and len(upd.body) == 1
            and ast.unparse(upd.body[0]) == 'self._update_world_components(self.ndim)'
            and isinstance(upd.test, ast.Compare) and len(upd.test.ops) == 1 and isinstance(upd.test.ops[0], ast.Gt)
            and ast.unparse(upd.test.left) == 'len(self.components)'
            and isinstance(upd.test.comparators[0], ast.Constant) and isinstance(upd.test.comparators[0].value, int)
            and not isinstance(upd.test.comparators[0].value, bool)):
        fail(upd, 'second statement must be `if len(self.components) > INT: self._update_world_components(self.ndim)`')
    thr = upd.test.comparators[0].value

    out = ('(* GENERATED by tools/gen/gen_coordcomp.py from glue/core/component.py and glue/core/data.py on every run -- do not edit. *)\n'
           'From Coq Require Import ZArith Bool.\nOpen Scope Z_scope.\n\n'
           '(* CoordinateComponent.__init__ stores exactly this many attributes (world, _data, axis); no other method stores into self *)\n'
           'Definition cc_fields : Z := %d.\n\n'
           '(* CoordinateComponent.data:  return self._calculate()  -- the values are computed at the time of the read *)\n'
           'Definition cc_data {V A : Type} (calculate : option V -> A) : A := calculate None.\n\n'
           '(* CoordinateComponent.__getitem__(key):  return self._calculate(key) *)\n'
           'Definition cc_getitem {V A : Type} (calculate : option V -> A) (key : V) : A := calculate (Some key).\n\n'
           '(* Data.coords setter: [has] = hasattr(self, \'_coords\'), [differs] = the new object is not the stored one;\n'
           '   true = self._coords is assigned and (when the dataset has components) the world components and links are rebuilt *)\n'
           'Definition coords_setter_rebuilds (has differs : bool) : bool := %s.\n\n'
           '(* ... the rebuild happens when len(self.components) > this number *)\n'
           'Definition coords_setter_needs_components : Z := %d.\n' % (nfields, cond, thr))
    if not os.path.exists(OUT) or open(OUT).read() != out:
        open(OUT, 'w').write(out)


if __name__ == '__main__':
    try:
        generate()
    except Unsupported as e:
        print('TRANSLATION-FAILED: %s' % e)
        sys.exit(3)
    print('ok', OUT)
