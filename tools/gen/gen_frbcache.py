#!/usr/bin/env python3
"""
Regenerate coq/gen/Gen_frbcache.v from the *current* source of glue/core/fixed_resolution_buffer.py (ast only, nothing imported).

What is translated (property C16, the cache keys of compute_fixed_resolution_buffer):

  bounds_for_cache(bounds, dimensions)   -> Gallina  bounds_for_cache_gen (a : nat) (bounds : list bound) (dimensions : list nat) : bkey
        `a` is the address of the caller's list object.  A `return <the parameter bounds>` becomes `KRef a` (the stored key IS the
        caller's mutable list), a `return <the list built here>` becomes `KVal ...` (a private list of immutable items).
        Accepted shape, anything else fails closed:
              [ if <test>: return bounds ]*                      early exits handing back the argument
              acc = []
              for i in range(len(bounds)):
                  if <test>: acc.append(<item>) else: acc.append(<item>)        (or a single acc.append(<item>))
              return acc
        <item> ::= AnyScalar() | bounds[i]         <test> ::= and / or / not over:  i in dimensions, i not in dimensions,
        np.isscalar(bounds[i]), isinstance(bounds[i], tuple), any(np.isscalar(b) for b in bounds), all(...)
  AnyScalar.__eq__(self, other)          -> any_scalar_eq_gen : bound -> bool      (accepted: `return np.isscalar(other)`, True, False)
  the key tuples of compute_fixed_resolution_buffer -> lists of strings (source text of every component, in order):
        array_key_attr_gen / array_key_state_gen   the two assignments `current_array_hash = (...)` under `if subset_state is None / else`
        pixel_key_gen                              `current_pixel_hash = (...)`
        array_key_replaced_gen                     the index i of `current_array_hash[:i] + (cache_bounds,) + current_array_hash[i+1:]`
        key_bounds_calls_gen                       for every call bounds_for_cache(<x>, <dims>) in the function: the source text of both arguments
C16/Lemmas2.v proves bounds_for_cache_gen = the model's key function (a private value, wildcard exactly on scalar bounds outside the
dimensions) and that the tables are the ones the model assumes.
"""
import ast
import os
import sys

HERE = os.path.dirname(os.path.abspath(__file__))
REPO = os.environ.get('GLUE_REPO', '/repo')
SRC = os.path.join(REPO, 'glue', 'core', 'fixed_resolution_buffer.py')
OUT = os.path.join(HERE, '..', '..', 'coq', 'gen', 'Gen_frbcache.v')


class Unsupported(Exception):
    pass


def bad(node, why):
    raise Unsupported('line %s: %s: %s' % (getattr(node, 'lineno', '?'), why, ast.unparse(node)[:160]))


def is_call(node, *path):
    """node is a call of a.b.c given as path"""
    if not isinstance(node, ast.Call):
        return False
    f = node.func
    for name in reversed(path[1:]):
        if not (isinstance(f, ast.Attribute) and f.attr == name):
            return False
        f = f.value
    return isinstance(f, ast.Name) and f.id == path[0]


class BFC:
    def __init__(self, fn):
        self.fn = fn
        args = fn.args
        if len(args.args) != 2 or args.vararg or args.kwarg or args.kwonlyargs or args.defaults:
            bad(fn, 'bounds_for_cache must take exactly (bounds, dimensions)')
        self.pb, self.pd = args.args[0].arg, args.args[1].arg
        self.loopvar = None

    def elem(self, node, var):
        """bounds[i] (i the loop variable) or the comprehension variable -> 'b'"""
        if var is not None and isinstance(node, ast.Name) and node.id == var:
            return True
        return (self.loopvar is not None and isinstance(node, ast.Subscript) and isinstance(node.value, ast.Name) and node.value.id == self.pb
                and isinstance(node.slice, ast.Name) and node.slice.id == self.loopvar)

    def atom_on_elem(self, node, var, b):
        if is_call(node, 'np', 'isscalar') and len(node.args) == 1 and not node.keywords and self.elem(node.args[0], var):
            return 'is_scalar %s' % b
        if (is_call(node, 'isinstance') and len(node.args) == 2 and self.elem(node.args[0], var)
                and isinstance(node.args[1], ast.Name) and node.args[1].id == 'tuple'):
            return 'negb (is_scalar %s)' % b
        return None

    def test(self, node, in_loop):
        if isinstance(node, ast.BoolOp):
            op = ' && ' if isinstance(node.op, ast.And) else ' || '
            return '(' + op.join(self.test(v, in_loop) for v in node.values) + ')'
        if isinstance(node, ast.UnaryOp) and isinstance(node.op, ast.Not):
            return 'negb ' + self.test(node.operand, in_loop)
        if isinstance(node, ast.Constant) and node.value in (True, False):
            return 'true' if node.value else 'false'
        if in_loop:
            a = self.atom_on_elem(node, None, 'b')
            if a:
                return '(' + a + ')'
            if (isinstance(node, ast.Compare) and len(node.ops) == 1 and isinstance(node.left, ast.Name) and node.left.id == self.loopvar
                    and isinstance(node.comparators[0], ast.Name) and node.comparators[0].id == self.pd):
                if isinstance(node.ops[0], ast.NotIn):
                    return '(negb (memn i %s))' % 'dimensions'
                if isinstance(node.ops[0], ast.In):
                    return '(memn i dimensions)'
        # any(<atom on x> for x in bounds) / all(...)
        if isinstance(node, ast.Call) and isinstance(node.func, ast.Name) and node.func.id in ('any', 'all') and len(node.args) == 1 and not node.keywords:
            g = node.args[0]
            if isinstance(g, (ast.GeneratorExp, ast.ListComp)) and len(g.generators) == 1:
                c = g.generators[0]
                if (isinstance(c.target, ast.Name) and isinstance(c.iter, ast.Name) and c.iter.id == self.pb and not c.ifs and not c.is_async):
                    saved, self.loopvar = self.loopvar, None
                    a = self.atom_on_elem(g.elt, c.target.id, 'x')
                    if a is None and isinstance(g.elt, ast.UnaryOp) and isinstance(g.elt.op, ast.Not):
                        a2 = self.atom_on_elem(g.elt.operand, c.target.id, 'x')
                        a = None if a2 is None else 'negb (%s)' % a2
                    self.loopvar = saved
                    if a:
                        return '(%s (fun x => %s) all_bounds)' % ('existsb' if node.func.id == 'any' else 'forallb', a)
        bad(node, 'unsupported test in bounds_for_cache')

    def item(self, node):
        if isinstance(node, ast.Call) and isinstance(node.func, ast.Name) and node.func.id == 'AnyScalar' and not node.args and not node.keywords:
            return 'CAny'
        if self.elem(node, None):
            return 'CB b'
        bad(node, 'unsupported key item (only AnyScalar() and bounds[i])')

    def append(self, st, acc):
        if (isinstance(st, ast.Expr) and isinstance(st.value, ast.Call) and isinstance(st.value.func, ast.Attribute) and st.value.func.attr == 'append'
                and isinstance(st.value.func.value, ast.Name) and st.value.func.value.id == acc and len(st.value.args) == 1 and not st.value.keywords):
            return self.item(st.value.args[0])
        bad(st, 'expected %s.append(<item>)' % acc)

    def translate(self):
        body = [s for s in self.fn.body if not (isinstance(s, ast.Expr) and isinstance(s.value, ast.Constant) and isinstance(s.value.value, str))]
        early = []
        k = 0
        while k < len(body) and isinstance(body[k], ast.If):
            st = body[k]
            if st.orelse or len(st.body) != 1 or not isinstance(st.body[0], ast.Return):
                bad(st, 'an early exit must be `if <test>: return <bounds>`')
            rv = st.body[0].value
            if not (isinstance(rv, ast.Name) and rv.id == self.pb):
                bad(st, 'an early exit may only return the argument itself')
            early.append(self.test(st.test, False))
            k += 1
        rest = body[k:]
        if len(rest) != 3:
            bad(self.fn, 'expected `acc = []`, one for loop, `return acc` after the early exits')
        a, loop, ret = rest
        if not (isinstance(a, ast.Assign) and len(a.targets) == 1 and isinstance(a.targets[0], ast.Name) and isinstance(a.value, ast.List) and not a.value.elts):
            bad(a, 'expected `acc = []`')
        acc = a.targets[0].id
        if acc in (self.pb, self.pd):
            bad(a, 'the accumulator shadows a parameter')
        ok_iter = (isinstance(loop, ast.For) and not loop.orelse and isinstance(loop.target, ast.Name) and is_call(loop.iter, 'range') and len(loop.iter.args) == 1
                   and is_call(loop.iter.args[0], 'len') and len(loop.iter.args[0].args) == 1 and isinstance(loop.iter.args[0].args[0], ast.Name)
                   and loop.iter.args[0].args[0].id == self.pb)
        if not ok_iter:
            bad(loop, 'expected `for i in range(len(bounds))`')
        self.loopvar = loop.target.id
        if len(loop.body) != 1:
            bad(loop, 'the loop body must be one statement')
        st = loop.body[0]
        if isinstance(st, ast.If):
            if len(st.body) != 1 or len(st.orelse) != 1:
                bad(st, 'each branch must append exactly one item')
            step = 'if %s then %s else %s' % (self.test(st.test, True), self.append(st.body[0], acc), self.append(st.orelse[0], acc))
        else:
            step = self.append(st, acc)
        if not (isinstance(ret, ast.Return) and isinstance(ret.value, ast.Name) and ret.value.id == acc):
            bad(ret, 'expected `return acc`')
        return early, step


def translate_anyscalar(cls):
    eqs = [n for n in cls.body if isinstance(n, ast.FunctionDef) and n.name == '__eq__']
    others = [n for n in cls.body if isinstance(n, ast.FunctionDef) and n.name != '__eq__']
    if len(eqs) != 1 or others or cls.bases and [ast.unparse(b) for b in cls.bases] != ['object']:
        bad(cls, 'AnyScalar must define exactly __eq__ and derive from object')
    fn = eqs[0]
    if len(fn.args.args) != 2 or len(fn.body) != 1 or not isinstance(fn.body[0], ast.Return):
        bad(fn, 'AnyScalar.__eq__ must be a single return')
    v = fn.body[0].value
    other = fn.args.args[1].arg
    if is_call(v, 'np', 'isscalar') and len(v.args) == 1 and isinstance(v.args[0], ast.Name) and v.args[0].id == other:
        return 'is_scalar b'
    if isinstance(v, ast.Constant) and v.value in (True, False):
        return 'true' if v.value else 'false'
    bad(fn, 'unsupported AnyScalar.__eq__')


def coq_str(s):
    return '"%s"' % s.replace('"', '""')


def key_tables(fn):
    arr, pix, repl, calls = [], [], [], []
    for node in ast.walk(fn):
        if isinstance(node, ast.Assign) and len(node.targets) == 1 and isinstance(node.targets[0], ast.Name):
            name = node.targets[0].id
            if name == 'current_array_hash':
                if isinstance(node.value, ast.Tuple):
                    arr.append((node.lineno, [ast.unparse(e) for e in node.value.elts]))
                else:
                    v = node.value
                    # current_array_hash[:i] + (cache_bounds,) + current_array_hash[i+1:]
                    ok = (isinstance(v, ast.BinOp) and isinstance(v.op, ast.Add) and isinstance(v.left, ast.BinOp) and isinstance(v.left.op, ast.Add))
                    if not ok:
                        bad(node, 'unsupported update of current_array_hash')
                    l, m, r = v.left.left, v.left.right, v.right

                    def sl(x):
                        if not (isinstance(x, ast.Subscript) and isinstance(x.value, ast.Name) and x.value.id == 'current_array_hash' and isinstance(x.slice, ast.Slice) and x.slice.step is None):
                            bad(x, 'expected a slice of current_array_hash')
                        lo = None if x.slice.lower is None else ast.literal_eval(x.slice.lower)
                        hi = None if x.slice.upper is None else ast.literal_eval(x.slice.upper)
                        return lo, hi
                    (l0, l1), (r0, r1) = sl(l), sl(r)
                    if l0 is not None or r1 is not None or not isinstance(l1, int) or r0 != l1 + 1:
                        bad(node, 'the update must replace exactly one component')
                    if not (isinstance(m, ast.Tuple) and len(m.elts) == 1):
                        bad(m, 'the replacement must be a 1-tuple')
                    repl.append((l1, ast.unparse(m.elts[0])))
            elif name == 'current_pixel_hash':
                if not isinstance(node.value, ast.Tuple):
                    bad(node, 'current_pixel_hash must be a tuple')
                pix.append([ast.unparse(e) for e in node.value.elts])
        if isinstance(node, ast.Call) and isinstance(node.func, ast.Name) and node.func.id == 'bounds_for_cache':
            if len(node.args) != 2 or node.keywords:
                bad(node, 'bounds_for_cache(x, dims) expected')
            calls.append((node.lineno, [ast.unparse(x) for x in node.args]))
    arr.sort()
    calls.sort()
    if len(arr) != 2 or len(pix) != 1 or len(repl) != 1:
        raise Unsupported('expected two `current_array_hash = (...)`, one `current_pixel_hash = (...)`, one replacement; got %d, %d, %d' % (len(arr), len(pix), len(repl)))
    # which of the two array keys is the attribute one: the `if subset_state is None:` whose body / orelse hold them
    found = None
    for node in ast.walk(fn):
        if isinstance(node, ast.If) and ast.unparse(node.test) == 'subset_state is None' and len(node.body) == 1 and len(node.orelse) == 1:
            b, o = node.body[0], node.orelse[0]
            if all(isinstance(x, ast.Assign) and isinstance(x.targets[0], ast.Name) and x.targets[0].id == 'current_array_hash' and isinstance(x.value, ast.Tuple) for x in (b, o)):
                found = ([ast.unparse(e) for e in b.value.elts], [ast.unparse(e) for e in o.value.elts])
    if found is None:
        raise Unsupported('the two array keys must be built under `if subset_state is None: ... else: ...`')
    return found[0], found[1], pix[0], repl[0], [c[1] for c in calls]


def main():
    mod = ast.parse(open(SRC).read())
    fns = [n for n in mod.body if isinstance(n, ast.FunctionDef) and n.name == 'bounds_for_cache']
    cls = [n for n in mod.body if isinstance(n, ast.ClassDef) and n.name == 'AnyScalar']
    main_fn = [n for n in mod.body if isinstance(n, ast.FunctionDef) and n.name == 'compute_fixed_resolution_buffer']
    if len(fns) != 1 or len(cls) != 1 or len(main_fn) != 1:
        raise Unsupported('bounds_for_cache / AnyScalar / compute_fixed_resolution_buffer not found exactly once at module level')
    # nothing else in the module may rebind the three names
    for n in ast.walk(mod):
        if isinstance(n, (ast.Assign, ast.AugAssign, ast.AnnAssign)):
            tg = n.targets if isinstance(n, ast.Assign) else [n.target]
            for t in tg:
                if isinstance(t, ast.Name) and t.id in ('bounds_for_cache', 'AnyScalar'):
                    bad(n, 'rebinding of a translated name')
    early, step = BFC(fns[0]).translate()
    anyeq = translate_anyscalar(cls[0])
    ka, ks, kp, (ri, rtxt), calls = key_tables(main_fn[0])
    body = 'KVal (bfc_loop_gen 0 bounds bounds dimensions)'
    for t in reversed(early):
        body = 'if %s then KRef a else %s' % (t, body)
    out = '''(* GENERATED by tools/gen/gen_frbcache.py from glue/core/fixed_resolution_buffer.py on every run -- do not edit. *)
From Coq Require Import List Bool String.
Import ListNotations.
From GV Require Import C16.Model.

(* AnyScalar.__eq__(self, other) *)
Definition any_scalar_eq_gen (b : bound) : bool := %s.

(* bounds_for_cache(bounds, dimensions): the loop; all_bounds is the whole argument *)
Fixpoint bfc_loop_gen (i : nat) (all_bounds bs : list bound) (dimensions : list nat) : list cbound :=
  match bs with
  | [] => []
  | b :: r => (%s) :: bfc_loop_gen (S i) all_bounds r dimensions
  end.

(* a = the caller's list object; KRef a = the function hands back the argument itself *)
Definition bounds_for_cache_gen (a : nat) (bounds : list bound) (dimensions : list nat) : bkey :=
  let all_bounds := bounds in
  %s.

(* the key tuples of compute_fixed_resolution_buffer, component by component (source text) *)
Definition array_key_attr_gen : list string := [%s]%%string.
Definition array_key_state_gen : list string := [%s]%%string.
Definition pixel_key_gen : list string := [%s]%%string.
(* current_array_hash[:i] + (x,) + current_array_hash[i+1:] : (i, x) *)
Definition array_key_replaced_gen : nat * string := (%d%%nat, %s%%string).
(* every call bounds_for_cache(x, dims) of the function, in source order *)
Definition key_bounds_calls_gen : list (string * string) := [%s]%%string.
''' % (anyeq, step, body,
       '; '.join(coq_str(x) for x in ka), '; '.join(coq_str(x) for x in ks), '; '.join(coq_str(x) for x in kp),
       ri, coq_str(rtxt), '; '.join('(%s, %s)' % (coq_str(c[0]), coq_str(c[1])) for c in calls))
    if not os.path.exists(OUT) or open(OUT).read() != out:
        open(OUT, 'w').write(out)
    print('Gen_frbcache.v: %d early exit(s) returning the argument; keys %d/%d/%d components' % (len(early), len(ka), len(ks), len(kp)))


if __name__ == '__main__':
    try:
        main()
    except Unsupported as e:
        print('gen_frbcache: cannot translate: %s' % e)
        sys.exit(3)
